"""Variant table of the checker self-test (DESIGN.md Appendix B).

Selectors locate AST nodes of the *current* tree; they are test inputs, not rules.  A variant whose
edit no longer applies (the tree moved on) is reported as `edit failed`, never as a verdict.
"""

from __future__ import annotations

import ast
import os

from selftest.harness import Edit, Variant

VERIF = os.path.dirname(os.path.dirname(os.path.abspath(__file__)))
REPAIRS = os.path.join(VERIF, "design", "planned_repairs")

NL = "⏎"  # newline + indentation of the edited node (expanded by the harness)


def U(n: ast.AST) -> str:
    return ast.unparse(n)


def stmt(prefix: str):
    return lambda n: isinstance(n, ast.stmt) and U(n).startswith(prefix)


def stmt_has(text: str):
    return lambda n: isinstance(n, ast.stmt) and not isinstance(n, (ast.FunctionDef, ast.AsyncFunctionDef, ast.ClassDef, ast.If, ast.Try, ast.With, ast.AsyncWith, ast.While, ast.For, ast.Match)) and text in U(n)


def expr(text: str):
    return lambda n: isinstance(n, ast.expr) and U(n) == text


def expr_has(text: str, kind=ast.expr):
    return lambda n: isinstance(n, kind) and text in U(n)


def node(kind, text: str = ""):
    return lambda n: isinstance(n, kind) and text in U(n)


def handler(text: str):
    return lambda n: isinstance(n, ast.ExceptHandler) and U(n).startswith("except " + text)


def to(new: str):
    return lambda src: new


def sub(old: str, new: str):
    def f(src: str) -> str:
        if old not in src:
            raise ValueError(f"`{old}` not in segment `{src[:80]}`")
        return src.replace(old, new, 1)

    return f


def before(new: str):
    return lambda src: new + NL + src


def after(new: str):
    return lambda src: src + NL + new


PASS = to("pass")

V: list[Variant] = []


def brk(name: str, edits: list[Edit], expected: dict[str, list[str]], note: str = "") -> None:
    V.append(Variant(name, edits, expected=expected, note=note))


def ben(name: str, edits: list[Edit], silent: list[str], note: str = "") -> None:
    V.append(Variant(name, edits, silent=silent, note=note))


def E(where: str, select, rewrite, nth: int = 0, what: str = "") -> Edit:
    return Edit(where, select, rewrite, nth, what)


SC = "context.access.ScopeContext"
ALL_CTX = ["C01", "C02", "C03", "C06", "C07", "C09"]

# =============================================================================================== C02
brk("c02_drop_state_exit_async", [E(f"{SC}.__aexit__", stmt("self._state_context.__exit__"), PASS, what="delete state exit")], {"C02": ["C02.3"]})
brk("c02_drop_metrics_exit_async", [E(f"{SC}.__aexit__", stmt("self._metrics_context.__exit__"), PASS, what="delete metrics exit")], {"C02": ["C02.3"], "C09": []})
brk("c02_drop_group_exit_async", [E(f"{SC}.__aexit__", stmt("await self._task_group_context.__aexit__"), PASS, what="delete group exit")], {"C02": ["C02.3"], "C06": ["C06.4"]})
brk("c02_drop_state_exit_sync", [E(f"{SC}.__exit__", stmt("self._state_context.__exit__"), PASS)], {"C02": ["C02.2"]})
brk(
    "c02_early_return_on_cancel",
    [E(f"{SC}.__aexit__", lambda n: isinstance(n, ast.Try), before("if exc_type is not None and issubclass(exc_type, KeyboardInterrupt):" + NL + "    return"), what="early return before cleanup")],
    {"C02": ["C02.3"]},
)
brk("c02_reset_deleted_state", [E("context.state.StateContext.__exit__", stmt("StateContext._context.reset"), PASS)], {"C02": ["C02.1"]})
brk("c02_reset_deleted_metrics", [E("context.metrics.MetricsContext.__exit__", stmt("MetricsContext._context.reset"), PASS)], {"C02": ["C02.1"]})
brk("c02_reset_after_finish", [
    E("context.metrics.MetricsContext.__exit__", stmt("MetricsContext._context.reset"), PASS),
    E("context.metrics.MetricsContext.__exit__", stmt("self._metrics.log"), after("MetricsContext._context.reset(self._token)"), what="reset moved behind raising calls"),
], {"C02": ["C02.1"]})
brk("c02_token_cleared_first", [
    E("context.state.StateContext.__exit__", stmt("self._token = None"), PASS),
    E("context.state.StateContext.__exit__", stmt("StateContext._context.reset"), before("token, self._token = self._token, None"), what="token cleared before reset"),
], {"C02": ["C02.1"]})
brk("c02_return_true", [E(f"{SC}.__exit__", stmt("self._metrics_context.__exit__"), before("if exc_type is LookupError:" + NL + "    return True"))], {"C02": ["C02.5"]})
brk("c02_exc_val_dropped", [E(f"{SC}.__aexit__", expr_has("self._task_group_context.__aexit__", ast.Call), sub("exc_val=exc_val", "exc_val=None"))], {"C02": ["C02.6"], "C06": ["C06.3"], "C07": ["C07.4"]})
brk("c02_unfix_cleanup_sequencing", [], {"C02": ["C02.2", "C02.3"], "C06": ["C06.4"]}, note="reverse of fix 0006")
brk("c02_unfix_enter_rollback", [], {"C02": ["C02.4"], "C09": ["C09.8"]}, note="reverse of fix 0007")
brk("c02_set_outside_enter", [E("context.state.StateContext.__init__", stmt("self._token"), after("StateContext._context.set(state)"), what="set in __init__")], {"C02": ["C02.1"]})
ben("c02_swap_metrics_state_exit", [
    E(f"{SC}.__exit__", stmt("self._metrics_context.__exit__"), sub("self._metrics_context", "self._state_context")),
    E(f"{SC}.__exit__", stmt("self._state_context.__exit__"), sub("self._state_context", "self._metrics_context"), nth=1),
], ["C02", "C09"], note="metrics/state exits swapped: each resets its own variable")
ben("c02_log_inside_protected_region", [E(f"{SC}.__aexit__", stmt("self._metrics_context.__exit__"), before("MetricsContext.log_debug('leaving')"))], ["C02", "C06", "C09", "C10"])
ben("c02_bare_none_return", [E("context.state.StateContext.__exit__", stmt("self._token = None"), after("return None"))], ["C02"])

# =============================================================================================== C06
TGC = "context.tasks.TaskGroupContext"
brk("c06_detached_always", [E(f"{TGC}.run", lambda n: isinstance(n, ast.Try), to("return get_event_loop().create_task(function(*args, **kwargs), context=copy_context())"))], {"C06": ["C06.1"]})
brk("c06_no_detached_fallback", [E(f"{TGC}.run", handler("LookupError"), to("except LookupError:" + NL + "    raise"))], {"C06": ["C06.1"]})
brk("c06_group_exit_not_awaited", [E(f"{TGC}.__aexit__", expr_has("await self._group.__aexit__", ast.Await), sub("await ", ""))], {"C06": ["C06.2"]})
brk("c06_exc_not_forwarded_to_group", [E(f"{TGC}.__aexit__", expr_has("self._group.__aexit__", ast.Call), sub("et=exc_type", "et=None"))], {"C06": ["C06.3"], "C07": ["C07.4"]})
brk("c06_publish_before_enter", [
    E(f"{TGC}.__aenter__", stmt("await self._group.__aenter__"), PASS),
    E(f"{TGC}.__aenter__", stmt("self._token ="), after("await self._group.__aenter__()")),
], {"C06": ["C06.6"]})
brk("c06_sync_scope_rebinds_group", [E(f"{SC}.__enter__", stmt("self._metrics_context.__enter__"), after("TaskGroupContext._context.set(self._task_group_context._group)"))], {"C06": ["C06.5"], "C02": ["C02.1"], "C03": ["C03.1"]})
brk("c06_args_dropped", [E(f"{TGC}.run", expr("function(*args, **kwargs)"), to("function(*args)"))], {"C06": ["C06.1"]})
brk("c06_shared_group", [E(f"{TGC}.__init__", stmt("self._group"), sub("TaskGroup()", "_SHARED_GROUP"))], {"C06": ["C06.5"]})
ben("c06_drop_redundant_context_kw", [E(f"{TGC}.run", expr_has("cls._context.get().create_task", ast.Call), sub("context=copy_context(),", ""))], ["C06", "C03"], note="API_FACT 11")
ben("c06_task_local_then_return", [E(f"{TGC}.run", lambda n: isinstance(n, ast.Return) and "cls._context.get()" in U(n), lambda s: s.replace("return ", "task = ", 1) + NL + "return task")], ["C06"])

# =============================================================================================== C07
brk("c07_unfix_swallow", [], {"C07": ["C07.1"]}, note="reverse of fix 0010")
brk("c07_unfix_cancelled", [], {"C07": ["C07.2"]}, note="reverse of fix 0011")
brk("c07_retry_swallows_cancel", [E("helpers.retries._wrap_async.wrapped", handler("CancelledError"), lambda s: s.replace("raise exc", "return None"))], {"C07": ["C07.1"]})
brk("c07_traced_masks", [E("helpers.tracing._traced_async.traced", lambda n: isinstance(n, ast.Raise), to("raise RuntimeError('traced') from exc"))], {"C07": ["C07.1"]})
brk("c07_widen_record_handler", [E("context.metrics.MetricsContext.record", handler("Exception"), sub("except Exception", "except BaseException"))], {"C07": ["C07.1"]})
brk("c07_check_done", [E("context.access.ctx.check_cancellation", expr_has("task.cancelling()", ast.Compare), to("task.done()"))], {"C07": ["C07.2"]})
brk("c07_check_inverted", [E("context.access.ctx.check_cancellation", expr_has("task.cancelling()", ast.Compare), to("task.cancelling() == 0"))], {"C07": ["C07.2"]})
brk("c07_check_needs_two", [E("context.access.ctx.check_cancellation", expr_has("task.cancelling()", ast.Compare), to("task.cancelling() > 1"))], {"C07": ["C07.2"]})
brk("c07_cancel_noop", [E("context.access.ctx.cancel", stmt("task.cancel()"), PASS)], {"C07": ["C07.3"]})
brk("c07_cancel_silent_outside", [E("context.access.ctx.cancel", lambda n: isinstance(n, ast.Raise), PASS)], {"C07": ["C07.3"]})
brk("c07_uncancel", [E(f"{TGC}.__aexit__", lambda n: isinstance(n, ast.Try), after("if (task := current_task_()) is not None:" + NL + "    task.uncancel()"))], {"C07": ["C07.1"]})
ben("c07_bare_raise", [E("helpers.retries._wrap_async.wrapped", handler("CancelledError"), lambda s: s.replace("raise exc", "raise"))], ["C07", "C14"])
brk("c02_narrow_silencer", [E(f"{TGC}.__aexit__", handler("BaseException"), sub("except BaseException", "except Exception"))], {"C02": ["C02.7"], "C11": ["C11.7"]}, note="found by a seeded change: a BaseExceptionGroup from the task group replaces the body's exception; aclose of a stream raises the group")
ben("c07_narrow_silencer_keeps_cancellation", [E(f"{TGC}.__aexit__", handler("BaseException"), sub("except BaseException", "except Exception"))], ["C07", "C06"])
ben("c07_check_truthy", [E("context.access.ctx.check_cancellation", expr_has("task.cancelling()", ast.Compare), to("task.cancelling()"))], ["C07"])
ben("c07_check_ge1", [E("context.access.ctx.check_cancellation", expr_has("task.cancelling()", ast.Compare), to("task.cancelling() >= 1"))], ["C07"])

# =============================================================================================== C09
SM = "context.metrics.ScopeMetrics"
brk("c09_unfix_completed_parent", [], {"C09": ["C09.6", "C09.9"]}, note="reverse of fix 0012")
brk("c09_complete_without_finish_guard", [E(f"{SM}._complete_if_able", lambda n: isinstance(n, ast.If) and "_finished" in U(n.test), PASS)], {"C09": ["C09.2"]})
brk("c09_complete_without_nested_guard", [E(f"{SM}._complete_if_able", lambda n: isinstance(n, ast.If) and "_nested" in U(n.test), PASS)], {"C09": ["C09.2"]})
brk("c09_nested_guard_inverted", [E(f"{SM}._complete_if_able", expr_has("any(", ast.Call), lambda s: s.replace("not nested.is_completed", "nested.is_completed"))], {"C09": []}, note="any(completed) -> unknown value, resolution reachable in scenario")
brk("c09_no_parent_notification", [E(f"{SM}._complete_if_able", stmt("parent._complete_if_able()"), PASS)], {"C09": ["C09.4"]})
brk("c09_finish_forgets_complete", [E(f"{SM}._finish", stmt("self._complete_if_able()"), PASS)], {"C09": ["C09.3"]})
brk("c09_complete_before_finished", [
    E(f"{SM}._finish", stmt("self._finished = True"), PASS),
    E(f"{SM}._finish", stmt("self._complete_if_able()"), after("self._finished = True")),
], {"C09": ["C09.3"]})
brk("c09_exit_skips_finish", [E("context.metrics.MetricsContext.__exit__", stmt("self._metrics._finish()"), PASS)], {"C09": ["C09.3"]})
brk("c09_second_resolution_site", [E(f"{SM}._finish", stmt("self._complete_if_able()"), after("if not self._completed.done():" + NL + "    self._completed.set_result(0.0)"))], {"C09": ["C09.1"]})
brk("c09_no_registration", [E(f"{SM}.__init__", stmt("parent._nested.append(self)"), PASS)], {"C09": ["C09.5"]})
brk("c09_parent_not_passed", [E("context.metrics.MetricsContext.scope", expr_has("parent=current", ast.Call), sub("parent=current", "parent=None"))], {"C09": ["C09.5"]})
brk("c09_callback_not_attached", [E(f"{SM}.__init__", stmt("self._completed.add_done_callback"), PASS)], {"C09": ["C09.1"]})
brk("c09_time_keeps_running", [E(f"{SM}.time", lambda n: isinstance(n, ast.Return) and "result()" in U(n), to("return monotonic() - self._timestamp"))], {"C09": ["C09.7"]})
ben("c09_all_instead_of_any", [E(f"{SM}._complete_if_able", lambda n: isinstance(n, ast.If) and "_nested" in U(n.test), lambda s: s.replace("any(not nested.is_completed for nested in self._nested)", "not all(nested.is_completed for nested in self._nested)"))], ["C09"])

# =============================================================================================== C16
TO = "helpers.timeouted._AsyncTimeout.__call__"
brk("c16_unfix_on_completion", [], {"C16": ["C16.2"]}, note="reverse of fix 0018")
brk("c16_narrow_handler", [E(f"{TO}.on_completion", handler("BaseException"), sub("except BaseException", "except Exception"))], {"C16": ["C16.2"]})
brk("c16_register_after_await", [
    E(TO, stmt("future.add_done_callback"), PASS),
    E(TO, lambda n: isinstance(n, ast.Return), lambda s: "try:" + NL + "    " + s + NL + "finally:" + NL + "    future.add_done_callback(on_result)", nth=-1),
], {"C16": ["C16.1"]})
brk("c16_timer_not_cancelled", [E(f"{TO}.on_completion", stmt("timeout_handle.cancel()"), PASS)], {"C16": ["C16.3"]})
brk("c16_conditional_task_cancel", [E(f"{TO}.on_result", stmt("task.cancel()"), to("if future.cancelled():" + NL + "    task.cancel()"))], {"C16": ["C16.4"]})
brk("c16_timeout_overwrites", [E(f"{TO}.on_timeout", lambda n: isinstance(n, ast.If), PASS)], {"C16": ["C16.5"]})
brk("c16_wrong_error", [E(f"{TO}.on_timeout", expr("TimeoutError()"), to("RuntimeError()"))], {"C16": ["C16.5"]})
brk("c16_returns_task_not_future", [E(TO, lambda n: isinstance(n, ast.Return), to("return await task"), nth=-1)], {"C16": ["C16.6"]})
brk("c16_kwargs_dropped", [E(TO, expr_has("self._function(", ast.Call), lambda s: "self._function(*args)")], {"C16": ["C16.6"]})
brk("c16_wrong_delay", [E(TO, expr_has("loop.call_later", ast.Call), sub("self._timeout", "0"))], {"C16": ["C16.1"]})
ben("c16_renamed_closures", [
    E(TO, stmt("task.add_done_callback"), sub("on_completion", "_done")),
    E(TO, lambda n: isinstance(n, ast.FunctionDef) and n.name == "on_completion", sub("def on_completion", "def _done")),
], ["C16"])

# =============================================================================================== C17
Q = "utils.queue.AsyncQueue"
brk("c17_unfix_lost_handoff", [], {"C17": ["C17.6"]}, note="reverse of fix 0019")
brk("c17_appendleft_in_enqueue", [E(f"{Q}.enqueue", stmt("self._queue.append(element)"), sub("append", "appendleft"))], {"C17": ["C17.1"]})
brk("c17_pop_right", [E(f"{Q}.__anext__", expr("self._queue.popleft()"), to("self._queue.pop()"))], {"C17": ["C17.1"]})
brk("c17_element_duplicated", [E(f"{Q}.enqueue", stmt("self._waiting.set_result(element)"), after("self._queue.append(element)"))], {"C17": ["C17.2"]})
brk("c17_element_dropped_when_waiting_done", [E(f"{Q}.enqueue", lambda n: isinstance(n, ast.If) and "_waiting" in U(n.test), lambda s: s.replace("self._waiting is not None and not self._waiting.done()", "self._waiting is not None"))], {"C17": ["C17.2"]})
brk("c17_extend_before_element", [
    E(f"{Q}.enqueue", stmt("self._queue.extend(elements)"), PASS),
    E(f"{Q}.enqueue", lambda n: isinstance(n, ast.If) and "_waiting" in U(n.test), before("self._queue.extend(elements)")),
], {"C17": ["C17.2"]})
brk("c17_enqueue_after_finish_ok", [E(f"{Q}.enqueue", lambda n: isinstance(n, ast.If) and "is_finished" in U(n.test), PASS)], {"C17": ["C17.3"]})
brk("c17_reason_before_buffer", [
    E(f"{Q}.__anext__", lambda n: isinstance(n, ast.If) and "_finish_reason" in U(n.test), PASS),
    E(f"{Q}.__anext__", lambda n: isinstance(n, ast.If) and U(n.test) == "self._queue", before("if self._finish_reason is not None:" + NL + "    raise self._finish_reason")),
], {"C17": ["C17.4"]})
brk("c17_refinish_overwrites", [E(f"{Q}.finish", lambda n: isinstance(n, ast.If) and "is_finished" in U(n.test), PASS)], {"C17": ["C17.5"]})
brk("c17_finish_does_not_wake", [E(f"{Q}.finish", lambda n: isinstance(n, ast.If) and "_waiting" in U(n.test), PASS)], {"C17": ["C17.5"]})
brk("c17_waiting_not_cleared", [E(f"{Q}.__anext__", stmt("self._waiting = None"), PASS)], {"C17": ["C17.6"]})
brk("c17_rebuffer_at_back", [E(f"{Q}.__anext__", expr_has("self._queue.appendleft", ast.Call), sub("appendleft", "append"))], {"C17": ["C17.1", "C17.6"]})
ben("c17_reformat", [], ["C17"], note="ast.unparse round trip of utils/queue.py")

# =============================================================================================== C20
MT = "types.missing"
brk("c20_unfix_reduce", [], {"C20": ["C20.2"]}, note="reverse of fix 0001")
brk("c20_eq_isinstance", [E(f"{MT}.Missing.__eq__", lambda n: isinstance(n, ast.Return), to("return isinstance(value, Missing)"))], {"C20": ["C20.3"]})
brk("c20_bool_true", [E(f"{MT}.Missing.__bool__", lambda n: isinstance(n, ast.Return), to("return True"))], {"C20": ["C20.3"]})
brk("c20_is_missing_by_eq", [E(f"{MT}.is_missing", lambda n: isinstance(n, ast.Return), to("return check == MISSING"))], {"C20": ["C20.4"]})
brk("c20_when_missing_truthiness", [E(f"{MT}.when_missing", lambda n: isinstance(n, ast.If), lambda s: s.replace("check is MISSING", "not check"))], {"C20": ["C20.4"]})
brk("c20_setattr_silent", [E(f"{MT}.Missing.__setattr__", lambda n: isinstance(n, ast.Raise), to("return None"))], {"C20": ["C20.3"]})
brk("c20_fresh_instance_each_call", [E(f"{MT}.MissingType.__call__", lambda n: isinstance(n, ast.If), to("cls._instance = super().__call__()" + NL + "return cls._instance"))], {"C20": ["C20.1"]})
brk("c20_validator_by_eq", [E("state.validation._prepare_validator_of_missing.validator", lambda n: isinstance(n, ast.If), lambda s: s.replace("value is MISSING", "value == MISSING"))], {"C20": ["C20.4"]})
brk("c20_second_instantiation", [E("state.structure.State.as_dict", stmt("dict_result: dict"), after("_marker = Missing()"))], {"C20": ["C20.5"]})
brk("c20_state_eq_default_by_eq", [E("state.structure.StateAttribute.validated", lambda n: isinstance(n, ast.Return), lambda s: s.replace("value is MISSING", "value == MISSING"))], {"C20": ["C20.4"]})
ben("c20_reduce_global_name", [E(f"{MT}.Missing.__reduce__", lambda n: isinstance(n, ast.Return), to("return 'MISSING'"))], ["C20"])

# =============================================================================================== C01 / C03
SS = "context.state.ScopeState"
brk("c01_unfix_cached_default", [], {"C01": ["C01.5"], "C03": ["C03.2"]}, note="reverse of fix 0002")
brk("c01_reversed_merge", [E(f"{SS}.updated", lambda n: isinstance(n, ast.List), to("[*state, *self._state.values()]"))], {"C01": ["C01.1"]})
brk("c01_inplace_update", [E(f"{SS}.updated", lambda n: isinstance(n, ast.Return) and "__class__" in U(n), to("self._state.update({type(e): e for e in state})" + NL + "return self"))], {"C01": ["C01.5"], "C03": ["C03.2", "C03.5"]})
brk("c01_default_wins_over_stored", [
    E(f"{SS}.state", lambda n: isinstance(n, ast.If) and "in self._state" in U(n.test), lambda s: s.replace("if state in self._state:", "if default is not None:", 1).replace("return cast(StateType, self._state[state])", "return default", 1).replace("elif default is not None:", "elif state in self._state:", 1).replace("            return default", "            return cast(StateType, self._state[state])", 1)),
], {"C01": ["C01.2"]})
brk("c01_subclass_match", [E(f"{SS}.state", lambda n: isinstance(n, ast.If) and "in self._state" in U(n.test), before("for candidate in self._state.values():" + NL + "    if isinstance(candidate, state):" + NL + "        return candidate"))], {"C01": ["C01.4"]})
brk("c01_handler_returns_default", [E(f"{SS}.state", handler("Exception"), to("except Exception as exc:" + NL + "    return cast(StateType, None)"))], {"C01": ["C01.3"]})
brk("c01_missing_context_swallowed", [E("context.state.StateContext.current", handler("LookupError"), to("except LookupError as exc:" + NL + "    return ScopeState(()).state(state, default=default)"))], {"C01": ["C01.6"]})
brk("c01_disposables_state_ignored", [E(f"{SC}.__aenter__", lambda n: isinstance(n, ast.Assign) and "self._disposables.__aenter__" in U(n), to("await self._disposables.__aenter__()" + NL + "self._state_context = StateContext.updated(self._state)"))], {"C01": ["C01.7"]})
brk("c01_default_not_forwarded", [E("context.access.ctx.state", expr_has("StateContext.current", ast.Call), sub("default=default", "default=None"))], {"C01": ["C01.8"]})
brk("c01_fresh_state_always", [E("context.state.StateContext.updated", lambda n: isinstance(n, ast.Try), to("return cls(state=ScopeState(state))"))], {"C01": ["C01.7"]})
brk("c01_ctor_keyed_by_base", [E(f"{SS}.__init__", lambda n: isinstance(n, ast.DictComp), to("{type(element).__mro__[-2]: element for element in state}"))], {"C01": ["C01.1"]})
ben("c01_dict_merge", [
    E(f"{SS}.updated", lambda n: isinstance(n, ast.List), to("(*self._state.values(), *state)")),
], ["C01", "C03"], note="tuple display instead of list display")
ben("c01_type_local", [E(f"{SS}.__init__", lambda n: isinstance(n, ast.DictComp), to("{element.__class__: element for element in state}"))], ["C01"])
brk("c03_stored_context", [E(f"{TGC}.run", expr_has("cls._context.get().create_task", ast.Call), sub("context=copy_context()", "context=_CTX"))], {"C03": ["C03.3"]})
brk("c03_module_cache", [E("context.state.StateContext.__enter__", stmt("self._token ="), after("global _current" + NL + "_current = self._state"))], {"C03": ["C03.4"]})
brk("c03_class_level_current", [E("context.state.StateContext.__enter__", stmt("self._token ="), after("StateContext.last = self._state"))], {"C03": ["C03.4"]})
brk("c03_contextvar_leaks", [E("context.access.ctx.updated", lambda n: isinstance(n, ast.Return), before("StateContext._context.get()"))], {"C03": ["C03.1"]})

# =============================================================================================== C12 / C13
for cls_, m in (("_SyncCache", "__call__"), ("_SyncCache", "__method_call__"), ("_AsyncCache", "__call__"), ("_AsyncCache", "__method_call__")):
    fq = f"helpers.caching.{cls_}.{m}"
    tag = f"{cls_[1:].lower()}_{m.strip('_')}"
    brk(f"c12_untyped_{tag}", [E(fq, expr_has("_make_key(", ast.Call), sub("typed=True", "typed=False"))], {"C12": ["C12.1"]})
    brk(f"c12_no_move_to_end_{tag}", [E(fq, stmt("self._cached.move_to_end"), PASS)], {"C12": ["C12.3"]})
    brk(f"c12_evict_newest_{tag}", [E(fq, expr_has("self._cached.popitem", ast.Call), sub("last=False", "last=True"))], {"C12": ["C12.4"]})
    brk(f"c12_evict_at_limit_{tag}", [E(fq, lambda n: isinstance(n, ast.Compare) and "len(self._cached)" in U(n), sub(">", ">="))], {"C12": ["C12.4"]})
    brk(f"c12_stale_returned_{tag}", [E(fq, lambda n: isinstance(n, ast.Compare) and "monotonic()" in U(n), sub("<", ">"))], {"C12": ["C12.3"]})
    brk(f"c12_kwargs_not_in_key_{tag}", [E(fq, expr_has("_make_key(", ast.Call), sub("kwds=kwargs", "kwds={}"))], {"C12": ["C12.1"]})
    ben(f"c12_while_evict_{tag}", [E(fq, lambda n: isinstance(n, ast.If) and "len(self._cached)" in U(n.test), lambda s: s.replace("if len", "while len", 1))], ["C12", "C13"] if "Async" in cls_ else ["C12"])
for m in ("__method_call__",):
    for cls_ in ("_SyncCache", "_AsyncCache"):
        brk(f"c12_receiver_not_in_key_{cls_}", [E(f"helpers.caching.{cls_}.{m}", expr_has("_make_key(", ast.Call), sub("(ref(__method_self), *args)", "args"))], {"C12": ["C12.1"]})
for m in ("__call__", "__method_call__"):
    fq = f"helpers.caching._AsyncCache.{m}"
    brk(f"c13_await_before_store_{m.strip('_')}", [E(fq, lambda n: isinstance(n, ast.AnnAssign) and "create_task" in U(n), before("await sleep_(0)"))], {"C13": ["C13.1"]})
    brk(f"c13_unshielded_hit_{m.strip('_')}", [E(fq, expr("shield(entry[0])"), to("entry[0]"))], {"C13": ["C13.3"]})
    brk(f"c13_unshielded_miss_{m.strip('_')}", [E(fq, expr("shield(task)"), to("task"))], {"C13": ["C13.3"]})
    brk(f"c13_cancel_on_expiry_{m.strip('_')}", [E(fq, stmt("del self._cached[key]"), before("entry[0].cancel()"))], {"C13": ["C13.4"]})
    brk(f"c13_store_result_{m.strip('_')}", [E(fq, lambda n: isinstance(n, ast.AnnAssign) and "create_task" in U(n), after("result_ = await shield(task)"))], {"C13": ["C13.1"]})
ben("c13_key_local_rename", [E("helpers.caching._AsyncCache.__call__", lambda n: isinstance(n, ast.AsyncFunctionDef), lambda s: __import__("re").sub(r"\bkey\b", "cache_key", s))], ["C12", "C13"])


# =============================================================================================== C04 / C05
STT = "state.structure.State"
VALM = "state.validation"
brk("c04_setattr_allows_private", [E(f"{STT}.__setattr__", lambda n: isinstance(n, ast.Raise), before("if name.startswith('_'):" + NL + "    return object.__setattr__(self, name, value)"))], {"C04": ["C04.1", "C04.2"]})
brk("c04_delattr_noop", [E(f"{STT}.__delattr__", lambda n: isinstance(n, ast.Raise), to("return None"))], {"C04": ["C04.1"]})
brk("c04_sequence_returns_input", [E(f"{VALM}._prepare_validator_of_sequence.validator", lambda n: isinstance(n, ast.Return), to("[element_validator(element) for element in elements]" + NL + "return value"))], {"C04": ["C04.3"]})
brk("c04_set_returns_mutable_set", [E(f"{VALM}._prepare_validator_of_set.validator", expr_has("frozenset(", ast.Call), sub("frozenset(", "set("))], {"C04": ["C04.3"]})
brk("c04_mapping_proxy_over_input", [E(f"{VALM}._prepare_validator_of_mapping.validator", lambda n: isinstance(n, ast.Return), to("{key_validator(key): value_validator(val) for key, val in elements.items()}" + NL + "return MappingProxyType(value)"))], {"C04": ["C04.3"]})
brk("c04_replace_kwargs_first", [E(f"{STT}.__replace__", lambda n: isinstance(n, ast.Dict), to("{**kwargs, **vars(self)}"))], {"C04": ["C04.4"]})
brk("c04_replace_bypasses_validation", [E(f"{STT}.__replace__", lambda n: isinstance(n, ast.Return), to("copy = self.__class__(**vars(self))" + NL + "for key, value in kwargs.items():" + NL + "    object.__setattr__(copy, key, value)" + NL + "return copy"))], {"C04": ["C04.2", "C04.4"]})
brk("c04_init_rejects_unknown", [E(f"{STT}.__init__", lambda n: isinstance(n, ast.For), before("if set(kwargs) - set(self.__ATTRIBUTES__):" + NL + "    raise TypeError('unknown attributes')"))], {"C04": ["C04.5"]})
brk("c04_copy_returns_self_dict", [E(f"{STT}.__copy__", lambda n: isinstance(n, ast.Return), to("return self.__class__(**{k: v for k, v in vars(self).items() if v})"))], {"C04": ["C04.6"]})
brk("c04_deepcopy_shallow", [E(f"{STT}.__deepcopy__", expr_has("deepcopy(", ast.Call), to("value"))], {"C04": ["C04.6"]})
brk("c04_eq_no_class_guard", [E(f"{STT}.__eq__", lambda n: isinstance(n, ast.If), PASS)], {"C04": ["C04.8"]})
brk("c04_eq_subset", [E(f"{STT}.__eq__", expr_has("self.__ATTRIBUTES__.keys()", ast.Call), to("list(self.__ATTRIBUTES__.keys())[:1]"))], {"C04": ["C04.8"]})
brk("c04_not_frozen_for_typecheckers", [E("state.structure.StateMeta", lambda n: isinstance(n, ast.keyword) and n.arg == "frozen_default", to("frozen_default=False"))], {"C04": ["C04.1"]})
ben("c04_tuple_from_list_comp", [E(f"{VALM}._prepare_validator_of_sequence.validator", lambda n: isinstance(n, ast.Call) and U(n).startswith("tuple("), to("tuple([element_validator(element) for element in elements])"))], ["C04", "C05"])
brk("c05_unfix_mapping_items", [], {"C05": ["C05.3"]}, note="reverse of fix 0003")
brk("c05_unfix_get_args_origin", [], {"C05": ["C05.6"]}, note="reverse of fix 0004")
brk("c05_unfix_class_getitem_spread", [], {"C05": ["C05.7"]}, note="reverse of fix 0005")
brk("c05_sequence_filter", [E(f"{VALM}._prepare_validator_of_sequence.validator", lambda n: isinstance(n, ast.GeneratorExp), lambda s: s.rstrip(")") + " if element is not None" + (")" if s.endswith(")") else ""))], {"C05": ["C05.2"]})
brk("c05_sequence_drops_last", [E(f"{VALM}._prepare_validator_of_sequence.validator", lambda n: isinstance(n, ast.GeneratorExp), lambda s: s.replace("in elements", "in elements[:-1]"))], {"C05": ["C05.2"]})
brk("c05_mapping_crossed", [E(f"{VALM}._prepare_validator_of_mapping.validator", lambda n: isinstance(n, ast.DictComp), lambda s: s.replace("key_validator(key): value_validator(value)", "value_validator(key): key_validator(value)"))], {"C05": ["C05.3"]})
brk("c05_tuple_no_arity_guard", [E(f"{VALM}._prepare_validator_of_tuple.validator#2", lambda n: isinstance(n, ast.If), PASS)], {"C05": ["C05.4"]})
brk("c05_tuple_arity_le", [E(f"{VALM}._prepare_validator_of_tuple.validator#2", lambda n: isinstance(n, ast.Compare), sub("!=", ">"))], {"C05": ["C05.4"]})
brk("c05_union_returns_on_failure", [E(f"{VALM}._prepare_validator_of_union.validator", lambda n: isinstance(n, ast.Raise), to("return value"))], {"C05": ["C05.5"]})
brk("c05_store_without_validation", [E(f"{STT}.__init__", expr_has("attribute.validated(", ast.Call), lambda s: "kwargs.get(name, attribute.default)")], {"C05": ["C05.1"]})
brk("c05_defaults_not_validated", [E("state.structure.StateAttribute.validated", lambda n: isinstance(n, ast.Return), to("return self.default if value is MISSING else self.validator(value)"))], {"C05": ["C05.1"]})
brk("c05_type_validator_accepts_all", [E(f"{VALM}._prepare_validator_of_type.type_validator", lambda n: isinstance(n, ast.Raise), to("return value"))], {"C05": ["C05.9"]})
brk("c05_none_validator_fallthrough", [E(f"{VALM}._prepare_validator_of_none.validator", lambda n: isinstance(n, ast.Raise), PASS)], {"C05": ["C05.9"]})
brk("c05_literal_returns_canonical", [E(f"{VALM}._prepare_validator_of_literal.validator", lambda n: isinstance(n, ast.Return), to("return elements[elements.index(value)]"))], {"C05": ["C05.9"]})
brk("c05_validators_entry_missing", [E(f"mod:{VALM}", lambda n: isinstance(n, ast.Dict) and len(n.keys) > 20, lambda s: s.replace("    NoneType: _prepare_validator_of_none,\n", ""))], {"C05": ["C05.8"]})

# =============================================================================================== C08
DSP = "context.disposables.Disposables"
brk("c08_unfix_enter_rollback", [], {"C08": ["C08.5"]}, note="reverse of fix 0008 (needs 0009 reversed first)")
brk("c08_unfix_single_error", [], {"C08": ["C08.4"]}, note="reverse of fix 0009")
brk("c08_exit_skips_first", [E(f"{DSP}.__aexit__", lambda n: isinstance(n, ast.ListComp) and "__aexit__" in U(n), lambda s: s.replace("in self._disposables", "in self._disposables[1:]"))], {"C08": ["C08.1"]})
brk("c08_exit_filtered_on_success", [E(f"{DSP}.__aexit__", lambda n: isinstance(n, ast.ListComp) and "__aexit__" in U(n), lambda s: s[:-1] + " if exc_type is None]")], {"C08": ["C08.1"]})
brk("c08_exit_exc_dropped", [E(f"{DSP}.__aexit__", lambda n: isinstance(n, ast.ListComp) and "__aexit__" in U(n), lambda s: s.replace("exc_val,", "None,", 1))], {"C08": ["C08.2"]})
brk("c08_exit_no_return_exceptions", [E(f"{DSP}.__aexit__", expr_has("gather(", ast.Call), sub("return_exceptions=True", "return_exceptions=False"))], {"C08": ["C08.3"]})
brk("c08_only_exception_collected", [E(f"{DSP}.__aexit__", lambda n: isinstance(n, ast.ListComp) and "isinstance" in U(n), sub("BaseException", "Exception"))], {"C08": ["C08.4"]})
brk("c08_errors_need_two", [E(f"{DSP}.__aexit__", lambda n: isinstance(n, ast.If) and "len(exceptions) == 1" in U(n.test), lambda s: s.replace("len(exceptions) == 1", "len(exceptions) == 1 and exc_type is None", 1))], {"C08": ["C08.4"]})
brk("c08_rollback_all_not_entered", [E(f"{DSP}.__aenter__", lambda n: isinstance(n, ast.ListComp) and "__aexit__" in U(n), sub("if not isinstance(result, BaseException)", "if isinstance(result, BaseException)"))], {"C08": ["C08.5"]})
brk("c08_enter_returns_despite_failure", [E(f"{DSP}.__aenter__", lambda n: isinstance(n, ast.If) and U(n.test) == "exceptions", lambda s: s.replace("if exceptions:", "if len(exceptions) > 1:", 1))], {"C08": ["C08.5"]})
brk("c08_initialize_enters_twice", [E(f"{DSP}._initialize", lambda n: isinstance(n, ast.Match), before("await disposable.__aenter__()"))], {"C08": ["C08.1"]})
brk("c08_single_state_dropped", [E(f"{DSP}._initialize", lambda n: isinstance(n, ast.Return) and "single" in U(n), to("return ()"))], {"C08": ["C08.7"]})
brk("c08_state_not_flattened", [E(f"{DSP}.__aenter__", lambda n: isinstance(n, ast.Return), to("return []"))], {"C08": ["C08.8"]})
brk("c08_scope_exits_disposables_twice", [E(f"{SC}.__aexit__", stmt("await self._disposables.__aexit__"), after("await self._disposables.__aexit__(exc_type=exc_type, exc_val=exc_val, exc_tb=exc_tb)"))], {"C08": ["C08.6"]})

# =============================================================================================== C10
brk("c10_unfix_truthiness", [], {"C10": ["C10.4"]}, note="reverse of fix 0013")
brk("c10_merge_swapped", [E(f"{SM}.record", expr_has("merge(", ast.Call), to("merge(metric, cast(Metric, current))"))], {"C10": ["C10.3"]})
brk("c10_record_narrow_handler", [E("context.metrics.MetricsContext.record", handler("Exception"), sub("except Exception", "except LookupError"))], {"C10": ["C10.1"]})
brk("c10_record_outside_try", [E("context.metrics.MetricsContext.record", lambda n: isinstance(n, ast.Try), before("metric_type = type(metric).__qualname__.upper()[0]"))], {"C10": ["C10.1"]})
brk("c10_record_into_parent_too", [E(f"{SM}.record", lambda n: isinstance(n, ast.If), after("if self._parent is not None:" + NL + "    self._parent.record(metric, merge=merge)"))], {"C10": ["C10.2"]})
brk("c10_nested_reversed", [E(f"{SM}.metrics", expr_has("for nested in self._nested", ast.GeneratorExp), lambda s: s.replace("in self._nested", "in reversed(self._nested)"))], {"C10": ["C10.5"]})
brk("c10_nested_insert_front", [E(f"{SM}.__init__", stmt("parent._nested.append(self)"), to("parent._nested.insert(0, self)"))], {"C10": ["C10.5"], "C09": ["C09.5"]})
brk("c10_metrics_before_tasks", [
    E(f"{SC}.__aexit__", stmt("self._metrics_context.__exit__"), PASS),
    E(f"{SC}.__aexit__", stmt("await self._task_group_context.__aexit__"), before("self._metrics_context.__exit__(exc_type=exc_type, exc_val=exc_val, exc_tb=exc_tb)")),
], {"C10": ["C10.6"]})
brk("c10_handler_reraises", [E("context.metrics.MetricsContext.record", handler("Exception"), lambda s: s + NL + "    raise")], {"C10": ["C10.1"]})
brk("c10_merge_not_forwarded", [E("context.access.ctx.record", expr_has("MetricsContext.record", ast.Call), lambda s: s.replace("merge=merge,", "").replace("merge=merge", ""))], {"C10": ["C10.2"]})

# =============================================================================================== C11 (armed parts)
brk("c11_filter_none_items", [E("context.access.ctx.stream.generator", lambda n: isinstance(n, ast.Expr) and isinstance(n.value, ast.Yield), lambda s: "if result is not None:" + NL + "    " + s)], {"C11": ["C11.3"]})
brk("c11_scope_inside_loop", [E("context.access.ctx.stream.generator", lambda n: isinstance(n, ast.AsyncWith), to("async for result in source(*args, **kwargs):" + NL + "    async with streaming_context:" + NL + "        yield result"))], {"C11": ["C11.4"]})
brk("c11_args_dropped", [E("context.access.ctx.stream.generator", expr("source(*args, **kwargs)"), to("source(*args)"))], {"C11": ["C11.3"]})
brk("c11_swallow_source_error", [E("context.access.ctx.stream.generator", lambda n: isinstance(n, ast.AsyncFor), lambda s: "try:" + NL + "    " + s.replace("\n", "\n    ") + NL + "except Exception:" + NL + "    return")], {"C11": ["C11.3"]})
brk("c11_scope_built_lazily", [
    E("context.access.ctx.stream", lambda n: isinstance(n, ast.AnnAssign) and "streaming_context" in U(n.target), PASS),
    E("context.access.ctx.stream.generator", lambda n: isinstance(n, ast.AsyncWith), sub("async with streaming_context:", "async with ctx.scope(getattr(source, '__name__', 'streaming')):")),
], {"C11": ["C11.5"]})

# =============================================================================================== C14
for kind, fq in (("sync", "helpers.retries._wrap_sync.wrapped"), ("async", "helpers.retries._wrap_async.wrapped")):
    brk(f"c14_guard_le_{kind}", [E(fq, lambda n: isinstance(n, ast.Compare) and "limit" in U(n), sub("<", "<="))], {"C14": ["C14.1"]})
    brk(f"c14_no_increment_{kind}", [E(fq, stmt("attempt += 1"), PASS)], {"C14": ["C14.1"]})
    brk(f"c14_double_increment_{kind}", [E(fq, stmt("attempt += 1"), after("attempt += 1"))], {"C14": ["C14.1"]})
    brk(f"c14_init_one_{kind}", [E(fq, lambda n: isinstance(n, ast.AnnAssign) and U(n.target) == "attempt", sub("= 0", "= 1"))], {"C14": ["C14.1"]})
    brk(f"c14_wrap_exception_{kind}", [E(fq, lambda n: isinstance(n, ast.Raise) and U(n) == "raise exc", to("raise RuntimeError('retries exhausted') from exc"), nth=-1)], {"C14": ["C14.2"]})
    brk(f"c14_retry_base_exception_{kind}", [E(fq, handler("Exception"), sub("except Exception", "except BaseException"))], {"C14": ["C14.3"]})
    brk(f"c14_match_ignored_{kind}", [E(fq, lambda n: isinstance(n, ast.BoolOp) and "limit" in U(n), lambda s: s.split(" and ")[0])], {"C14": ["C14.4"]})
    brk(f"c14_double_sleep_{kind}", [E(fq, stmt("await sleep(strict)" if kind == "async" else "sleep_sync(strict)"), after("await sleep(strict)" if kind == "async" else "sleep_sync(strict)"))], {"C14": ["C14.6"]})
    brk(f"c14_delay_args_swapped_{kind}", [E(fq, expr("make_delay(attempt, exc)"), to("make_delay(exc, attempt)"))], {"C14": ["C14.7"]})
    brk(f"c14_delay_before_increment_{kind}", [
        E(fq, stmt("attempt += 1"), PASS),
        E(fq, lambda n: isinstance(n, ast.Match), after("attempt += 1")),
    ], {"C14": []}, note="counter advanced after the delay function saw it (and `continue` in the None arm skips it)")
    ben(f"c14_float_or_int_order_{kind}", [E(fq, lambda n: isinstance(n, ast.MatchOr), to("float() | int()"))], ["C14"])
brk("c14_unfix_int_delay", [], {"C14": ["C14.5"]}, note="reverse of fix 0016")
brk("c14_single_class_not_normalised", [E("helpers.retries.retry._wrap", lambda n: isinstance(n, ast.IfExp), to("catching"))], {"C14": ["C14.4"]})

# =============================================================================================== C15
TH = "helpers.throttling._AsyncThrottle.__call__"
brk("c15_unfix_wait", [], {"C15": ["C15.3"]}, note="reverse of fix 0017")
brk("c15_call_under_lock", [E(TH, lambda n: isinstance(n, ast.Return), PASS), E(TH, stmt("self._entries.append"), after("return await self._function(*args, **kwargs)"))], {"C15": ["C15.2"]})
brk("c15_stale_stamp", [E(TH, stmt("self._entries.append"), to("self._entries.append(time_now)"))], {"C15": ["C15.4"]})
brk("c15_stamp_before_wait", [E(TH, stmt("self._entries.append"), PASS), E(TH, lambda n: isinstance(n, ast.If) and "len(self._entries)" in U(n.test), before("self._entries.append(monotonic())"))], {"C15": ["C15.4"]})
brk("c15_full_needs_more", [E(TH, lambda n: isinstance(n, ast.Compare) and "len(self._entries)" in U(n), sub(">=", ">"))], {"C15": ["C15.3"]})
brk("c15_purge_sign", [E(TH, lambda n: isinstance(n, ast.Compare) and "self._period" in U(n) and "len(" not in U(n), sub("<=", ">="))], {"C15": ["C15.5"]})
brk("c15_purge_without_period", [E(TH, lambda n: isinstance(n, ast.Compare) and "self._period" in U(n) and "len(" not in U(n), sub(" + self._period", ""))], {"C15": ["C15.5"]})
brk("c15_no_lock", [E(TH, lambda n: isinstance(n, ast.AsyncWith), lambda s: s.replace("async with self._lock:", "if True:", 1))], {"C15": ["C15.1"]})
brk("c15_timedelta_seconds_attr", [E("helpers.throttling._AsyncThrottle.__init__", expr("delta.total_seconds()"), to("float(delta.seconds)"))], {"C15": ["C15.5"]})
brk("c15_wait_outside_lock", [
    E(TH, lambda n: isinstance(n, ast.If) and "len(self._entries)" in U(n.test), PASS),
    E(TH, lambda n: isinstance(n, ast.Return), before("if len(self._entries) > self._limit:" + NL + "    await sleep(self._entries[0] + self._period - monotonic())")),
], {"C15": ["C15.1"]})
ben("c15_now_local_renamed", [E(TH, lambda n: isinstance(n, ast.AsyncFunctionDef), lambda s: s.replace("time_now", "now"))], ["C15"])

# =============================================================================================== C18
brk("c18_unfix_method_context", [], {"C18": ["C18.2"]}, note="reverse of fix 0020")
brk("c18_kwargs_dropped_executor", [E("helpers.asynchrony._ExecutorWrapper.__call__", expr_has("partial(", ast.Call), lambda s: s.replace(", **kwargs", ""))], {"C18": ["C18.1"]})
brk("c18_stored_context", [E("helpers.asynchrony._ExecutorWrapper.__call__", stmt("context: Context"), to("context: Context = _CONTEXT_AT_IMPORT"))], {"C18": ["C18.2"]})
brk("c18_called_on_loop_thread", [E("helpers.asynchrony._ExecutorWrapper.__call__", lambda n: isinstance(n, ast.Return), to("return self._function(*args, **kwargs)"))], {"C18": ["C18.1"]})
brk("c18_traced_swallows_exception", [E("helpers.tracing._traced_sync.traced", lambda n: isinstance(n, ast.Raise), to("return None"))], {"C18": ["C18.3"], "C07": []})
brk("c18_traced_result_not_recorded", [E("helpers.tracing._traced_async.traced", stmt("ctx.record(ResultTrace.of(result))"), PASS)], {"C18": ["C18.4"]})
brk("c18_traced_args_after_call", [
    E("helpers.tracing._traced_sync.traced", stmt("ctx.record(ArgumentsTrace.of("), PASS),
    E("helpers.tracing._traced_sync.traced", stmt("ctx.record(ResultTrace.of(result))"), after("ctx.record(ArgumentsTrace.of(*args, **kwargs))")),
], {"C18": ["C18.4"]})
brk("c18_traced_wrong_label", [E("helpers.tracing.traced", expr_has("_traced_sync(", ast.Call), sub("function.__name__", "'traced'"))], {"C18": ["C18.4"]})
brk("c18_retry_wrapper_not_mimicked", [E("helpers.retries._wrap_sync", lambda n: isinstance(n, ast.Call) and U(n) == "mimic_function(function)", to("(lambda f: f)"))], {"C18": ["C18.5"]}, note="decorator replaced by identity")
brk("c18_throttle_not_mimicked", [E("helpers.throttling._AsyncThrottle.__init__", stmt("mimic_function(function, within=self)"), PASS)], {"C18": ["C18.5"]})
brk("c18_mimic_drops_doc", [E("utils.mimic.mimic_function.mimic", lambda n: isinstance(n, ast.Tuple) and "__doc__" in U(n), lambda s: s.replace('"__doc__",', ""))], {"C18": ["C18.6"]})
brk("c18_mimic_async_no_wrapped", [E("helpers.asynchrony._mimic_async", lambda n: isinstance(n, ast.Expr) and "__wrapped__" in U(n), PASS)], {"C18": ["C18.6"]})
brk("c18_wrap_async_args", [E("helpers.asynchrony.wrap_async.async_function", lambda n: isinstance(n, ast.Return), lambda s: s.replace("(*args, **kwargs)", "(*args)"))], {"C18": ["C18.1"]})

# =============================================================================================== C19
MCX = "context.metrics.MetricsContext"
brk("c19_unfix_trace_inheritance", [], {"C19": ["C19.4"]}, note="reverse of fix 0014")
brk("c19_unfix_percent_prefix", [], {"C19": ["C19.6"]}, note="reverse of fix 0015")
brk("c19_warning_as_info", [E(f"{MCX}.log_warning", expr_has("cls._context.get().log(", ast.Call), sub("WARNING", "INFO"))], {"C19": ["C19.1"]})
brk("c19_debug_root_level", [E(f"{MCX}.log_debug", expr_has("getLogger().log(", ast.Call), sub("DEBUG", "INFO"))], {"C19": ["C19.1"]})
brk("c19_exception_dropped", [E(f"{MCX}.log_error", expr_has("cls._context.get().log(", ast.Call), lambda s: s.replace("exception=exception,", "").replace("exception=exception", ""))], {"C19": ["C19.1"]})
brk("c19_root_logger_named", [E(f"{MCX}.log_info", expr_has("getLogger().log(", ast.Call), sub("getLogger()", "getLogger('haiway')"))], {"C19": ["C19.2"]})
brk("c19_fallback_on_any_error", [E(f"{MCX}.log_info", handler("LookupError"), sub("except LookupError", "except Exception"))], {"C19": ["C19.2"]})
brk("c19_nested_logger_not_inherited", [E(f"{MCX}.scope", expr_has("logger=logger or current._logger", ast.Call), sub("logger=logger or current._logger", "logger=logger"))], {"C19": ["C19.3"]})
brk("c19_given_logger_ignored", [E(f"{SM}.__init__", lambda n: isinstance(n, ast.BoolOp) and "getLogger" in U(n), to("getLogger(name=scope)"))], {"C19": ["C19.3"]})
brk("c19_parent_trace_wins", [E(f"{MCX}.scope", expr_has("trace_id or current.trace_id", ast.BoolOp), to("current.trace_id or trace_id"))], {"C19": ["C19.4"]})
brk("c19_identifier_reused", [E(f"{SM}.__init__", lambda n: isinstance(n, ast.AnnAssign) and "self.identifier" in U(n.target), sub("uuid4().hex", "self.trace_id"))], {"C19": ["C19.4"]})
brk("c19_prefix_without_identifier", [E(f"{SM}.__init__", lambda n: isinstance(n, ast.IfExp) and "_logger_prefix" not in U(n) and "identifier" in U(n), lambda s: s.replace(" [{self.identifier}]", ""))], {"C19": ["C19.5"]})
brk("c19_args_not_forwarded", [E(f"{SM}.log", expr_has("self._logger.log(", ast.Call), lambda s: s.replace("*args,", ""))], {"C19": ["C19.5"]})
brk("c19_escape_only_without_args", [E(f"{SM}.log", lambda n: isinstance(n, ast.IfExp), sub("if args else", "if not args else"))], {"C19": ["C19.6"]})
ben("c19_prefix_as_argument", [E(f"{SM}.log", lambda n: isinstance(n, ast.IfExp), lambda s: s)], ["C19"])

# ----------------------------------------------------------------------------------------------- patch-reversal variants
REVERSALS = {
    "c02_unfix_cleanup_sequencing": "0022,0006",
    "c06_unfix_cleanup_failure_reported": "0022",
    "c18_unfix_traced_cls": "0021",
    "c18_unfix_mimic_clobber": "0023",
    "c18_unfix_self_keyword": "0026,0025",
    "c18_unfix_class_access": "0026",
    "c05_unfix_alias_arguments": "0024",
    "c02_unfix_enter_rollback": "0007",
    "c07_unfix_swallow": "0010",
    "c07_unfix_cancelled": "0011",
    "c09_unfix_completed_parent": "0012",
    "c16_unfix_on_completion": "0018",
    "c17_unfix_lost_handoff": "0019",
    "c20_unfix_reduce": "0001",
    "c01_unfix_cached_default": "0002",
    "c05_unfix_mapping_items": "0003",
    "c05_unfix_get_args_origin": "0004",
    "c05_unfix_class_getitem_spread": "0005",
    "c08_unfix_enter_rollback": "0009,0008",
    "c08_unfix_single_error": "0009",
    "c10_unfix_truthiness": "0013",
    "c19_unfix_trace_inheritance": "0014",
    "c19_unfix_percent_prefix": "0015",
    "c14_unfix_int_delay": "0016",
    "c15_unfix_wait": "0017",
    "c18_unfix_method_context": "0020",
}
WHOLE_FILE = {"c17_reformat": "utils/queue.py"}

VARIANTS = V

# =============================================================================================== sweep-triage additions (round 2)
SMx = "context.metrics.ScopeMetrics"
brk("c09_is_completed_ignores_own_future", [E(f"{SMx}.is_completed", lambda n: isinstance(n, ast.Return), to("return all(nested.is_completed for nested in self._nested)"))], {"C09": ["C09.11"]}, note="a leaf scope reports completed before it was left")
ben("c09_is_completed_own_future_only", [E(f"{SMx}.is_completed", lambda n: isinstance(n, ast.Return), to("return self._completed.done()"))], ["C09"], note="own future resolves only after all nested completed")
for _c in ("_SyncCache", "_AsyncCache"):
    brk(f"c12_get_negated_{_c}", [E(f"helpers.caching.{_c}.__get__", lambda n: isinstance(n, ast.If), lambda s: s.replace("if owner is None or instance is None:", "if not (owner is None or instance is None):"))], {"C12": ["C12.1"]})
    brk(f"c12_miss_returns_none_{_c}", [E(f"helpers.caching.{_c}.__call__", lambda n: isinstance(n, ast.Return), to("return None"), nth=-1)], {"C12": ["C12.2"]})
brk("c18_traced_not_in_debug", [E("helpers.tracing.traced", lambda n: isinstance(n, ast.If) and U(n.test) == "__debug__", lambda s: s.replace("if __debug__:", "if not __debug__:", 1))], {"C18": ["C18.4"]})
brk("c18_traced_dispatch_negated", [E("helpers.tracing.traced", lambda n: isinstance(n, ast.If) and "iscoroutinefunction" in U(n.test), lambda s: s.replace("if iscoroutinefunction(function):", "if not iscoroutinefunction(function):", 1))], {"C18": ["C18.4"]})
brk("c18_retry_dispatch_negated", [E("helpers.retries.retry", lambda n: isinstance(n, ast.If) and "iscoroutinefunction" in U(n.test), lambda s: s.replace("if iscoroutinefunction(function):", "if not iscoroutinefunction(function):", 1))], {"C18": ["C18.5"]})
brk("c18_cache_dispatch_negated", [E("helpers.caching.cache", lambda n: isinstance(n, ast.If) and "iscoroutinefunction" in U(n.test), lambda s: s.replace("if iscoroutinefunction(function):", "if not iscoroutinefunction(function):", 1))], {"C18": ["C18.5"]})
brk("c18_arguments_trace_drops_kwargs", [E("helpers.tracing.ArgumentsTrace", lambda n: isinstance(n, ast.Return) and "kwargs=" in U(n), lambda s: s.replace("kwargs=kwargs if kwargs else MISSING", "kwargs=MISSING"))], {"C18": ["C18.4"]})
brk("c18_result_trace_none", [E("helpers.tracing.ResultTrace", lambda n: isinstance(n, ast.Return) and "result=" in U(n), to("return None"))], {"C18": ["C18.4"]})
brk("c06_unfix_cleanup_failure_reported", [], {"C06": ["C06.8"], "C07": ["C07.8"]}, note="reverse of fix 0022")
brk("c18_unfix_traced_cls", [], {"C18": ["C18.1"]}, note="reverse of fix 0021")
brk("c18_unfix_mimic_clobber", [], {"C18": ["C18.7"]}, note="reverse of fix 0023")
brk("c05_unfix_alias_arguments", [], {"C05": ["C05.13"]}, note="reverse of fix 0024")
brk("c18_unfix_self_keyword", [], {"C18": ["C18.1"]}, note="reverse of fixes 0026, 0025")
brk("c18_unfix_class_access", [], {"C18": ["C18.1"]}, note="reverse of fix 0026")

# =============================================================================================== sweep-triage additions (v2)
AS = "helpers.asynchrony"
brk("c18_wrap_async_dispatch_negated", [E(f"{AS}.wrap_async", lambda n: isinstance(n, ast.If), lambda s: s.replace("if iscoroutinefunction(function):", "if not iscoroutinefunction(function):", 1))], {"C18": ["C18.2"]})
brk("c18_asynchronous_assert_inverted", [E(f"{AS}.asynchronous.wrap", lambda n: isinstance(n, ast.Assert), lambda s: s.replace("assert not iscoroutinefunction(wrapped)", "assert iscoroutinefunction(wrapped)"))], {"C18": ["C18.2"]})
brk("c18_executor_default_flipped", [E(f"{AS}.asynchronous.wrap", lambda n: isinstance(n, ast.IfExp), lambda s: s.replace("executor is MISSING", "executor is not MISSING"))], {"C18": ["C18.2"]})
brk("c18_loop_and_instead_of_or", [E(f"{AS}._ExecutorWrapper.__call__", lambda n: isinstance(n, ast.BoolOp), lambda s: s.replace(" or ", " and "))], {"C18": ["C18.2"]})
brk("c18_configured_loop_ignored", [E(f"{AS}._ExecutorWrapper.__method_call__", lambda n: isinstance(n, ast.BoolOp), to("get_running_loop()"))], {"C18": ["C18.2"]})
brk("c10_unmerged_view_none", [E("context.metrics.ScopeMetrics.metrics", lambda n: isinstance(n, ast.Return), to("return None"), nth=0)], {"C10": ["C10.5"]})
STS = "state.structure.State"
brk("c05_cgi_cache_negated", [E(f"{STS}.__class_getitem__", lambda n: isinstance(n, ast.If) and "_types_cache" in U(n.test), lambda s: s.replace("if cached := _types_cache.get((cls, type_arguments)):", "if not (cached := _types_cache.get((cls, type_arguments))):", 1))], {"C05": ["C05.14"]})
brk("c05_cgi_type_parameters_dropped", [E(f"{STS}.__class_getitem__", lambda n: isinstance(n, ast.Call) and "StateMeta.__new__" in U(n.func), lambda s: s.replace("type_parameters=type_parameters,", ""))], {"C05": ["C05.14"]})
brk("c05_cgi_returns_none", [E(f"{STS}.__class_getitem__", lambda n: isinstance(n, ast.Return), to("return None"), nth=-1)], {"C05": ["C05.14"]})
brk("c05_meta_type_parameters_dropped", [E("state.structure.StateMeta.__new__", lambda n: isinstance(n, ast.Call) and U(n.func) == "attribute_annotations", lambda s: s.replace("type_parameters=type_parameters,", ""))], {"C05": ["C05.14"]})
brk("c05_mapping_factory_returns_none", [E("state.validation._prepare_validator_of_mapping", lambda n: isinstance(n, ast.Return) and U(n) == "return validator", to("return None"))], {"C05": ["C05.15"]})

# =============================================================================================== round 4 additions
brk("c04_replace_filters_kwargs", [E(f"{STS}.__replace__", lambda n: isinstance(n, ast.Return), to("return self.__class__(**{**vars(self), **{k: v for k, v in kwargs.items() if v is not None}})"))], {"C04": ["C04.4"]})
brk("c04_default_bypasses_validator", [E("state.structure.StateAttribute.validated", lambda n: isinstance(n, ast.Return), to("return self.default if value is MISSING and self.default is not MISSING else self.validator(value)"))], {"C04": ["C04.9"], "C05": ["C05.1"]})
ben("c05_validated_split_on_default", [E("state.structure.StateAttribute.validated", lambda n: isinstance(n, ast.Return), to("if value is MISSING and self.default is not MISSING:" + NL + "    return self.validator(self.default)" + NL + "return self.validator(value)"))], ["C04", "C05"], note="value is MISSING and no default: validator(value) == validator(default)")
brk("c05_default_from_namespace", [E("state.structure.StateMeta.__new__", expr("getattr(state_type, key, MISSING)"), to("namespace.get(key, MISSING)"))], {"C05": ["C05.16"]})
brk("c05_default_fallback_none", [E("state.structure.StateMeta.__new__", expr("getattr(state_type, key, MISSING)"), to("getattr(state_type, key, None)"))], {"C05": ["C05.16"]})
ben("c05_default_try_getattr", [E("state.structure.StateMeta.__new__", lambda n: isinstance(n, ast.Assign) and "StateAttribute(" in U(n), lambda s: "try:" + NL + "    default = getattr(state_type, key)" + NL + "except AttributeError:" + NL + "    default = MISSING" + NL + s.replace("getattr(state_type, key, MISSING)", "default"))], ["C05", "C04"])
brk("c07_futures_cancelled_error", [E("mod:context.tasks", lambda n: isinstance(n, ast.ImportFrom) and n.module == "asyncio", lambda s: s.replace("CancelledError, ", "") + NL + "from concurrent.futures import CancelledError")], {"C07": ["C07.1"]})
ben("c07_cancelled_error_alias", [E("mod:context.tasks", lambda n: isinstance(n, ast.ImportFrom) and n.module == "asyncio", lambda s: s.replace("CancelledError, ", "") + NL + "from asyncio.exceptions import CancelledError")], ["C07", "C06", "C02"])
brk("c08_scope_dedupes_disposables", [E("context.access.ctx.scope", expr("Disposables(*iterable)"), to("Disposables(*set(iterable))"))], {"C08": ["C08.9"]})
brk("c08_init_filters_disposables", [E("context.disposables.Disposables.__init__", lambda n: isinstance(n, ast.AnnAssign), lambda s: s.replace("= disposables", "= tuple(d for d in disposables if d is not None)"))], {"C08": ["C08.9"]})
ben("c08_scope_tuple_copy", [E("context.access.ctx.scope", expr("Disposables(*iterable)"), to("Disposables(*tuple(iterable))"))], ["C08", "C01"])
for _c in ("_SyncCache", "_AsyncCache"):
    brk(f"c12_key_rebound_{_c}", [E(f"helpers.caching.{_c}.__call__", lambda n: isinstance(n, ast.Match), before("if not kwargs:" + NL + "    key = args"))], {"C12": ["C12.1"]})
for kind, fq in (("sync", "helpers.retries._wrap_sync.wrapped"), ("async", "helpers.retries._wrap_async.wrapped")):
    brk(f"c14_attempt_numbers_from_two_{kind}", [E(fq, lambda n: isinstance(n, ast.AnnAssign) and U(n.target) == "attempt", sub("= 0", "= 1")), E(fq, lambda n: isinstance(n, ast.Compare) and "limit" in U(n), sub("<", "<="))], {"C14": ["C14.7"]})

# =============================================================================================== round 5 additions
brk("c01_missing_state_is_lookup_error", [E("mod:context.types", lambda n: isinstance(n, ast.ClassDef) and n.name == "MissingState", sub("(Exception)", "(LookupError)"))], {"C01": ["C01.6"]})
ben("c01_missing_context_is_lookup_error", [E("mod:context.types", lambda n: isinstance(n, ast.ClassDef) and n.name == "MissingContext", sub("(Exception)", "(LookupError)"))], ["C01", "C02"], note="only MissingState crossing the LookupError handler matters")
ben("c01_sentinel_lookup", [E("mod:context.state", lambda n: isinstance(n, ast.Assign) and U(n).startswith("__all__"), after("_ABSENT = object()")), E("context.state.ScopeState.state", lambda n: isinstance(n, ast.If) and "in self._state" in U(n.test), lambda s: "found = self._state.get(state, _ABSENT)" + NL + s.replace("if state in self._state:", "if found is not _ABSENT:", 1).replace("return cast(StateType, self._state[state])", "return cast(StateType, found)", 1))], ["C01"])
brk("c02_parent_notified_unguarded", [E(f"{SMx}._complete_if_able", lambda n: isinstance(n, ast.If) and "parent" in U(n.test), lambda s: s.replace(" and (not parent._completed.done())", "").replace(" and not parent._completed.done()", ""))], {"C02": ["C02.9"], "C09": ["C09.6"]})
for _c in ("_SyncCache", "_AsyncCache"):
    brk(f"c12_deadline_computed_once_{_c}", [E(f"helpers.caching.{_c}.__init__", lambda n: isinstance(n, ast.FunctionDef) and n.name == "next_expire_time" and "monotonic" in U(n), lambda s: "fixed_deadline = monotonic() + expiration" + NL + s.replace("return monotonic() + expiration", "return fixed_deadline"))], {"C12": ["C12.5"]} if _c == "_SyncCache" else {"C12": ["C12.5"], "C13": ["C13.6"]})
brk("c14_log_renders_eagerly", [E(f"{SMx}.log", lambda n: isinstance(n, ast.Expr) and "self._logger.log" in U(n), lambda s: s.replace("*args,", "").replace("{message}", "{message % args if args else message}"))], {"C14": ["C14.8"], "C19": ["C19.5"], "C10": ["C10.1"]})
brk("c15_throttle_skips_non_coroutine_functions", [E("helpers.throttling.throttle._wrap", lambda n: isinstance(n, ast.Return), before("if not iscoroutinefunction(function):" + NL + "    return function"))], {"C15": ["C15.5"]})
brk("c16_timeout_skips_non_coroutine_functions", [E("helpers.timeouted.timeout._wrap", lambda n: isinstance(n, ast.Return), before("if not callable(function):" + NL + "    return function"))], {"C16": ["C16.1"]})
brk("c16_waits_for_the_task_after_timeout", [E("helpers.timeouted._AsyncTimeout.__call__", lambda n: isinstance(n, ast.Return) and "await" in U(n), lambda s: "try:" + NL + "    " + s + NL + "except TimeoutError:" + NL + "    await task" + NL + "    raise")], {"C16": ["C16.6"]})
brk("c18_get_tests_truthiness_of_instance", [E("helpers.asynchrony._ExecutorWrapper.__get__", lambda n: isinstance(n, ast.If), lambda s: s.replace("if owner is None or instance is None:", "if not (owner and instance):", 1))], {"C18": ["C18.1"]})
for _c in ("_SyncCache", "_AsyncCache"):
    brk(f"c12_get_tests_truthiness_of_instance_{_c}", [E(f"helpers.caching.{_c}.__get__", lambda n: isinstance(n, ast.If), lambda s: s.replace("if owner is None or instance is None:", "if not (owner and instance):", 1))], {"C12": ["C12.1"]})
brk("c19_detached_task_in_empty_context", [E("context.tasks.TaskGroupContext.run", lambda n: isinstance(n, ast.Call) and "get_event_loop" in U(n) and "create_task" in U(n.func), lambda s: s.replace("context=copy_context()", "context=None"))], {"C19": ["C19.7"], "C03": ["C03.3"], "C10": ["C10.8"]})
brk("c19_trial_rendering", [E(f"{SMx}.log", lambda n: isinstance(n, ast.Expr) and "self._logger.log" in U(n), before("if args:" + NL + "    try:" + NL + "        message % args" + NL + "    except (TypeError, ValueError):" + NL + "        return"))], {"C19": ["C19.5"]})
ben("c06_optional_group_argument", [E("context.tasks.TaskGroupContext.__init__", lambda n: isinstance(n, ast.FunctionDef), lambda s: s.replace("def __init__(\n        self,\n    )", "def __init__(\n        self,\n        group: TaskGroup | None = None,\n    )").replace("self._group: TaskGroup = TaskGroup()", "self._group: TaskGroup = group if group is not None else TaskGroup()"))], ["C06", "C07", "C02"])
ben("c17_assert_restates_registration", [E("utils.queue.AsyncQueue.__anext__", stmt("self._waiting = None"), before("assert self._waiting is waiting"))], ["C17"])

# =============================================================================================== rounds 6-7 and sweep v3 additions
brk("c15_purge_boundary_strict", [E("helpers.throttling._AsyncThrottle.__call__", lambda n: isinstance(n, ast.Compare) and "self._period" in U(n) and "time_now" in U(n), sub("<=", "<"))], {"C15": ["C15.5"]})
brk("c05_specialisation_not_cached", [E(f"{STS}.__class_getitem__", stmt_has("_types_cache["), PASS)], {"C05": ["C05.14"], "C04": ["C04.11"]})
brk("c05_union_alternatives_sorted", [E("state.validation._prepare_validator_of_union", lambda n: isinstance(n, ast.ListComp) and "attribute_validator" in U(n), lambda s: s.replace("in annotation.arguments", "in sorted(annotation.arguments, key=str)"))], {"C05": ["C05.5"], "C04": ["C04.10"]})
brk("c05_literal_by_identity", [E("state.validation._prepare_validator_of_literal.validator", lambda n: isinstance(n, ast.Compare), to("any(value is element for element in elements)"))], {"C05": ["C05.9"]})
for _c in ("__call__", "__method_call__"):
    brk(f"c13_move_to_end_after_wait_{_c}", [E(f"helpers.caching._AsyncCache.{_c}", stmt("self._cached.move_to_end(key)"), PASS), E(f"helpers.caching._AsyncCache.{_c}", lambda n: isinstance(n, ast.Return) and "entry[0]" in U(n), lambda s: "result = await shield(entry[0])" + NL + "self._cached.move_to_end(key)" + NL + "return result")], {"C13": ["C13.8"]})
    brk(f"c13_failed_entry_dropped_by_key_{_c}", [E(f"helpers.caching._AsyncCache.{_c}", lambda n: isinstance(n, ast.Return) and U(n) == "return await shield(task)", lambda s: "try:" + NL + "    " + s + NL + "except Exception:" + NL + "    del self._cached[key]" + NL + "    raise")], {"C13": ["C13.7"], "C12": ["C12.4"]})
brk("c11_stream_scope_carries_state", [E("context.access.ctx.stream", lambda n: isinstance(n, ast.Call) and U(n.func) == "ctx.scope", lambda s: s.rstrip()[:-1].rstrip().rstrip(",") + ", *args)")], {"C11": ["C11.5"]})
brk("c16_loop_remembered_on_wrapper", [E("helpers.timeouted._AsyncTimeout.__call__", stmt("loop: AbstractEventLoop = get_running_loop()"), to("loop: AbstractEventLoop = getattr(self, '_loop_', None) or get_running_loop()" + NL + "self._loop_ = loop"))], {"C16": ["C16.6"]}, note="(assignment to a frozen-free wrapper attribute: compiles, and the first call fixes the loop)")
for kind, fq in (("sync", "helpers.tracing._traced_sync.traced"), ("async", "helpers.tracing._traced_async.traced")):
    brk(f"c18_failure_recorded_outside_scope_{kind}", [E(fq, lambda n: isinstance(n, (ast.With, ast.AsyncWith)), lambda s: "try:" + NL + "    " + s.replace("\n", "\n    ").replace("except BaseException as exc:", "except ZeroDivisionError as exc:") + NL + "except BaseException as exc:" + NL + "    ctx.record(ResultTrace.of(exc))" + NL + "    raise exc")], {"C18": ["C18.4"]})
brk("c01_lookup_tests_truthiness", [E("context.state.ScopeState.state", lambda n: isinstance(n, ast.If) and "in self._state" in U(n.test), lambda s: s.replace("if state in self._state:", "if self._state.get(state):", 1))], {"C01": ["C01.2"], "C03": ["C03.9"]})
for _c in ("__call__", "__method_call__"):
    brk(f"c12_hit_tests_cached_value_{_c}", [E(f"helpers.caching._SyncCache.{_c}", lambda n: isinstance(n, ast.Return) and U(n) == "return entry[0]", to("if entry[0] is not None:" + NL + "    return entry[0]"))], {"C12": ["C12.3"]})
brk("c19_prefix_escaped_once", [E(f"{SMx}.log", lambda n: isinstance(n, ast.IfExp), to("self._logger_prefix.replace('%', '%%')"))], {"C19": ["C19.6"]})
ben("c08_early_exit_without_disposables", [E("context.disposables.Disposables.__aexit__", lambda n: isinstance(n, ast.AnnAssign) and "gather" in U(n), before("if not self._disposables:" + NL + "    return"))], ["C08", "C01", "C02"])
ben("c10_record_handler_reraises_non_exception", [E("context.metrics.MetricsContext.record", handler("Exception"), lambda s: s.replace("except Exception as exc:", "except BaseException as exc:" + "\n" + " " * 12 + "if not isinstance(exc, Exception):" + "\n" + " " * 16 + "raise", 1))], ["C10", "C14"])
ben("c06_reraise_only_wrapper", [E("context.tasks.TaskGroupContext.__aenter__", stmt("await self._group.__aenter__()"), lambda s: "try:" + NL + "    " + s + NL + "except BaseException:" + NL + "    raise")], ["C06", "C07", "C02"])

# =============================================================================================== round 8 additions
_INIT_IF = "provided = await disposable.__aenter__()" + NL + "if {test}:" + NL + "    return ()" + NL + "if isinstance(provided, State):" + NL + "    return (provided,)" + NL + "return provided"
brk("c01_falsy_state_from_disposable_dropped", [E(f"{DSP}._initialize", lambda n: isinstance(n, ast.Match), to(_INIT_IF.format(test="not provided")))], {"C01": ["C01.12"], "C08": ["C08.7"]})
ben("c08_initialize_if_chain", [E(f"{DSP}._initialize", lambda n: isinstance(n, ast.Match), to(_INIT_IF.format(test="provided is None")))], ["C01", "C08"])
_ALIAS_HELPER = (
    "def _alias_type_parameters(alias, /, arguments, type_parameters):" + NL + "    parameters = dict(type_parameters)" + NL + "    for parameter, argument in zip(alias.__type_params__, arguments, strict=False):" + NL
    + "        if isinstance(argument, TypeVar):" + NL + "            argument = type_parameters.get(argument.__name__, argument.__bound__ or Any)" + NL + "        {store}" + NL + "    return parameters" + NL + NL
)
_ALIAS_CALL = lambda n: isinstance(n, ast.Dict) and "alias.__type_params__" in U(n) and "**type_parameters" in U(n)  # noqa: E731
_RES_DEF = lambda n: isinstance(n, ast.FunctionDef) and n.name == "_resolve_attribute_annotation"  # noqa: E731
brk("c05_alias_bindings_added_with_setdefault", [E("mod:state.attributes", _RES_DEF, before(_ALIAS_HELPER.format(store="parameters.setdefault(parameter.__name__, argument)"))), E("state.attributes._resolve_attribute_annotation", _ALIAS_CALL, to("_alias_type_parameters(alias, arguments=get_args(generic_alias), type_parameters=type_parameters)"))], {"C05": ["C05.13"]})
ben("c05_alias_bindings_stored_by_helper", [E("mod:state.attributes", _RES_DEF, before(_ALIAS_HELPER.format(store="parameters[parameter.__name__] = argument"))), E("state.attributes._resolve_attribute_annotation", _ALIAS_CALL, to("_alias_type_parameters(alias, arguments=get_args(generic_alias), type_parameters=type_parameters)"))], ["C05", "C04"])
for _c in ("_SyncCache", "_AsyncCache"):
    brk(f"c12_store_per_receiver_{_c}", [
        E(f"helpers.caching.{_c}.__init__", stmt("self._limit"), after("self._bound: dict[int, OrderedDict[Hashable, Any]] = {}")),
        E(f"helpers.caching.{_c}.__method_call__", lambda n: isinstance(n, ast.Assign) and "_CacheEntry(" in U(n) and "self._cached[key]" in U(n), lambda s: s.replace("self._cached[key]", "self._bound.setdefault(id(__method_self), OrderedDict())[key]", 1)),
    ], {"C12": ["C12.7"]} if _c == "_SyncCache" else {"C12": ["C12.7"], "C13": ["C13.5"]})
brk("c19_inheritance_through_live_parent_only", [
    E(f"{SMx}.__init__", stmt("self.trace_id"), to("self._parent: Self | None = parent if parent and not parent._completed.done() else None" + NL + "self.trace_id: str = trace_id or (self._parent.trace_id if self._parent else uuid4().hex)")),
    E(f"{SMx}.__init__", stmt("self._logger:"), to("self._logger: Logger = logger or (self._parent._logger if self._parent else getLogger(name=scope))")),
    E(f"{SMx}.__init__", stmt("self._parent: Self | None = parent if parent else None"), PASS, nth=-1),
    E("context.metrics.MetricsContext.scope", lambda n: isinstance(n, ast.Return) and "current.trace_id" in U(n), lambda s: s.replace("trace_id or current.trace_id", "trace_id").replace("logger or current._logger", "logger")),
], {"C19": ["C19.3", "C19.4"]})
_CONST_FACTORY = (
    "def _prepare_validator_of_constant(constant, /):" + NL + "    def prepare_validator(annotation, /):" + NL + "        def validator(value):" + NL + "            if value {op} constant:" + NL + "                return value" + NL
    + "            else:" + NL + "                raise TypeError('not matching')" + NL + "        return validator" + NL + "    return prepare_validator" + NL + NL
)
_VAL_TABLE = lambda n: isinstance(n, ast.AnnAssign) and U(n.target) == "VALIDATORS"  # noqa: E731
brk("c20_missing_validator_made_by_equality_factory", [E("mod:state.validation", _VAL_TABLE, lambda s: _CONST_FACTORY.format(op="==").replace(NL, "\n") + s.replace("Missing: _prepare_validator_of_missing", "Missing: _prepare_validator_of_constant(MISSING)"))], {"C20": ["C20.4"]})
ben("c20_missing_validator_made_by_identity_factory", [E("mod:state.validation", _VAL_TABLE, lambda s: _CONST_FACTORY.format(op="is").replace(NL, "\n") + s.replace("Missing: _prepare_validator_of_missing", "Missing: _prepare_validator_of_constant(MISSING)"))], ["C20", "C05", "C04"])
# representation changes the normaliser reads back
_CURSOR = (
    "scope: ScopeMetrics = self" + NL + "while True:" + NL + "    assert not scope._completed.done()" + NL + "    if not scope._finished:" + NL + "        return" + NL + "    if any(not nested.is_completed for nested in scope._nested):" + NL + "        return" + NL
    + "    scope._completed.set_result(monotonic() - scope._timestamp)" + NL + "    parent: ScopeMetrics | None = scope._parent" + NL + "    if parent is None{guard}:" + NL + "        return" + NL + "    scope = parent"
)
_CIA_DEF = lambda n: isinstance(n, ast.FunctionDef) and n.name == "_complete_if_able"  # noqa: E731


def _cia_body(body: str):
    def rewrite(s: str) -> str:
        head = s[: s.index("assert")]
        return head + body.replace(NL, NL + " " * 4)

    return rewrite


ben("c09_complete_if_able_as_cursor_loop", [E(f"{SMx}._complete_if_able", _CIA_DEF, _cia_body(_CURSOR.format(guard=" or parent._completed.done()")))], ["C09", "C02", "C10"])
brk("c09_cursor_loop_completes_completed_parent", [E(f"{SMx}._complete_if_able", _CIA_DEF, _cia_body(_CURSOR.format(guard="")))], {"C09": ["C09.6"], "C02": ["C02.9"]})
brk("c09_cursor_loop_without_finished_guard", [E(f"{SMx}._complete_if_able", _CIA_DEF, _cia_body(_CURSOR.format(guard=" or parent._completed.done()").replace("    if not scope._finished:" + NL + "        return" + NL, "")))], {"C09": ["C09.2"]})
_WITH = lambda n: isinstance(n, ast.AsyncWith) and "streaming_context" in U(n.items[0])  # noqa: E731
_SPELLED = (
    "await streaming_context.__aenter__()" + NL + "try:" + NL + "    async for result in source(*args, **kwargs):" + NL + "        yield result" + NL + "except BaseException as exc:" + NL
    + "    await streaming_context.__aexit__(type(exc), exc, exc.__traceback__)" + NL + "    raise" + NL + "else:" + NL + "    {normal}"
)
ben("c11_stream_scope_spelled_out", [E("context.access.ctx.stream.generator", _WITH, to(_SPELLED.format(normal="await streaming_context.__aexit__(None, None, None)")))], ["C11", "C02", "C09"])
brk("c11_stream_scope_spelled_out_without_normal_exit", [E("context.access.ctx.stream.generator", _WITH, to(_SPELLED.format(normal="pass")))], {"C11": []})
ben("c08_walrus_alias_in_scope_exit", [E(f"{SC}.__aexit__", lambda n: isinstance(n, ast.If) and "self._disposables is not None" in U(n.test), lambda s: s.replace("if self._disposables is not None:", "if (disposables := self._disposables) is not None:", 1).replace("await self._disposables.__aexit__", "await disposables.__aexit__", 1))], ["C01", "C02", "C03", "C06", "C08", "C11"])
for _n in LEVELS_ if (LEVELS_ := ("log_error", "log_info")) else ():
    ben(f"c19_root_logger_in_a_local_{_n}", [E(f"{MCX}.{_n}", lambda n: isinstance(n, ast.Expr) and U(n).startswith("getLogger().log("), lambda s: "root_logger: Logger = getLogger()" + NL + s.replace("getLogger().log(", "root_logger.log(", 1))], ["C19"])
ben("c19_prefix_joined_from_tags", [E(f"{SMx}.__init__", stmt("self._logger_prefix"), to("tags: tuple[str, ...] = (self.trace_id, scope, self.identifier) if scope else (self.trace_id, self.identifier)" + NL + "self._logger_prefix: str = ' '.join(f'[{tag}]' for tag in tags)"))], ["C19"])
brk("c19_prefix_joined_without_identifier", [E(f"{SMx}.__init__", stmt("self._logger_prefix"), to("tags: tuple[str, ...] = (self.trace_id, scope) if scope else (self.trace_id,)" + NL + "self._logger_prefix: str = ' '.join(f'[{tag}]' for tag in tags)"))], {"C19": ["C19.5"]})
ben("c13_result_bound_before_return", [E("helpers.caching._AsyncCache.__call__", lambda n: isinstance(n, ast.Return) and U(n) == "return await shield(task)", to("result: Result = await shield(task)" + NL + "return result"))], ["C12", "C13"])
for _c in ("_SyncCache", "_AsyncCache"):
    ben(f"c12_expiration_kept_on_the_object_{_c}", [
        E(f"helpers.caching.{_c}.__init__", lambda n: isinstance(n, ast.If) and "expiration" in U(n.test), to("self._expiration: float | None = expiration or None")),
        E(f"helpers.caching.{_c}.__init__", stmt("self._next_expire_time"), PASS),
        E(f"helpers.caching.{_c}.__get__", lambda n: isinstance(n, ast.FunctionDef), before("def _next_expire_time(self) -> float | None:" + NL + "    if (expiration := self._expiration) is None:" + NL + "        return None" + NL + "    return monotonic() + expiration" + NL)),
    ], ["C12", "C13"])
    brk(f"c12_expiration_kept_doubled_{_c}", [
        E(f"helpers.caching.{_c}.__init__", lambda n: isinstance(n, ast.If) and "expiration" in U(n.test), to("self._expiration: float | None = (expiration * 2) if expiration else None")),
        E(f"helpers.caching.{_c}.__init__", stmt("self._next_expire_time"), PASS),
        E(f"helpers.caching.{_c}.__get__", lambda n: isinstance(n, ast.FunctionDef), before("def _next_expire_time(self) -> float | None:" + NL + "    if (expiration := self._expiration) is None:" + NL + "        return None" + NL + "    return monotonic() + expiration" + NL)),
    ], {"C12": ["C12.5"]} if _c == "_SyncCache" else {"C12": ["C12.5"], "C13": ["C13.6"]})
ben("c16_callbacks_bound_by_keyword_partial", [
    E("mod:helpers.timeouted", lambda n: isinstance(n, ast.ClassDef) and n.name == "_AsyncTimeout", before("from functools import partial" + NL + NL + NL + "def _cancel_task(future, /, *, task) -> None:" + NL + "    task.cancel()" + NL + NL)),
    E(TO, lambda n: isinstance(n, ast.FunctionDef) and n.name == "on_result", PASS),
    E(TO, stmt("future.add_done_callback(on_result)"), to("future.add_done_callback(partial(_cancel_task, task=task))")),
], ["C16"])
brk("c16_keyword_partial_cancels_nothing", [
    E("mod:helpers.timeouted", lambda n: isinstance(n, ast.ClassDef) and n.name == "_AsyncTimeout", before("from functools import partial" + NL + NL + NL + "def _cancel_task(future, /, *, task) -> None:" + NL + "    future.cancel()" + NL + NL)),
    E(TO, lambda n: isinstance(n, ast.FunctionDef) and n.name == "on_result", PASS),
    E(TO, stmt("future.add_done_callback(on_result)"), to("future.add_done_callback(partial(_cancel_task, task=task))")),
], {"C16": []})

# =============================================================================================== round 9 additions
_CTXREC = lambda n: isinstance(n, ast.Expr) and U(n).startswith("MetricsContext.record(")  # noqa: E731
brk("c10_falsy_metric_not_recorded", [E("context.access.ctx.record", _CTXREC, before("if not metric:" + NL + "    return"))], {"C10": ["C10.2"]})
brk("c18_falsy_result_not_traced", [E("helpers.tracing.ResultTrace.of", lambda n: isinstance(n, ast.Return) and U(n) == "return cls(result=value)", to("return cls(result=value if value else MISSING)"))], {"C18": ["C18.4"]})
for _name, _cls, _exp in (("timeout", "helpers.timeouted._AsyncTimeout", {"C16": ["C16.6"]}), ("throttle", "helpers.throttling._AsyncThrottle", {"C15": ["C15.2"]}), ("executor", "helpers.asynchrony._ExecutorWrapper", {"C18": ["C18.1"]})):
    brk(f"c16_wrapper_keeps_a_derived_function_{_name}", [E(f"{_cls}.__init__", stmt("self._function"), lambda s: s.rsplit("=", 1)[0] + "= (lambda f: f)(function)")], _exp)
    ben(f"c16_wrapper_keeps_the_function_through_cast_{_name}", [E(f"{_cls}.__init__", stmt("self._function"), lambda s: s.rsplit("=", 1)[0] + "= cast(Any, function)"), E(f"mod:{_cls.rsplit('.', 1)[0]}", lambda n: isinstance(n, ast.ImportFrom) and n.module == "collections.abc", after("from typing import Any, cast"))], [next(iter(_exp))])
_RECV_HELPER = "def _receiver(instance: object, /) -> Hashable:" + NL + "    try:" + NL + "        return ref(instance)" + NL + "    except TypeError:" + NL + "        {fallback}" + NL + NL
_CACHE_CLS = lambda n: isinstance(n, ast.ClassDef) and n.name == "_SyncCache"  # noqa: E731
for _c in ("_SyncCache", "_AsyncCache"):
    brk(f"c12_receiver_falls_back_to_id_{_c}", [E("mod:helpers.caching", _CACHE_CLS, before(_RECV_HELPER.format(fallback="return id(instance)"))), E(f"helpers.caching.{_c}.__method_call__", expr("ref(__method_self)"), to("_receiver(__method_self)"))], {"C12": ["C12.6"]})
    ben(f"c12_receiver_through_helper_{_c}", [E("mod:helpers.caching", _CACHE_CLS, before(_RECV_HELPER.format(fallback="raise"))), E(f"helpers.caching.{_c}.__method_call__", expr("ref(__method_self)"), to("_receiver(__method_self)"))], ["C12", "C13"], note="the recorded finding (ref() compares by ==) stays the recorded finding")
_PERIOD = lambda n: isinstance(n, ast.Match) and U(n.subject) == "period"  # noqa: E731
brk("c15_period_through_timedelta", [E("helpers.throttling._AsyncThrottle.__init__", _PERIOD, to("match period:" + NL + "    case timedelta() as delta:" + NL + "        pass" + NL + "    case period_seconds:" + NL + "        delta = timedelta(seconds=period_seconds)" + NL + "self._period = delta.total_seconds()"))], {"C15": ["C15.5"]})
ben("c15_period_through_a_local", [E("helpers.throttling._AsyncThrottle.__init__", _PERIOD, to("match period:" + NL + "    case timedelta() as delta:" + NL + "        seconds = delta.total_seconds()" + NL + "    case period_seconds:" + NL + "        seconds = period_seconds" + NL + "self._period = seconds"))], ["C15"])
_STATE_LADDER = lambda n: isinstance(n, ast.If) and "in self._state" in U(n.test)  # noqa: E731
_SINGLE_EXIT = (
    "resolved: StateType" + NL + "if state not in self._state:" + NL + "    if default is None:" + NL + "        try:" + NL + "            resolved = state()" + NL + "        except Exception as exc:" + NL
    + "            raise MissingState('missing') from exc" + NL + "    else:" + NL + "        resolved = default" + NL + "else:" + NL + "    resolved = {stored}" + NL + "return resolved"
)
ben("c01_lookup_single_exit", [E(f"{SS}.state", _STATE_LADDER, to(_SINGLE_EXIT.format(stored="cast(StateType, self._state[state])")))], ["C01", "C03"])
brk("c01_lookup_single_exit_prefers_default", [E(f"{SS}.state", _STATE_LADDER, to(_SINGLE_EXIT.format(stored="default or cast(StateType, self._state[state])")))], {"C01": ["C01.2"], "C03": ["C03.9"]})
_MISSING_FACTORY = lambda n: isinstance(n, ast.FunctionDef) and n.name == "_prepare_validator_of_missing"  # noqa: E731
_HOISTED = "def _validate_missing(value: Any) -> Any:" + NL + "    if value {op} MISSING:" + NL + "        return value" + NL + "    else:" + NL + "        raise TypeError('not missing')" + NL + NL + NL + "def _prepare_validator_of_missing(annotation: AttributeAnnotation, /) -> Callable[[Any], Any]:" + NL + "    return _validate_missing"
ben("c20_missing_validator_hoisted", [E("mod:state.validation", _MISSING_FACTORY, to(_HOISTED.format(op="is")))], ["C20", "C05", "C04"])
brk("c20_missing_validator_hoisted_by_equality", [E("mod:state.validation", _MISSING_FACTORY, to(_HOISTED.format(op="==")))], {"C20": ["C20.4"]})
_TGC_CLASS = lambda n: isinstance(n, ast.FunctionDef) and n.name == "run"  # noqa: E731
_PARKED = "@staticmethod" + NL + "def check_cancellation() -> None:" + NL + "    if (task := current_task()) and task.cancelling() > {n}:" + NL + "        raise CancelledError()" + NL + NL
_IMPORT_ASYNCIO = lambda n: isinstance(n, ast.ImportFrom) and n.module == "asyncio"  # noqa: E731
_CHK = lambda n: isinstance(n, ast.If) and "cancelling()" in U(n.test)  # noqa: E731
ben("c07_check_parked_in_tasks_module", [E(f"mod:context.tasks", _IMPORT_ASYNCIO, after("from asyncio import current_task")), E(f"{TGC}", lambda n: isinstance(n, ast.FunctionDef) and n.name == "__init__", before(_PARKED.format(n=0))), E("context.access.ctx.check_cancellation", _CHK, to("TaskGroupContext.check_cancellation()"))], ["C07"])
brk("c07_check_parked_in_tasks_module_off_by_one", [E(f"mod:context.tasks", _IMPORT_ASYNCIO, after("from asyncio import current_task")), E(f"{TGC}", lambda n: isinstance(n, ast.FunctionDef) and n.name == "__init__", before(_PARKED.format(n=1))), E("context.access.ctx.check_cancellation", _CHK, to("TaskGroupContext.check_cancellation()"))], {"C07": ["C07.2"]})
_CURSOR2 = (
    "scope: ScopeMetrics | None = self" + NL + "while scope is not None:" + NL + "    assert not scope._completed.done()" + NL + "    if {guard}all(nested.is_completed for nested in scope._nested):" + NL
    + "        scope._completed.set_result(monotonic() - scope._timestamp)" + NL + "        parent: ScopeMetrics | None = scope._parent" + NL + "        if parent and not parent._completed.done():" + NL + "            scope = parent" + NL
    + "        else:" + NL + "            scope = None" + NL + "    else:" + NL + "        scope = None"
)
ben("c09_cursor_loop_until_none", [E(f"{SMx}._complete_if_able", _CIA_DEF, _cia_body(_CURSOR2.format(guard="scope._finished and ")))], ["C09", "C02", "C10"])
brk("c09_cursor_loop_until_none_without_finished_guard", [E(f"{SMx}._complete_if_able", _CIA_DEF, _cia_body(_CURSOR2.format(guard="")))], {"C09": ["C09.2"]})
_WRAPPERS = (
    "def _schedule_completion(completion, metrics, _future, /) -> None:" + NL + "    run_coroutine_threadsafe(completion(metrics), metrics._loop)" + NL + NL + NL
    + "def _call_completion(completion, metrics, _future, /) -> None:" + NL + "    completion({arg})" + NL + NL + NL
)
_SM_CLASS = lambda n: isinstance(n, ast.ClassDef) and n.name == "ScopeMetrics"  # noqa: E731
_ATTACH = lambda n: isinstance(n, ast.If) and U(n.test).startswith("(completion := completion)")  # noqa: E731
_ATTACHED = "if completion:" + NL + "    self._completed.add_done_callback(partial(_schedule_completion if iscoroutinefunction(completion) else _call_completion, completion, self))"
_IMPORT_FUNCTOOLS = [E("mod:context.metrics", lambda n: isinstance(n, ast.ImportFrom) and n.module == "asyncio", after("from functools import partial"))]
ben("c09_completion_wrappers_bound_with_partial", _IMPORT_FUNCTOOLS + [E("mod:context.metrics", _SM_CLASS, before(_WRAPPERS.format(arg="metrics"))), E(f"{SMx}.__init__", _ATTACH, to(_ATTACHED))], ["C09"])
brk("c09_completion_wrapper_called_with_the_future", _IMPORT_FUNCTOOLS + [E("mod:context.metrics", _SM_CLASS, before(_WRAPPERS.format(arg="_future"))), E(f"{SMx}.__init__", _ATTACH, to(_ATTACHED))], {"C09": ["C09.1"]})
_VIEW = lambda n: isinstance(n, ast.If) and U(n.test) == "not merge"  # noqa: E731
ben("c10_unmerged_view_through_an_alias", [E(f"{SMx}.metrics", _VIEW, to("if not merge:" + NL + "    own = self._metrics" + NL + "    return list(own.values())"))], ["C10"])
brk("c03_update_answered_with_the_old_snapshot", [E(f"{SS}.updated", lambda n: isinstance(n, ast.If) and U(n.test) == "state", before("if all(self._state.get(type(element)) == element for element in state):" + NL + "    return self"))], {"C03": ["C03.5"], "C01": ["C01.14"], "C08": ["C08.10"]})
brk("c20_singleton_test_by_truthiness", [E(f"{MT}.MissingType.__call__", lambda n: isinstance(n, ast.If), to("cls._instance = cls._instance or super().__call__()" + NL + "return cls._instance"))], {"C20": ["C20.1"], "C05": ["C05.17"]})
_MIMIC_COPY = lambda n: isinstance(n, ast.For) and "__dict__" in U(n.iter)  # noqa: E731
brk("c18_mimic_overwrites_wrapper_state", [E("utils.mimic.mimic_function.mimic", _MIMIC_COPY, to("target.__dict__.update(function.__dict__)"))], {"C18": ["C18.7"], "C12": ["C12.8"], "C13": ["C13.10"], "C15": ["C15.6"], "C16": ["C16.7"]})
for _c in ("__call__", "__method_call__"):
    brk(f"c13_key_reduced_to_its_hash_{_c}", [E(f"helpers.caching._AsyncCache.{_c}", lambda n: isinstance(n, ast.AnnAssign) and U(n.target) == "key", lambda s: s.replace("_make_key(", "hash(_make_key(", 1).rstrip() + ")")], {"C13": ["C13.9"], "C12": ["C12.1"]})

# =============================================================================================== round 10 additions
_COMPLETION_TRY = lambda n: isinstance(n, ast.Try) and "task.result()" in U(n)  # noqa: E731
_OC = f"{TO}.on_completion"
brk("c16_base_exception_turned_into_cancellation", [E(_OC, _COMPLETION_TRY, to("try:" + NL + "    result = task.result()" + NL + "except Exception as exc:" + NL + "    future.set_exception(exc)" + NL + "except BaseException:" + NL + "    future.cancel()" + NL + "else:" + NL + "    future.set_result(result)"))], {"C16": ["C16.2"]})
ben("c16_cancellation_read_from_result", [E(_OC, _COMPLETION_TRY, to("try:" + NL + "    result = task.result()" + NL + "except CancelledError:" + NL + "    future.cancel()" + NL + "except BaseException as exc:" + NL + "    future.set_exception(exc)" + NL + "else:" + NL + "    future.set_result(result)")), E("mod:helpers.timeouted", lambda n: isinstance(n, ast.ImportFrom) and n.module == "asyncio", after("from asyncio import CancelledError"))], ["C16"])
ben("c16_timer_callback_tests_cancelled", [E(f"{TO}.on_timeout", lambda n: isinstance(n, ast.If) and "future.done()" in U(n.test), lambda s: s.replace("future.done()", "future.cancelled()", 1))], ["C16"])
brk("c16_timer_callback_tests_cancelled_with_timer_left_armed", [E(f"{TO}.on_timeout", lambda n: isinstance(n, ast.If) and "future.done()" in U(n.test), lambda s: s.replace("future.done()", "future.cancelled()", 1)), E(_OC, stmt("timeout_handle.cancel()"), PASS)], {"C16": ["C16.3", "C16.5"]})
_THLOCK = lambda n: isinstance(n, ast.AsyncWith) and "self._lock" in U(n.items[0])  # noqa: E731
ben("c15_start_recorded_right_after_release", [E(TH, stmt("self._entries.append(monotonic())"), PASS), E(TH, _THLOCK, after("self._entries.append(monotonic())"))], ["C15"])
brk("c15_start_recorded_after_a_suspension_outside_the_lock", [E(TH, stmt("self._entries.append(monotonic())"), PASS), E(TH, _THLOCK, after("await sleep(0)" + NL + "self._entries.append(monotonic())"))], {"C15": []})
_SC_EXIT_TRY = lambda n: isinstance(n, ast.Try)  # noqa: E731
ben("c02_exit_details_as_one_tuple", [E(f"{SC}.__exit__", _SC_EXIT_TRY, lambda s: "details = (exc_type, exc_val, exc_tb)" + NL + s.replace("exc_type=exc_type,", "*details,").replace("exc_val=exc_val,", "").replace("exc_tb=exc_tb,", ""))], ["C02", "C01", "C09"])
brk("c02_exit_details_tuple_of_nones", [E(f"{SC}.__exit__", _SC_EXIT_TRY, lambda s: "details = (None, None, None)" + NL + s.replace("exc_type=exc_type,", "*details,").replace("exc_val=exc_val,", "").replace("exc_tb=exc_tb,", ""))], {"C02": ["C02.6"]})
ben("c20_not_missing_as_negated_identity", [E(f"{MT}.not_missing", lambda n: isinstance(n, ast.Return), to("return not check is MISSING"))], ["C20"])
for _c in ("_SyncCache", "_AsyncCache"):
    ben(f"c12_eviction_by_first_key_{_c}", [E(f"helpers.caching.{_c}.__call__", stmt("self._cached.popitem(last=False)"), to("del self._cached[next(iter(self._cached))]"))], ["C12", "C13"])
    brk(f"c12_eviction_by_last_key_{_c}", [E(f"helpers.caching.{_c}.__call__", stmt("self._cached.popitem(last=False)"), to("del self._cached[next(reversed(self._cached))]"))], {"C12": []})
    ben(f"c12_eviction_order_as_named_constant_{_c}", [E("mod:helpers.caching", _CACHE_CLS, before("_OLDEST_FIRST = False" + NL + NL)), E(f"helpers.caching.{_c}.__call__", stmt("self._cached.popitem(last=False)"), to("self._cached.popitem(last=_OLDEST_FIRST)"))], ["C12", "C13"])
    brk(f"c12_eviction_order_constant_wrong_{_c}", [E("mod:helpers.caching", _CACHE_CLS, before("_OLDEST_FIRST = True" + NL + NL)), E(f"helpers.caching.{_c}.__call__", stmt("self._cached.popitem(last=False)"), to("self._cached.popitem(last=_OLDEST_FIRST)"))], {"C12": ["C12.4"]})
ben("c04_init_pops_its_kwargs", [E(f"{STS}.__init__", lambda n: isinstance(n, ast.Call) and U(n.func) == "kwargs.get", lambda s: s.replace("kwargs.get", "kwargs.pop", 1))], ["C04", "C05"])
ben("c03_token_resets_its_own_variable", [E("context.state.StateContext.__exit__", stmt("StateContext._context.reset(self._token)"), to("self._token.var.reset(self._token)"))], ["C01", "C02", "C03"])
_TG_TRY = lambda n: isinstance(n, ast.Try) and "self._group.__aexit__" in U(n)  # noqa: E731
brk("c07_group_exit_with_except_star", [E(f"{TGC}.__aexit__", _TG_TRY, lambda s: s.replace("except CancelledError:", "except* CancelledError:").replace("except BaseException:", "except* BaseException:"))], {"C07": ["C07.1"]})
_SLOG_EMIT = lambda n: isinstance(n, ast.Expr) and "self._logger.log" in U(n)  # noqa: E731
_TWO_EMITS = "if args:" + NL + "    self._logger.log(level, f\"{{self._logger_prefix.replace('%', '%%')}} {{message}}\", *args, exc_info=exception)" + NL + "else:" + NL + "    self._logger.log(level, {plain}, exc_info=exception)"
ben("c19_one_emission_per_branch", [E(f"{SMx}.log", stmt("prefix"), PASS), E(f"{SMx}.log", _SLOG_EMIT, to(_TWO_EMITS.format(plain="f\"{self._logger_prefix} {message}\"")))], ["C19"])
brk("c19_plain_branch_without_tag", [E(f"{SMx}.log", stmt("prefix"), PASS), E(f"{SMx}.log", _SLOG_EMIT, to(_TWO_EMITS.format(plain="message")))], {"C19": ["C19.5"]})
for _c in ("_SyncCache", "_AsyncCache"):
    _edits = lambda stamp, _c=_c: [  # noqa: E731
        E(f"helpers.caching.{_c}.__init__", lambda n: isinstance(n, ast.If) and "expiration" in U(n.test), to("self._expiration: float = expiration or 0.0")),
        E(f"helpers.caching.{_c}.__init__", stmt("self._next_expire_time"), PASS),
        E(f"helpers.caching.{_c}.__call__", lambda n: isinstance(n, ast.Call) and U(n) == "self._next_expire_time()", to(stamp)),
        E(f"helpers.caching.{_c}.__method_call__", lambda n: isinstance(n, ast.Call) and U(n) == "self._next_expire_time()", to(stamp)),
    ]
    ben(f"c12_stamp_written_at_the_store_{_c}", _edits("(monotonic() + self._expiration if self._expiration else None)"), ["C12", "C13"])
    brk(f"c12_stamp_written_at_the_store_without_expiration_{_c}", _edits("(monotonic() if self._expiration else None)"), {"C12": ["C12.5"]} if _c == "_SyncCache" else {"C12": ["C12.5"], "C13": ["C13.6"]})
_INIT_STORE = lambda n: isinstance(n, ast.Expr) and U(n).startswith("object.__setattr__")  # noqa: E731
_VALIDATED_INLINE = "value = kwargs.get(name, MISSING)" + NL + "if value is MISSING:" + NL + "    value = {dflt}" + NL + "object.__setattr__(self, name, attribute.validator(value))"
ben("c05_validated_written_out", [E(f"{STS}.__init__", _INIT_STORE, to(_VALIDATED_INLINE.format(dflt="attribute.default")))], ["C05", "C04"])
brk("c05_validated_written_out_without_default", [E(f"{STS}.__init__", _INIT_STORE, to(_VALIDATED_INLINE.format(dflt="None")))], {"C05": ["C05.1"], "C04": ["C04.9"]})
ben("c10_record_rebinds_metric", [E(f"{SMx}.record", lambda n: isinstance(n, ast.If) and "current" in U(n.test), to("if (current := self._metrics.get(metric_type)) is not None:" + NL + "    metric = merge(cast(Metric, current), metric)" + NL + "self._metrics[metric_type] = metric"))], ["C10"])
_STREAM_GEN = lambda n: isinstance(n, ast.AsyncFunctionDef) and n.name == "generator"  # noqa: E731
brk("c11_stream_body_takes_named_parameters", [E("mod:context.access", lambda n: isinstance(n, ast.ClassDef) and n.name == "ctx", before("async def _stream_within(scope, source, *args, **kwargs):" + NL + "    async with scope:" + NL + "        async for result in source(*args, **kwargs):" + NL + "            yield result" + NL + NL)), E("context.access.ctx.stream", _STREAM_GEN, PASS), E("context.access.ctx.stream", lambda n: isinstance(n, ast.Return) and "context_snapshot.run" in U(n), to("return context_snapshot.run(_stream_within, streaming_context, source, *args, **kwargs)"))], {"C11": ["C11.10"], "C18": ["C18.1"]})
_QUOTA = "class _Quota(NamedTuple):" + NL + "    limit: int" + NL + "    period: float" + NL + NL + NL


def _hoist_get_into_base(broken: bool):
    """Move `_SyncCache.__get__` into a new private base class `_Bindable` that `_SyncCache` inherits from."""
    import re

    def rewrite(src: str) -> str:
        m = re.search(r"\n    def __get__\(.*?(?=\n    (?:async )?def |\Z)", src, re.S)
        assert m is not None
        method = m.group(0)
        rest = src[: m.start()] + src[m.end() :]
        if broken:
            method = re.sub(r"partial\(\s*self\.__method_call__,\s*instance,?\s*\)", "self.__method_call__", method)
        head = rest.split("\n", 1)[0]
        new_head = head.replace("]:", "](_Bindable):", 1) if head.rstrip().endswith("]:") else head.replace(":", "(_Bindable):", 1)
        return "class _Bindable:" + method + "\n\n\n" + new_head + "\n" + rest.split("\n", 1)[1]

    return rewrite


ben("c12_get_inherited_from_private_base", [E("mod:helpers.caching", _CACHE_CLS, _hoist_get_into_base(False))], ["C12", "C18"])
brk("c12_get_inherited_from_private_base_unbound", [E("mod:helpers.caching", _CACHE_CLS, _hoist_get_into_base(True))], {"C12": []})
