"""Self-test of the checker: AST-located edits of the *current* tree, materialised in a scratch copy
outside /repo and /verif, each run through the real checks.

A variant is a list of edits.  An edit names a function (qualified), selects one AST node in it with
a predicate, and rewrites the source segment of that node (text splice by the node's line/column
span - formatting elsewhere is untouched, nothing is stored as frozen source text).

breaking variant:  expected = {property: [rule ids that must report]}   (still compiles)
benign variant:    expected = {}  and `silent` lists the properties that must stay exit 0
"""

from __future__ import annotations

import ast
import io
import os
import shutil
import sys
import tempfile
from contextlib import redirect_stdout
from dataclasses import dataclass, field
from typing import Callable

VERIF = os.path.dirname(os.path.dirname(os.path.abspath(__file__)))
sys.path.insert(0, VERIF)

from hwverif.loader import Program, FunctionInfo  # noqa: E402


@dataclass
class Edit:
    where: str  # qualified function / class name (without the haiway. prefix) or module name "mod:<name>"
    select: Callable[[ast.AST], bool]
    rewrite: Callable[[str], str]
    nth: int = 0  # which match (source order)
    what: str = ""


@dataclass
class Variant:
    name: str
    edits: list[Edit]
    expected: dict[str, list[str]] = field(default_factory=dict)  # property -> rules that must fire
    silent: list[str] = field(default_factory=list)  # properties that must stay silent (benign)
    note: str = ""

    @property
    def breaking(self) -> bool:
        return bool(self.expected)


class EditError(Exception):
    pass


def _span(src_lines: list[str], node: ast.AST) -> tuple[int, int]:
    """absolute (start, end) character offsets of node in the joined source."""
    offs = [0]
    for ln in src_lines:
        offs.append(offs[-1] + len(ln))

    def pos(line: int, col: int) -> int:
        # col offsets are utf8 byte offsets
        text = src_lines[line - 1]
        return offs[line - 1] + len(text.encode("utf-8")[:col].decode("utf-8"))

    return pos(node.lineno, node.col_offset), pos(node.end_lineno, node.end_col_offset)


def apply_edits(repo: str, edits: list[Edit]) -> list[str]:
    """Apply edits to the tree under `repo` (a scratch copy).  Returns descriptions."""
    done = []
    for e in edits:
        prog = Program(repo, normalise=False)  # edits address the source as written
        if e.where.startswith("mod:"):
            mod = prog.module(e.where[4:])
            nodes = list(ast.walk(mod.tree))
        elif ("haiway." + e.where) in prog.classes:
            ci = prog.cls(e.where)
            mod = ci.module
            nodes = [ci.node, *ast.walk(ci.node)]
        else:
            fi = prog.fn(e.where)
            mod = fi.module
            nodes = [fi.node, *fi.all_nodes()]
        cands = [n for n in nodes if hasattr(n, "lineno") and hasattr(n, "end_lineno") and _safe(e.select, n)]
        cands.sort(key=lambda n: (n.lineno, n.col_offset, -(n.end_lineno * 10000 + n.end_col_offset)))
        # drop duplicates (same span)
        uniq, seen = [], set()
        for n in cands:
            k = (n.lineno, n.col_offset, n.end_lineno, n.end_col_offset)
            if k not in seen:
                seen.add(k)
                uniq.append(n)
        if not (-len(uniq) <= e.nth < len(uniq)):
            raise EditError(f"edit `{e.what}` in {e.where}: {len(uniq)} matching nodes, need index {e.nth}")
        node = uniq[e.nth]
        lines = mod.source.splitlines(keepends=True)
        a, b = _span(lines, node)
        src = mod.source
        indent = " " * (len(lines[node.lineno - 1]) - len(lines[node.lineno - 1].lstrip()))
        if not isinstance(node, ast.stmt) and not isinstance(node, ast.ExceptHandler):
            indent = indent  # expressions: continuation lines align with the statement
        new = src[:a] + e.rewrite(src[a:b]).replace("\u23ce", "\n" + indent) + src[b:]
        try:
            compile(new, mod.path, "exec")
        except SyntaxError as exc:
            raise EditError(f"edit `{e.what}` in {e.where} does not compile: {exc}") from exc
        with open(mod.path, "w", encoding="utf-8") as fh:
            fh.write(new)
        done.append(f"{e.where}: {e.what or 'edit'} @ line {node.lineno}")
    return done


def _safe(pred, n) -> bool:
    try:
        return bool(pred(n))
    except Exception:  # noqa: BLE001 - predicates are written loosely
        return False


def make_copy(repo: str) -> str:
    base = tempfile.mkdtemp(prefix="hwverif.", dir="/var/tmp")
    shutil.copytree(os.path.join(repo, "src", "haiway"), os.path.join(base, "src", "haiway"), ignore=shutil.ignore_patterns("__pycache__"))
    return base


def run_variant(args: tuple) -> dict:
    """(repo, variant index, variants module name) -> result dict.  Runs in a worker process."""
    repo, idx, props = args
    from selftest.variants import VARIANTS
    from hwverif.cli import run_property

    v = VARIANTS[idx]
    scratch = make_copy(repo)
    res = {"variant": v.name, "breaking": v.breaking, "ok": True, "problems": [], "edits": [], "results": {}}
    try:
        try:
            from selftest.variants import REVERSALS, WHOLE_FILE

            if v.name in REVERSALS:
                import glob
                import subprocess

                for num in REVERSALS[v.name].split(","):
                    pf = glob.glob(os.path.join(VERIF, "design", "planned_repairs", num + "-*.patch"))[0]
                    p = subprocess.run(["patch", "-p1", "-R", "-s", "-f", "-d", scratch, "-i", pf], capture_output=True, text=True)
                    if p.returncode != 0:
                        raise EditError(f"reverse patch {num} does not apply: {p.stdout.strip()[:200]}")
                    res["edits"].append(f"reverse of planned repair {num}")
            if v.name in WHOLE_FILE:
                path = os.path.join(scratch, "src", "haiway", WHOLE_FILE[v.name])
                with open(path, encoding="utf-8") as fh:
                    text = fh.read()
                with open(path, "w", encoding="utf-8") as fh:
                    fh.write(ast.unparse(ast.parse(text)) + "\n")
                res["edits"].append(f"ast.unparse round trip of {WHOLE_FILE[v.name]}")
            res["edits"] += apply_edits(scratch, v.edits)
        except Exception as exc:  # noqa: BLE001
            res["ok"] = False
            res["problems"].append(f"edit failed: {exc}")
            return res
        targets = sorted(set(v.expected) | set(v.silent))
        if props:
            targets = [p for p in targets if p in props]
        evdir = os.path.join(scratch, "evidence")
        import signal

        def _alarm(*_):
            raise TimeoutError("check timed out")

        signal.signal(signal.SIGALRM, _alarm)
        for pid in targets:
            buf = io.StringIO()
            signal.alarm(40)
            try:
                with redirect_stdout(buf):
                    rc = run_property(pid, scratch, "quick", evidence_dir=evdir, quiet=True)
            except TimeoutError:
                rc = 3
                buf.write("ANALYSIS-ERROR TIMEOUT")
            finally:
                signal.alarm(0)
            out = buf.getvalue()
            fired = sorted({tok for line in out.splitlines() if line.startswith("  src/") for tok in line.split() if tok[:1] == "C" and "." in tok and tok[1:3].isdigit()})
            res["results"][pid] = {"exit": rc, "rules": fired}
            if pid in v.expected:
                want = v.expected[pid]
                if rc != 1:
                    res["ok"] = False
                    res["problems"].append(f"{pid}: expected VIOLATION, got exit {rc}: {out.strip()[:300]}")
                else:
                    missing = [r for r in want if r not in fired]
                    if missing:
                        res["ok"] = False
                        res["problems"].append(f"{pid}: rules {missing} did not fire (fired: {fired})")
            else:
                if rc != 0:
                    res["ok"] = False
                    res["problems"].append(f"{pid}: benign variant raised exit {rc}: {out.strip()[:400]}")
    finally:
        shutil.rmtree(scratch, ignore_errors=True)
    return res


def run_all(repo: str, props: list[str] | None = None, names: list[str] | None = None, jobs: int = 16) -> list[dict]:
    from multiprocessing import Pool

    from selftest.variants import VARIANTS

    idxs = []
    for i, v in enumerate(VARIANTS):
        if names and v.name not in names:
            continue
        if props and not (set(v.expected) | set(v.silent)) & set(props):
            continue
        idxs.append(i)
    if not idxs:
        return []
    with Pool(min(jobs, len(idxs)), maxtasksperchild=1) as pool:  # one variant per process: nothing is carried from one analysed tree to the next
        return pool.map(run_variant, [(repo, i, props) for i in idxs], chunksize=1)


def main() -> int:
    import argparse
    import json

    ap = argparse.ArgumentParser()
    ap.add_argument("--repo", default="/repo")
    ap.add_argument("--prop", action="append")
    ap.add_argument("--name", action="append")
    ap.add_argument("--jobs", type=int, default=16)
    ap.add_argument("--json", default=None)
    a = ap.parse_args()
    results = run_all(a.repo, a.prop, a.name, a.jobs)
    bad = [r for r in results if not r["ok"]]
    for r in results:
        tag = "ok  " if r["ok"] else "FAIL"
        kind = "break " if r["breaking"] else "benign"
        print(f"{tag} {kind} {r['variant']:<48} " + " ".join(f"{p}:{v['exit']}{v['rules'] if v['rules'] else ''}" for p, v in r["results"].items()))
        for p in r["problems"]:
            print(f"       - {p}")
    print(f"{len(results)} variants, {len(bad)} failed")
    if a.json:
        with open(a.json, "w") as fh:
            json.dump(results, fh, indent=1)
    return 1 if bad else 0


if __name__ == "__main__":
    sys.exit(main())
