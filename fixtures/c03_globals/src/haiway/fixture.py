# positive examples for rule C03.4 - never imported, never executed
_current = None
_registry: dict = {}


class Holder:
    shared = None

    @classmethod
    def remember(cls, value) -> None:
        cls.shared = value  # BAD: class attribute store

    def publish(self, value) -> None:
        Holder.shared = value  # BAD


def set_current(value) -> None:
    global _current  # BAD
    _current = value


def register(key, value) -> None:
    _registry[key] = value  # BAD: module-level container mutated
