# positive example for rule C02.5 - never imported, never executed


class Manager:
    def __enter__(self) -> None:
        pass

    def __exit__(self, exc_type, exc_val, exc_tb) -> bool:
        return True  # suppresses the body's exception
