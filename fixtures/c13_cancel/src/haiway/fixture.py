# positive example for rule C13.4 - never imported, never executed


class Cache:
    def expire(self, key) -> None:
        entry = self._cached.pop(key)
        entry[0].cancel()  # BAD: expiry cancels the in-flight invocation
