# positive / negative examples for rule C07.1 - never imported, never executed
from asyncio import CancelledError, current_task
from contextlib import suppress


async def swallow_pass(x):
    try:
        await x
    except BaseException:
        pass  # BAD: swallows cancellation


async def swallow_return(x):
    try:
        return await x
    except CancelledError:
        return None  # BAD


async def mask(x):
    try:
        await x
    except BaseException as exc:
        raise RuntimeError("masked") from exc  # BAD: masks cancellation


async def loop_continue(x):
    while True:
        try:
            return await x
        except BaseException:
            continue  # BAD


async def ok_reraise(x):
    try:
        await x
    except BaseException as exc:
        print(exc)
        raise exc  # good


async def ok_ordered(x):
    try:
        await x
    except CancelledError:
        raise  # good
    except BaseException:
        pass  # good: cancellation was already taken by the earlier handler


async def ok_forward(x, future):
    try:
        await x
    except BaseException as exc:
        future.set_exception(exc)  # good: forwarded


async def with_suppress(x):
    with suppress(BaseException):  # BAD
        await x


def uncancel():
    current_task().uncancel()  # BAD
