# positive example for rule C05.10 - never imported, never executed
_CACHE: dict = {}


def validator_for(annotation):
    key = str(annotation)  # BAD: rendering is not injective
    if key in _CACHE:
        return _CACHE[key]
    _CACHE[key] = build(annotation)
    return _CACHE[key]


def build(annotation):
    return lambda value: value
