# positive examples for rule C01.5 / C03.2 - never imported, never executed


class ScopeState:
    def __init__(self, state) -> None:
        self._state: dict = {type(e): e for e in state}  # allowed

    def cache(self, key, value) -> None:
        self._state[key] = value  # BAD: item store

    def merge(self, other) -> "ScopeState":
        self._state.update(other)  # BAD: in-place update
        return self

    def forget(self, key) -> None:
        del self._state[key]  # BAD

    def union(self, other) -> None:
        self._state |= other  # BAD


def poke(scope: ScopeState, key, value) -> None:
    scope._state.setdefault(key, value)  # BAD: write from outside
