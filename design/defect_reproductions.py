"""Design material, NOT a check and not referenced by MANIFEST.json.

Triage aid required by the brief ("you can show the failing input ... against the real code"):
every case below drives one genuine defect listed in DESIGN.md section 5 with its failing input.

    PYTHONPATH=<tree>/src /venv/bin/python design/defect_reproductions.py

On the pinned tree it prints FAIL for the listed defects; with design/planned_repairs applied it
prints PASS everywhere except the defects that are recorded as known findings (C04 deepcopy of a
Mapping attribute, C07 cancellation absorbed by the task group, C08 cancellation while disposables
enter / pending while they exit, C11 stream context, C12 equal receivers), which are marked KNOWN.
The static checks never import or run haiway; this script only shows that what they report is
real behaviour and not a false alarm.
"""

import asyncio
import copy
import logging
import pickle
import time
import typing
from collections.abc import Mapping
from contextlib import asynccontextmanager

from haiway import (
    MISSING,
    AsyncQueue,
    Missing,
    State,
    asynchronous,
    cache,
    ctx,
    retry,
    throttle,
    timeout,
)
from haiway.context.metrics import MetricsContext
from haiway.context.state import StateContext
from haiway.context.tasks import TaskGroupContext

RESULTS: list[tuple[str, str]] = []


def report(name: str, passed: bool, extra: str = "", known: bool = False) -> None:
    verdict = "PASS" if passed else ("KNOWN" if known else "FAIL")
    RESULTS.append((name, verdict))
    print(f"{verdict:5s} {name} {extra}")


def attempt(name: str, check: typing.Callable[[], bool], known: bool = False) -> None:
    try:
        report(name, bool(check()), known=known)
    except BaseException as exc:  # the defect may show as an exception
        report(name, False, f"raised {type(exc).__name__}: {str(exc)[:80]}", known=known)


async def aattempt(
    name: str,
    check: typing.Callable[[], typing.Awaitable[bool]],
    known: bool = False,
) -> None:
    try:
        report(name, bool(await asyncio.wait_for(check(), 3.0)), known=known)
    except asyncio.TimeoutError:
        report(name, False, "HANG (3s)", known=known)
    except BaseException as exc:
        report(name, False, f"raised {type(exc).__name__}: {str(exc)[:80]}", known=known)


class D(State):
    v: int = 0


def snapshot() -> tuple[bool, bool, bool]:
    out: list[bool] = []
    for context in (TaskGroupContext, MetricsContext, StateContext):
        try:
            context._context.get()
            out.append(True)
        except LookupError:
            out.append(False)
    return (out[0], out[1], out[2])


def disposable(log: list[str], name: str, fail_enter=False, fail_exit=False, delay=0.0):
    @asynccontextmanager
    async def manager():
        await asyncio.sleep(delay)
        log.append(f"enter {name}")
        if fail_enter:
            raise RuntimeError(f"enter-fail {name}")
        try:
            yield None
        finally:
            log.append(f"exit {name}")
            if fail_exit:
                raise RuntimeError(f"exit-fail {name}")

    return manager()


# ---------------------------------------------------------------- synchronous cases


def sync_cases() -> None:
    attempt(
        "C20 copy/deepcopy/pickle give the one MISSING",
        lambda: copy.copy(MISSING) is MISSING
        and copy.deepcopy([MISSING])[0] is MISSING
        and all(
            pickle.loads(pickle.dumps(MISSING, protocol)) is MISSING
            for protocol in range(pickle.HIGHEST_PROTOCOL + 1)
        ),
    )

    class WithMissing(State):
        a: int | Missing = MISSING

    attempt("C04/C20 deepcopy of a state holding MISSING", lambda: copy.deepcopy(WithMissing()) == WithMissing())

    class WithMapping(State):
        m: Mapping[str, int]

    attempt(
        "C05 conforming mapping accepted and stored faithfully",
        lambda: dict(WithMapping(m={"ab": 1, "c": 2}).m) == {"ab": 1, "c": 2},
    )
    attempt(
        "C04 deepcopy of a state holding a Mapping",
        lambda: copy.deepcopy(WithMapping(m={})) == WithMapping(m={}),
        known=True,
    )

    def typing_sequence() -> bool:
        class S(State):
            s: typing.Sequence[int]

        return S(s=[1]).s == (1,)

    attempt("C05 typing.Sequence[int] annotation", typing_sequence)

    def parametrised_alias() -> bool:
        from haiway import frozenlist

        class WithAlias(State):
            items: frozenlist[int]

        try:
            WithAlias(items=("a", "b"))  # type: ignore[arg-type]
        except (TypeError, ValueError, ExceptionGroup):
            return WithAlias(items=(1, 2)).items == (1, 2)
        return False

    attempt("C05 frozenlist[int] rejects strings (parametrised alias keeps its arguments)", parametrised_alias)

    def two_parameters() -> bool:
        class Pair[A, B](State):
            a: A
            b: B

        class Outer[A, B](State):
            p: Pair[A, B]

        return Outer[int, str](p=Pair[int, str](a=1, b="x")).p.a == 1

    attempt("C05 nested generic with two parameters", two_parameters)

    class Receiver:
        def __init__(self, tag: str) -> None:
            self.tag = tag

        def __eq__(self, other: object) -> bool:
            return isinstance(other, Receiver)

        def __hash__(self) -> int:
            return 1

        @cache(limit=4)
        def method(self, x: int) -> tuple[str, int]:
            return (self.tag, x)

    first, second = Receiver("first"), Receiver("second")
    attempt(
        "C12 equal but distinct receivers do not share entries",
        lambda: first.method(1) == ("first", 1) and second.method(1) == ("second", 1),
        known=True,
    )

    calls: list[int] = []

    @retry(limit=2, delay=0)
    def flaky() -> str:
        calls.append(1)
        if len(calls) < 2:
            raise ValueError("x")
        return "ok"

    attempt("C14 int delay", lambda: flaky() == "ok" and len(calls) == 2)


# ---------------------------------------------------------------- asynchronous cases


async def async_cases() -> None:
    loop = asyncio.get_running_loop()
    loop.set_exception_handler(lambda _loop, _context: None)
    outside = snapshot()

    async def c01() -> bool:
        async with ctx.scope("a"):
            ctx.state(D)
            return ctx.state(D, default=D(v=7)).v == 7

    await aattempt("C01 explicit default wins after a default-constructed lookup", c01)

    async def c08_single() -> bool:
        log: list[str] = []
        try:
            async with ctx.scope("x", disposables=[disposable(log, "a", fail_exit=True), disposable(log, "b")]):
                pass
        except RuntimeError as exc:
            return "exit-fail a" in str(exc)
        return False

    await aattempt("C08 a single cleanup error reaches the caller", c08_single)

    async def c02_double() -> bool:
        log: list[str] = []
        try:
            async with ctx.scope(
                "x",
                disposables=[disposable(log, "a", fail_exit=True), disposable(log, "b", fail_exit=True)],
            ):
                pass
        except BaseException:
            pass
        return snapshot() == outside

    await aattempt("C02 context restored after two cleanup errors", c02_double)

    async def enter_failure() -> tuple[list[str], list[str], str | None]:
        log: list[str] = []
        completed: list[str] = []
        label: str | None = None
        async with ctx.scope("outer", completion=lambda _m: completed.append("outer")):
            try:
                async with ctx.scope(
                    "x",
                    disposables=[disposable(log, "a"), disposable(log, "b", fail_enter=True, delay=0.01)],
                ):
                    log.append("BODY")
            except RuntimeError:
                pass
            try:
                label = MetricsContext._context.get().label
                ctx.spawn(asyncio.sleep, 0)  # must land in the outer, still open, group
            except BaseException as exc:
                label = f"spawn failed: {exc!r}"
        await asyncio.sleep(0.02)
        return log, completed, label

    async def c02_enter() -> bool:
        log, _completed, label = await enter_failure()
        return "BODY" not in log and label == "outer" and snapshot() == outside

    await aattempt("C02 context restored after a disposable fails to enter", c02_enter)

    async def c08_enter() -> bool:
        log, _completed, _label = await enter_failure()
        return "exit a" in log

    await aattempt("C08 already entered disposables are exited when another fails to enter", c08_enter)

    async def c08_cancel_while_entering() -> bool:
        log: list[str] = []

        async def victim() -> None:
            async with ctx.scope(
                "x",
                disposables=[disposable(log, "fast"), disposable(log, "slow", delay=1.0)],
            ):
                log.append("BODY")

        task = asyncio.create_task(victim())
        await asyncio.sleep(0.05)  # "fast" has entered, "slow" is still entering
        task.cancel()
        try:
            await task
        except asyncio.CancelledError:
            pass
        await asyncio.sleep(0.05)
        return "enter fast" in log and "exit fast" in log and "BODY" not in log

    await aattempt(
        "C08 disposables entered before a cancellation of the concurrent enter are exited",
        c08_cancel_while_entering,
        known=True,
    )

    async def c09_enter() -> bool:
        _log, completed, _label = await enter_failure()
        return completed == ["outer"]

    await aattempt("C09 parent still completes after a nested scope failed to enter", c09_enter)

    async def c07_exit() -> bool:
        release = asyncio.Event()
        seen: dict[str, str] = {}

        async def child() -> None:
            try:
                await release.wait()
            except asyncio.CancelledError:
                seen["child"] = "cancelled"
                raise

        async def victim() -> str:
            async with ctx.scope("v"):
                ctx.spawn(child)
            return "returned normally"

        task = asyncio.create_task(victim())
        await asyncio.sleep(0.01)
        task.cancel()
        await asyncio.sleep(0.01)
        release.set()
        try:
            await task
        except asyncio.CancelledError:
            return seen.get("child") == "cancelled"
        return False

    await aattempt("C07 cancellation during scope exit is not swallowed", c07_exit)

    async def c07_check() -> bool:
        seen: list[str] = []

        async def victim() -> None:
            try:
                ctx.check_cancellation()
                seen.append("quiet before")
            except asyncio.CancelledError:
                seen.append("raised before")
            ctx.cancel()
            try:
                ctx.check_cancellation()
                seen.append("quiet after")
            except asyncio.CancelledError:
                seen.append("raised after")

        task = asyncio.create_task(victim())
        try:
            await task
        except asyncio.CancelledError:
            pass
        return seen == ["quiet before", "raised after"]

    await aattempt("C07 check_cancellation raises once cancellation was requested", c07_check)

    async def c09_late() -> bool:
        gate = asyncio.Event()
        calls: list[str] = []

        async def later() -> str:
            await gate.wait()
            with ctx.scope("post", completion=lambda _m: calls.append("post")):
                pass
            return "fine"

        async with ctx.scope("parent", completion=lambda _m: calls.append("parent")):
            task = asyncio.create_task(later())
            await asyncio.sleep(0)
        gate.set()
        result = await task
        await asyncio.sleep(0.01)
        return result == "fine" and sorted(calls) == ["parent", "post"]

    await aattempt("C09 scope opened under an already completed parent leaves cleanly", c09_late)

    async def c10_falsy() -> bool:
        class Zero(State):
            v: int = 0

            def __bool__(self) -> bool:
                return False

        got: dict[str, typing.Any] = {}
        async with ctx.scope("m", completion=lambda m: got.update(z=m.read(Zero))):
            ctx.record(Zero(v=1))
            ctx.record(Zero(v=2), merge=lambda lhs, rhs: Zero(v=lhs.v + rhs.v))
        await asyncio.sleep(0)
        return got["z"].v == 3

    await aattempt("C10 falsy metric value is merged, not replaced", c10_falsy)

    async def c11_stream() -> bool:
        seen: list[int] = []
        labels: list[str] = []

        async def generator():
            seen.append(ctx.state(D).v)
            yield 1
            seen.append(ctx.state(D).v)
            yield 2

        async with ctx.scope("creation", D(v=1)):
            stream = ctx.stream(generator)
        async with ctx.scope("consumer", D(v=2)):
            async for _ in stream:
                labels.append(MetricsContext._context.get().label)
        return seen == [1, 1] and labels == ["consumer", "consumer"]

    await aattempt("C11 stream body sees creation state, consumer context untouched", c11_stream, known=True)

    async def c15() -> bool:
        starts: list[float] = []
        origin = time.monotonic()

        @throttle(limit=2, period=0.2)
        async def call(i: int) -> int:
            starts.append(time.monotonic() - origin)
            return i

        results = await asyncio.gather(*[call(i) for i in range(5)])
        bound = all(sum(1 for s in starts if a <= s < a + 0.2 - 1e-3) <= 2 for a in starts)
        return results == [0, 1, 2, 3, 4] and bound

    await aattempt("C15 at most `limit` starts per period", c15)

    async def c16_cancel() -> bool:
        @timeout(0.2)
        async def selfcancel() -> None:
            raise asyncio.CancelledError()

        try:
            await asyncio.wait_for(selfcancel(), 1.0)
        except asyncio.TimeoutError:
            return False  # hang: the inner 0.2s timeout never fired either
        except asyncio.CancelledError:
            return True
        return False

    await aattempt("C16 function that ends cancelled does not hang the caller", c16_cancel)

    async def c16_base() -> bool:
        class Custom(BaseException):
            pass

        @timeout(0.2)
        async def failing() -> None:
            await asyncio.sleep(0)
            raise Custom("x")

        try:
            await asyncio.wait_for(failing(), 1.0)
        except asyncio.TimeoutError:
            return False
        except Custom:
            return True
        return False

    await aattempt("C16 BaseException from the function reaches the caller", c16_base)

    async def c17() -> bool:
        queue: AsyncQueue[int] = AsyncQueue()

        async def receive() -> int:
            return await queue.__anext__()

        task = asyncio.create_task(receive())
        await asyncio.sleep(0)
        queue.enqueue(1)
        queue.enqueue(2)
        task.cancel()
        try:
            await task
        except asyncio.CancelledError:
            pass
        queue.enqueue(3)
        return [await receive(), await receive(), await receive()] == [1, 2, 3]

    await aattempt("C17 element handed to a cancelled receive is not lost", c17)

    async def c18() -> bool:
        class Flag(State):
            v: int = 0

        class Holder:
            @asynchronous
            def method(self) -> typing.Any:
                try:
                    return ctx.state(Flag).v
                except Exception as exc:
                    return type(exc).__name__

        async with ctx.scope("s", Flag(v=9)):
            return await Holder().method() == 9

    await aattempt("C18 asynchronous method sees the caller's scope state", c18)

    class Capture(logging.Handler):
        def __init__(self) -> None:
            super().__init__()
            self.messages: list[str] = []

        def emit(self, record: logging.LogRecord) -> None:
            try:
                self.messages.append(record.getMessage())
            except Exception:
                self.messages.append("FORMAT-ERROR")

    async def c19_trace() -> bool:
        logger = logging.getLogger("repro19a")
        handler = Capture()
        logger.addHandler(handler)
        logger.setLevel(logging.DEBUG)
        logger.propagate = False
        async with ctx.scope("outer", logger=logger, trace_id="T1"):
            async with ctx.scope("inner"):
                ctx.log_info("in inner")
        return any(m.startswith("[T1] [inner]") and m.endswith("in inner") for m in handler.messages)

    await aattempt("C19 nested scope inherits the trace id", c19_trace)

    async def c19_percent() -> bool:
        logger = logging.getLogger("repro19b")
        handler = Capture()
        logger.addHandler(handler)
        logger.setLevel(logging.DEBUG)
        logger.propagate = False
        async with ctx.scope("100%s done", logger=logger):
            ctx.log_info("pct %s", "x")
            ctx.log_info("literal 100% no args")
        return (
            "FORMAT-ERROR" not in handler.messages
            and any(m.endswith("pct x") and "[100%s done]" in m for m in handler.messages)
            and any(m.endswith("literal 100% no args") for m in handler.messages)
        )

    await aattempt("C19 % in the scope name does not lose the message", c19_percent)

    # ---- found while hardening the checks against the independent changes (DESIGN.md 8.2)
    async def c18_traced_cls_keyword() -> bool:
        from haiway import traced

        @traced
        def make(*, cls: type = int) -> str:
            return cls.__name__

        async with ctx.scope("root"):
            return make(cls=str) == "str"

    await aattempt("C18 traced function takes a keyword named cls", c18_traced_cls_keyword)

    async def c06_cleanup_cancelled_hang() -> bool:
        events: list[str] = []

        @asynccontextmanager
        async def slow_dispose():
            yield None
            await asyncio.sleep(0.2)

        async def blocked() -> None:
            try:
                await asyncio.Event().wait()
            except asyncio.CancelledError:
                events.append("child cancelled")
                raise

        async def victim() -> None:
            async with ctx.scope("s", disposables=[slow_dispose()]):
                ctx.spawn(blocked)
                await asyncio.sleep(0)

        task = asyncio.create_task(victim())
        await asyncio.sleep(0.05)
        task.cancel()
        done, _ = await asyncio.wait([task], timeout=1.0)
        if not done:
            task.cancel()
            await asyncio.wait([task], timeout=1.0)
            return False
        return task.cancelled() and "child cancelled" in events

    await aattempt("C06/C07 task cancelled while a disposable closes ends cancelled, children cancelled", c06_cleanup_cancelled_hang)

    async def c18_stacked_wrappers() -> bool:
        async def slow(x: int) -> int:
            await asyncio.sleep(0.3)
            return x

        stacked = cache(timeout(0.05)(slow))
        try:
            await stacked(1)
        except TimeoutError:
            return True
        return False

    await aattempt("C18 cache(timeout(f)) still times out (wrapper state survives mimic)", c18_stacked_wrappers)

    async def c18_self_keyword() -> bool:
        def f(self: object = None, x: int = 0) -> tuple[object, int]:
            return (self, x)

        async def af(self: object = None, x: int = 0) -> tuple[object, int]:
            return (self, x)

        return (
            await asynchronous(f)(self=1, x=2) == (1, 2)
            and cache(f)(self=1, x=2) == (1, 2)
            and await cache(af)(self=1, x=2) == (1, 2)
            and await throttle(af)(self=1, x=2) == (1, 2)
            and await timeout(1)(af)(self=1, x=2) == (1, 2)
        )

    await aattempt("C18 wrapped functions take a keyword named self", c18_self_keyword)

    async def c18_class_level_access() -> bool:
        class K:
            @asynchronous
            def m(self, x: int) -> tuple[str, int]:
                return (type(self).__name__, x)

        return await K.m(K(), 2) == ("K", 2)  # type: ignore[call-arg]

    await aattempt("C18 asynchronous method called through the class", c18_class_level_access)

    async def c07_cancel_absorbed_by_group() -> bool:
        async def child() -> None:
            try:
                await asyncio.Event().wait()
            except asyncio.CancelledError:
                raise RuntimeError("child fails while being cancelled") from None

        async def victim() -> str:
            async with ctx.scope("s"):
                ctx.spawn(child)
                await asyncio.sleep(0)
            await asyncio.sleep(0.05)
            return "finished normally"

        task = asyncio.create_task(victim())
        await asyncio.sleep(0.02)
        task.cancel()
        await asyncio.wait([task])
        return task.cancelled()

    await aattempt("C07 cancellation absorbed by the task group while the scope exit waits", c07_cancel_absorbed_by_group, known=True)

    async def c08_exit_cancelled_unstarted() -> bool:
        log: list[str] = []

        @asynccontextmanager
        async def disp(name: str):
            log.append(f"enter {name}")
            try:
                yield None
            finally:
                log.append(f"exit {name}")

        async def victim() -> None:
            async with ctx.scope("s", disposables=[disp("a"), disp("b")]):
                ctx.cancel()

        task = asyncio.create_task(victim())
        await asyncio.wait([task])
        return "exit a" in log and "exit b" in log

    await aattempt("C08 disposables exited although a cancellation is pending when the scope is left", c08_exit_cancelled_unstarted, known=True)


if __name__ == "__main__":
    logging.getLogger().setLevel(logging.CRITICAL)
    sync_cases()
    asyncio.run(async_cases())
    print()
    print("FAIL :", [name for name, verdict in RESULTS if verdict == "FAIL"])
    print("KNOWN:", [name for name, verdict in RESULTS if verdict == "KNOWN"])
