#!/venv/bin/python
"""Systematic mutation sweep (development aid, not a registered check).

Generates first-order mutants of the property-anchored source files with generic AST operators,
keeps those that still compile AND pass the pinned test-suite, and runs all 20 checks on each.
Survivors (no check fires) are listed for manual triage: either behaviour-preserving / outside the
20 properties, or a gap in the obligations.

usage: mutation_sweep.py [--files glob,...] [--jobs 16] [--out /var/tmp/sweep.json] [--limit N]
"""

from __future__ import annotations

import argparse
import ast
import io
import json
import os
import shutil
import subprocess
import sys
import tempfile
from contextlib import redirect_stdout
from multiprocessing import Pool

VERIF = os.path.dirname(os.path.dirname(os.path.abspath(__file__)))
sys.path.insert(0, VERIF)
PY = "/venv/bin/python"
ALL = [f"C{i:02d}" for i in range(1, 21)]

DEFAULT_FILES = [
    "context/access.py", "context/state.py", "context/tasks.py", "context/disposables.py", "context/metrics.py",
    "helpers/caching.py", "helpers/retries.py", "helpers/throttling.py", "helpers/timeouted.py", "helpers/asynchrony.py", "helpers/tracing.py",
    "utils/queue.py", "utils/mimic.py", "types/missing.py", "state/structure.py", "state/validation.py", "state/attributes.py",
]


def span(lines: list[str], node: ast.AST) -> tuple[int, int]:
    offs = [0]
    for ln in lines:
        offs.append(offs[-1] + len(ln))

    def pos(line: int, col: int) -> int:
        return offs[line - 1] + len(lines[line - 1].encode()[:col].decode())

    return pos(node.lineno, node.col_offset), pos(node.end_lineno, node.end_col_offset)


def mutants_of(src: str) -> list[tuple[str, int, str]]:
    """(operator, line, new source) for every first-order mutant."""
    tree = ast.parse(src)
    lines = src.splitlines(keepends=True)
    out: list[tuple[str, int, str]] = []
    in_func: set[int] = set()
    for fn in ast.walk(tree):
        if isinstance(fn, (ast.FunctionDef, ast.AsyncFunctionDef)):
            for n in ast.walk(fn):
                in_func.add(id(n))

    def repl(node: ast.AST, text: str, op: str) -> None:
        a, b = span(lines, node)
        new = src[:a] + text + src[b:]
        try:
            compile(new, "<mutant>", "exec")
        except SyntaxError:
            return
        out.append((op, node.lineno, new))

    cmp_swap = {ast.Lt: "<=", ast.LtE: "<", ast.Gt: ">=", ast.GtE: ">", ast.Eq: "!=", ast.NotEq: "==", ast.Is: "is not", ast.IsNot: "is", ast.In: "not in", ast.NotIn: "in"}
    for n in ast.walk(tree):
        if id(n) not in in_func:
            continue
        # statement deletion
        if isinstance(n, (ast.Expr, ast.Assign, ast.AugAssign, ast.AnnAssign, ast.Delete)) and not (isinstance(n, ast.Expr) and isinstance(n.value, ast.Constant)):
            if isinstance(n, ast.AnnAssign) and n.value is None:
                continue
            repl(n, "pass", "delete-stmt")
        if isinstance(n, ast.Raise):
            repl(n, "pass", "delete-raise")
        if isinstance(n, ast.Return) and n.value is not None and not isinstance(n.value, ast.Constant):
            repl(n, "return None", "return-none")
        if isinstance(n, ast.Compare) and len(n.ops) == 1 and type(n.ops[0]) in cmp_swap:
            l, r = ast.get_source_segment(src, n.left), ast.get_source_segment(src, n.comparators[0])
            if l and r:
                repl(n, f"{l} {cmp_swap[type(n.ops[0])]} {r}", "cmp-flip")
        if isinstance(n, ast.BoolOp):
            segs = [ast.get_source_segment(src, v) for v in n.values]
            if all(segs):
                joiner = " or " if isinstance(n.op, ast.And) else " and "
                repl(n, "(" + joiner.join(f"({s})" for s in segs) + ")", "and-or")
                repl(n, f"({segs[0]})", "boolop-first")
                repl(n, f"({segs[-1]})", "boolop-last")
        if isinstance(n, ast.UnaryOp) and isinstance(n.op, ast.Not):
            s = ast.get_source_segment(src, n.operand)
            if s:
                repl(n, f"({s})", "drop-not")
        if isinstance(n, ast.If):
            t = ast.get_source_segment(src, n.test)
            if t:
                repl(n.test, f"not ({t})", "negate-if")
        if isinstance(n, ast.ExceptHandler) and n.type is not None:
            t = ast.get_source_segment(src, n.type)
            if t == "Exception":
                repl(n.type, "BaseException", "widen-handler")
            elif t == "BaseException":
                repl(n.type, "Exception", "narrow-handler")
            elif t == "CancelledError":
                repl(n.type, "KeyboardInterrupt", "retarget-handler")
            elif t == "LookupError":
                repl(n.type, "Exception", "widen-handler")
        if isinstance(n, ast.keyword) and isinstance(n.value, ast.Constant) and isinstance(n.value.value, bool):
            repl(n.value, str(not n.value.value), "flip-bool-kw")
        if isinstance(n, ast.Constant) and isinstance(n.value, int) and not isinstance(n.value, bool) and n.value in (0, 1):
            repl(n, str(1 - n.value), "zero-one")
        if isinstance(n, ast.Await) and isinstance(n.value, ast.Call) and isinstance(n.value.func, ast.Name) and n.value.func.id == "shield" and n.value.args:
            s = ast.get_source_segment(src, n.value.args[0])
            if s:
                repl(n, f"await {s}", "unshield")
        if isinstance(n, ast.Call):
            # drop the last positional / keyword argument
            if n.keywords and n.keywords[-1].arg is not None:
                k = n.keywords[-1]
                a, b = span(lines, k.value)
                # find start of "name=" by searching backwards
                start = src.rfind(k.arg + "=", 0, a)
                if start != -1:
                    new = src[:start] + src[b:]
                    new2 = new[:start].rstrip()
                    if new2.endswith(","):
                        new = new2[:-1] + new[start:]
                    try:
                        compile(new, "<m>", "exec")
                        out.append(("drop-kwarg", n.lineno, new))
                    except SyntaxError:
                        pass
            if isinstance(n.func, ast.Attribute) and n.func.attr in ("append", "appendleft", "popleft", "pop"):
                swap = {"append": "appendleft", "appendleft": "append", "popleft": "pop", "pop": "popleft"}[n.func.attr]
                a, b = span(lines, n.func)
                seg = src[a:b]
                new = src[:a] + seg[: seg.rfind(n.func.attr)] + swap + src[b:]
                try:
                    compile(new, "<m>", "exec")
                    out.append(("deque-end", n.lineno, new))
                except SyntaxError:
                    pass
        # swap adjacent simple statements
    for n in ast.walk(tree):
        body_lists = [getattr(n, f) for f in ("body", "orelse", "finalbody") if isinstance(getattr(n, f, None), list)]
        for body in body_lists:
            for s1, s2 in zip(body, body[1:]):
                if id(s1) in in_func and isinstance(s1, (ast.Expr, ast.Assign, ast.AugAssign, ast.AnnAssign)) and isinstance(s2, (ast.Expr, ast.Assign, ast.AugAssign, ast.AnnAssign)):
                    if isinstance(s1, ast.Expr) and isinstance(s1.value, ast.Constant):
                        continue
                    a1, b1 = span(lines, s1)
                    a2, b2 = span(lines, s2)
                    new = src[:a1] + src[a2:b2] + src[b1:a2] + src[a1:b1] + src[b2:]
                    try:
                        compile(new, "<m>", "exec")
                        out.append(("swap-stmts", s1.lineno, new))
                    except SyntaxError:
                        pass
    # de-duplicate
    seen = set()
    uniq = []
    for op, ln, new in out:
        if new not in seen and new != src:
            seen.add(new)
            uniq.append((op, ln, new))
    return uniq


def evaluate(job: tuple) -> dict:
    rel, op, line, new = job
    from hwverif.cli import run_property

    base = tempfile.mkdtemp(prefix="hwsweep.", dir="/var/tmp")
    res = {"file": rel, "op": op, "line": line}
    try:
        shutil.copytree("/repo/src", os.path.join(base, "src"), ignore=shutil.ignore_patterns("__pycache__"))
        os.symlink("/repo/tests", os.path.join(base, "tests"))
        shutil.copy("/repo/pyproject.toml", base)
        path = os.path.join(base, "src", "haiway", rel)
        with open(path, encoding="utf-8") as fh:
            old = fh.read()
        with open(path, "w", encoding="utf-8") as fh:
            fh.write(new)
        import difflib

        res["diff"] = [d for d in difflib.unified_diff(old.splitlines(), new.splitlines(), lineterm="", n=0)][2:][:12]
        env = dict(os.environ, PYTHONPATH=os.path.join(base, "src"), PYTHONDONTWRITEBYTECODE="1")
        try:
            p = subprocess.run([PY, "-m", "pytest", "-q", "-x", "-p", "no:cacheprovider", "--timeout=60", "tests"], cwd=base, env=env, capture_output=True, text=True, timeout=240)
            res["tests"] = p.returncode
        except subprocess.TimeoutExpired:
            res["tests"] = 124
        if res["tests"] != 0:
            return res
        fired, errors = [], []
        for pid in ALL:
            buf = io.StringIO()
            with redirect_stdout(buf):
                rc = run_property(pid, base, "quick", evidence_dir=os.path.join(base, "ev"), quiet=True)
            if rc == 1:
                fired.append(pid)
            elif rc == 2:
                errors.append(pid)
        res["fired"], res["errors"] = fired, errors
    finally:
        shutil.rmtree(base, ignore_errors=True)
    return res


def main() -> int:
    ap = argparse.ArgumentParser()
    ap.add_argument("--files", default=",".join(DEFAULT_FILES))
    ap.add_argument("--jobs", type=int, default=16)
    ap.add_argument("--out", default="/var/tmp/sweep.json")
    ap.add_argument("--limit", type=int, default=0)
    a = ap.parse_args()
    jobs = []
    for rel in a.files.split(","):
        with open(os.path.join("/repo/src/haiway", rel), encoding="utf-8") as fh:
            src = fh.read()
        ms = mutants_of(src)
        print(f"{rel}: {len(ms)} mutants", flush=True)
        jobs += [(rel, op, ln, new) for op, ln, new in ms]
    if a.limit:
        jobs = jobs[: a.limit]
    with Pool(a.jobs) as pool:
        results = pool.map(evaluate, jobs, chunksize=4)
    killed_by_tests = [r for r in results if r["tests"] != 0]
    alive = [r for r in results if r["tests"] == 0]
    caught = [r for r in alive if r.get("fired")]
    errs = [r for r in alive if not r.get("fired") and r.get("errors")]
    surv = [r for r in alive if not r.get("fired") and not r.get("errors")]
    print(f"{len(results)} mutants: {len(killed_by_tests)} killed by the test-suite, {len(alive)} pass the tests; of those {len(caught)} reported by a check, {len(errs)} analysis-error only, {len(surv)} survive")
    with open(a.out, "w") as fh:
        json.dump({"caught": caught, "analysis_error": errs, "survivors": surv, "killed_by_tests": len(killed_by_tests)}, fh, indent=1)
    return 0


if __name__ == "__main__":
    sys.exit(main())
