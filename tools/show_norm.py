#!/venv/bin/python
"""Development aid: print the normalised source of functions after applying a seeded/benign patch to a scratch copy.
usage: show_norm.py <dir with patch.diff | -> <function short name> [...]"""
from __future__ import annotations

import ast
import os
import shutil
import subprocess
import sys
import tempfile

VERIF = os.path.dirname(os.path.dirname(os.path.abspath(__file__)))
sys.path.insert(0, VERIF)


def main() -> None:
    from hwverif.engine import Analysis

    d = sys.argv[1]
    base = tempfile.mkdtemp(prefix="hwshow.", dir="/var/tmp")
    try:
        shutil.copytree("/repo/src", os.path.join(base, "src"))
        if d != "-":
            subprocess.run(["patch", "-p1", "-s", "-f", "-d", base, "-i", os.path.abspath(os.path.join(d, "patch.diff"))], check=True)
        an = Analysis(base)
        print("absorbed:", sorted(an.prog.absorbed))
        for name in sys.argv[2:]:
            f = an.prog.fn(name)
            print(f"---- {f.qualname}")
            print(ast.unparse(f.node))
    finally:
        shutil.rmtree(base, ignore_errors=True)


if __name__ == "__main__":
    main()
