#!/venv/bin/python
"""Copies what a round of independent sub-agents left in their scratch worktrees into /verif/seeded and /verif/benign.

usage: collect_round.py <round> <break-worktree-prefix> <benign-worktree-prefix>
  e.g. collect_round.py 5 /tmp/w5_ /tmp/b5_
Seeded changes get the next free m<k> per property, refactors the next free r<k>; nothing is confirmed here
(tools/confirm_seeded.py and tools/eval_benign.py do that).
"""

from __future__ import annotations

import json
import os
import re
import shutil
import sys

VERIF = os.path.dirname(os.path.dirname(os.path.abspath(__file__)))


def next_index(root: str, pid: str, letter: str) -> int:
    used = [int(m.group(1)) for n in os.listdir(root) if (m := re.fullmatch(rf"{pid}_{letter}(\d+)", n))]
    return max(used, default=0) + 1


def main() -> int:
    rnd, wpre, bpre = int(sys.argv[1]), sys.argv[2], sys.argv[3]
    for i in range(1, 21):
        pid = f"C{i:02d}"
        for pre, sub, root, letter, script in ((wpre, "mutations", "seeded", "m", "demo.py"), (bpre, "refactors", "benign", "r", "check.py")):
            src_root = os.path.join(pre + pid, sub)
            if not os.path.isdir(src_root):
                continue
            for n in sorted(os.listdir(src_root)):
                d = os.path.join(src_root, n)
                if not (os.path.isfile(os.path.join(d, "patch.diff")) and os.path.getsize(os.path.join(d, "patch.diff")) > 0):
                    continue
                if not os.path.isfile(os.path.join(d, script)):
                    alt = [f for f in os.listdir(d) if f.endswith(".py")]
                    if not alt:
                        print(f"skip {d}: no {script}")
                        continue
                    shutil.copy(os.path.join(d, alt[0]), os.path.join(d, script))
                already = False
                for e in os.listdir(os.path.join(VERIF, root)):
                    mp = os.path.join(VERIF, root, e, "meta.json")
                    if e.startswith(pid + "_") and os.path.isfile(mp):
                        m = json.load(open(mp))
                        already = already or (m.get("round") == rnd and m.get("origin") == f"{sub}/{n}")
                if already:
                    continue
                k = next_index(os.path.join(VERIF, root), pid, letter)
                dst = os.path.join(VERIF, root, f"{pid}_{letter}{k}")
                os.makedirs(dst)
                for f in ("patch.diff", script, "notes.md"):
                    if os.path.isfile(os.path.join(d, f)):
                        shutil.copy(os.path.join(d, f), os.path.join(dst, f))
                json.dump({"property": pid, "round": rnd, "origin": f"{sub}/{n}"}, open(os.path.join(dst, "meta.json"), "w"), indent=1)
                print("collected", dst)
    return 0


if __name__ == "__main__":
    sys.exit(main())
