#!/venv/bin/python
"""Rewrites the compact catch matrix between the CATCH-MATRIX markers of DESIGN.md from seeded/CATCH_MATRIX.md."""
from __future__ import annotations

import os
import re

VERIF = os.path.dirname(os.path.dirname(os.path.abspath(__file__)))


def main() -> None:
    rows = []
    for ln in open(os.path.join(VERIF, "seeded", "CATCH_MATRIX.md"), encoding="utf-8"):
        m = re.match(r"\| (C\d\d_m\d+) \| (C\d\d) \| ([^|]*) \| ([^|]*) \| ([^|]*) \|", ln)
        if m:
            rows.append(m.groups())
    by_prop: dict[str, list[str]] = {}
    for name, prop, files, what, rules in rows:
        parts = [p.strip() for p in rules.split(";")]
        own = [p for p in parts if p.startswith(prop + ":")]
        other = [p.split(":")[0] for p in parts if not p.startswith(prop + ":")]
        own_txt = own[0].split(":", 1)[1].strip().replace(prop + ".", ".") if own else "**not by own check**"
        by_prop.setdefault(prop, []).append(f"{name[4:]} → {own_txt}" + (f" (+{','.join(other)})" if other else ""))
    out = ["| property | seeded change → rules of the property's own check that report it (+ other checks that also fire) |", "|---|---|"]
    for prop in sorted(by_prop):
        out.append(f"| {prop} | " + "; ".join(by_prop[prop]) + " |")
    out.append("")
    out.append(f"{len(rows)} seeded changes; rule ids are abbreviated (`.4` = `{'{'}property{'}'}.4`).")
    p = os.path.join(VERIF, "DESIGN.md")
    s = open(p, encoding="utf-8").read()
    a, b = s.index("<!-- CATCH-MATRIX-BEGIN -->"), s.index("<!-- CATCH-MATRIX-END -->")
    s = s[: a + len("<!-- CATCH-MATRIX-BEGIN -->")] + "\n" + "\n".join(out) + "\n" + s[b:]
    open(p, "w", encoding="utf-8").write(s)
    print(f"{len(rows)} rows written into DESIGN.md")


if __name__ == "__main__":
    main()
