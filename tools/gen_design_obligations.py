#!/venv/bin/python
"""Rewrites the per-property obligation list between the OBLIGATIONS markers of DESIGN.md from evidence/*.json
(so the list is exactly what the checks evaluated on the last run)."""
from __future__ import annotations

import glob
import json
import os

VERIF = os.path.dirname(os.path.dirname(os.path.abspath(__file__)))


def main() -> None:
    out = []
    total = 0
    for f in sorted(glob.glob(os.path.join(VERIF, "evidence", "C??.json"))):
        e = json.load(open(f))
        cov = e["coverage"]
        out.append(f"**{e['property_id']}** - {cov['obligations']} obligations, {cov['evaluations']} constructs inspected")
        out.append("")
        for s in cov["samples"]:
            total += 1
            rule = s["rule"].replace("\n", " ")
            out.append(f"* `{s['obligation']}` [{s['kind']}; {s['instances']} instance(s)] {rule}")
        out.append("")
    p = os.path.join(VERIF, "DESIGN.md")
    s = open(p, encoding="utf-8").read()
    a, b = s.index("<!-- OBLIGATIONS-BEGIN -->"), s.index("<!-- OBLIGATIONS-END -->")
    s = s[: a + len("<!-- OBLIGATIONS-BEGIN -->")] + "\n" + "\n".join(out) + "\n" + s[b:]
    open(p, "w", encoding="utf-8").write(s)
    print(f"{total} obligations written into DESIGN.md")


if __name__ == "__main__":
    main()
