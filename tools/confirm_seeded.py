#!/venv/bin/python
"""Confirms every /verif/seeded/*/ whose meta.json is not yet confirmed and writes meta.json.

For each: scratch clone of /repo HEAD under /var/tmp (removed afterwards); demo.py passes on the clean clone,
patch.diff applies, the pinned suite passes with it, demo.py fails with it.
"""

from __future__ import annotations

import json
import os
import sys
from multiprocessing import Pool

VERIF = os.path.dirname(os.path.dirname(os.path.abspath(__file__)))
sys.path.insert(0, VERIF)
sys.path.insert(0, os.path.join(VERIF, "tools"))
from eval_seeded import confirm  # noqa: E402


def one(name: str) -> tuple[str, dict]:
    d = os.path.join(VERIF, "seeded", name)
    return name, confirm(d)


def main() -> int:
    root = os.path.join(VERIF, "seeded")
    todo = []
    for n in sorted(os.listdir(root)):
        mp = os.path.join(root, n, "meta.json")
        if not os.path.exists(os.path.join(root, n, "patch.diff")):
            continue
        meta = json.load(open(mp)) if os.path.exists(mp) else {}
        if not meta.get("confirmed") or "--all" in sys.argv:
            todo.append(n)
    bad = 0
    with Pool(8) as pool:
        for name, r in pool.imap_unordered(one, todo):
            d = os.path.join(root, name)
            mp = os.path.join(d, "meta.json")
            meta = json.load(open(mp)) if os.path.exists(mp) else {}
            notes = os.path.join(d, "notes.md")
            meta.update(
                {
                    "property": meta.get("property") or name.split("_")[0],
                    "source": "independent sub-agent given only the property text and a private scratch worktree (nothing from /verif)",
                    "needs_to_manifest": open(notes, encoding="utf-8").read() if os.path.exists(notes) else "",
                    "what_was_run": "tools/eval_seeded.py confirm: scratch clone of /repo HEAD under /var/tmp (removed afterwards); demo.py on the clean clone, git apply patch.diff, pinned pytest suite, demo.py again",
                    "confirmation": {
                        "demo_passes_on_clean_tree": r.get("demo_clean_exit") == 0,
                        "patch_applies": r.get("applies"),
                        "pinned_suite_passes_with_patch": r.get("suite_exit") == 0,
                        "suite_tail": r.get("suite_tail"),
                        "demo_fails_with_patch": r.get("demo_mutated_exit") not in (0, None),
                    },
                    "confirmed": bool(r.get("confirmed")),
                }
            )
            json.dump(meta, open(mp, "w"), indent=1)
            print(("confirmed " if meta["confirmed"] else "NOT-CONFIRMED ") + name, meta["confirmation"], flush=True)
            bad += not meta["confirmed"]
    return 1 if bad else 0


if __name__ == "__main__":
    sys.exit(main())
