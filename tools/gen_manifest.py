#!/venv/bin/python
"""Regenerates /verif/MANIFEST.json from the table below (run after adding a property module)."""

from __future__ import annotations

import json
import os
import sys

VERIF = os.path.dirname(os.path.dirname(os.path.abspath(__file__)))
sys.path.insert(0, VERIF)

PY = "/venv/bin/python"

# property -> (technique, level text, level note)
CLAIMS: dict[str, tuple[str, str, str]] = {}


def claim(pid: str, technique: str, text: str, note: str) -> None:
    CLAIMS[pid] = (technique, text, note)


from tools.manifest_claims import register  # noqa: E402

register(claim)

PENDING_REASON = "check not built yet in this session (planned: structural obligations per DESIGN.md section 4)"


def _with_current_obligations(pid: str, text: str) -> str:
    """Replace the design-time `Obligations Cxx.a-Cxx.b` range by the ids evaluated on the last run (from the evidence)."""
    import re

    ev = os.path.join(VERIF, "evidence", f"{pid}.json")
    if not os.path.exists(ev):
        return text
    ids = [s["obligation"] for s in json.load(open(ev))["coverage"]["samples"]]
    listing = f"Obligations as evaluated: {', '.join(ids)} (rule texts: DESIGN.md 8.5 and the evidence file)."
    new, n = re.subn(r"(Structural obligations|Obligations) C\d\d\.\d+[a-z]?\s*-\s*C\d\d\.\d+[a-z]?\.?", listing, text)
    return new if n else text.rstrip() + " " + listing


def main() -> None:
    checks = []
    na = []
    for i in range(1, 21):
        pid = f"C{i:02d}"
        if pid in CLAIMS and os.path.exists(os.path.join(VERIF, "hwverif", "props", f"{pid.lower()}.py")):
            technique, text, note = CLAIMS[pid]
            text = _with_current_obligations(pid, text)
            checks.append(
                {
                    "property_id": pid,
                    "quick_cmd": f"{PY} -m hwverif.cli check {pid} --tier quick",
                    "thorough_cmd": f"{PY} -m hwverif.cli check {pid} --tier thorough",
                    "evidence_file": f"/verif/evidence/{pid}.json",
                    "replay_cmd_template": f"{PY} -m hwverif.cli replay {{path}}",
                    "engine": "hwverif",
                    "level_claimed": {"category": "other", "text": text, "design_ref": f"DESIGN.md section 4 ({pid}) and section 8.5"},
                    "level_note": note,
                    "technique": technique,
                }
            )
        else:
            na.append({"property_id": pid, "reason": PENDING_REASON})
    manifest = {
        "version": 1,
        "setup_cmd": "true",
        "hooks": {
            "guard": "HAIWAY_VERIF",
            "enable": "no hooks: the checks read the source of /repo's working tree and never build or run it",
            "baseline_off_cmd": "cd /repo && /venv/bin/python -m pytest -ra -q -p no:cacheprovider --timeout=900 --continue-on-collection-errors",
            "source_commits": [],
            "add_only": True,
        },
        "engines": [
            {
                "name": "hwverif",
                "path": "/verif/hwverif",
                "serves_properties": [c["property_id"] for c in checks],
                "kind_free_text": "repository-specific static analyser (python ast): annotation-driven callee resolution, per-function CFGs with exceptional edges and finally duplication, must-pass / dominance / atomicity / ordering path queries, handler classification, dependency closure, merge-order and linear-form domains; stdlib only, run under /venv/bin/python 3.12",
            }
        ],
        "checks": checks,
        "notes": "Static analysis only: no check imports or executes haiway. Exit 2 + 'ANALYSIS-ERROR' means the analysis could not be carried out (vanished anchor, unparsable file); it is neither a pass nor a violation. Known findings: /verif/KNOWN_FINDINGS.txt.",
        "not_applicable": na,
    }
    with open(os.path.join(VERIF, "MANIFEST.json"), "w", encoding="utf-8") as fh:
        json.dump(manifest, fh, indent=1)
        fh.write("\n")
    print(f"MANIFEST.json: {len(checks)} checks, {len(na)} not_applicable")


if __name__ == "__main__":
    main()
