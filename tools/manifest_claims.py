"""Per-property claim texts for MANIFEST.json (what is decided, what is not)."""


def register(claim) -> None:
    claim(
        "C02",
        "CFG must-pass-through with exceptional edges + ContextVar who-may-call scan",
        "Decides, for every path (normal, exceptional, cancellation at any await) of the scope enter/exit functions, that each "
        "context variable is reset with the token taken on enter and that every cleanup step is attempted; a universal claim over "
        "paths that a test can only sample. Structural obligations C02.1-C02.6.",
        "Trusts contextvars token semantics and Python's with/async-with protocol. Does not decide which exception object wins when "
        "a cleanup step itself fails.",
    )
    claim(
        "C06",
        "CFG must-pass / ordering queries + who-may-bind scan of the task-group ContextVar + argument forwarding",
        "Decides the structural clauses behind structured concurrency: spawn routing (group vs detached fallback only on LookupError), the "
        "asyncio.TaskGroup exit awaited on every path of the scope exit with the body's exception forwarded (so children are cancelled, not "
        "awaited forever), the group entered before it is published, only __aenter__ binding it. Obligations C06.1-C06.6.",
        "Trusts asyncio.TaskGroup.__aexit__ to wait for / cancel its members and to terminate; does not explore schedules.",
    )
    claim(
        "C07",
        "exception-handler classification over all handlers (effective caught sets) + abstract evaluation of the cancellation guards",
        "Decides that no handler in the package that can catch CancelledError swallows, masks or converts it (all 25+ handlers classified by "
        "CFG exit kind), that check_cancellation raises exactly for cancelling() > 0 (guards evaluated for cancelling() in {0,1,2}, with "
        "Task.cancelled()/done() known constant-False for the running task), that ctx.cancel cancels the current task, and that the body's "
        "exception reaches TaskGroup.__aexit__. Obligations C07.1-C07.4.",
        "Trusts asyncio cancellation semantics (API_FACT 1); user code catching CancelledError is outside the property.",
    )
    claim(
        "C09",
        "single-site who-may-resolve scan + CFG dominance under abstract scenarios + inter-procedural assert preconditions",
        "Decides the termination-detection invariant: one resolution site of the completion future guarded by finished && all nested "
        "completed, re-evaluated on own finish and on every nested completion (upward notification), callee-assert preconditions established "
        "by every caller, no registration under a completed parent, time frozen after completion. Obligations C09.1-C09.9.",
        "Trusts Future single-resolution and the loop eventually running done-callbacks (liveness of scheduling is not analysed).",
    )
    claim(
        "C16",
        "CFG must-pass with exceptional edges over the three callback closures + value-origin analysis",
        "Decides that the timeout wrapper registers all three callbacks before its first await, that the completion callback resolves the "
        "result future on every path including every exception Task.result() can raise (BaseException / cancelled), that the timer is "
        "cancelled, that the result callback cancels the task unconditionally and the timer callback sets TimeoutError only on a pending "
        "future. Obligations C16.1-C16.6.",
        "Deadline precision (wall clock) is not decided; loop.call_later and done-callback delivery are trusted.",
    )
    claim(
        "C17",
        "who-may-mutate table on the deque + CFG path counting (linearity) + scenario-pruned reachability per queue state",
        "All AsyncQueue methods but __anext__ are synchronous (atomic on the loop) and __anext__ has one suspension point, so structural "
        "obligations cover every interleaving with a single consumer: FIFO operation table, exactly-one delivery of `element` and one extend "
        "per enqueue path, finished-guard before any mutation, receive ladder buffer -> reason -> wait, finish-once, and re-buffering of an "
        "element handed to a receive that is cancelled before waking. Obligations C17.1-C17.6.",
        "Single consumer (documented precondition). Trusts deque and Future semantics (API_FACT 8).",
    )
    claim(
        "C20",
        "all-paths return/raise analysis of the metaclass and dunder hooks + package-wide identity-comparison scan + reduce-protocol table",
        "Decides essentially the whole property: metaclass __call__ returns the cached instance on all paths, copy/deepcopy/pickle are routed "
        "to the singleton through __reduce__ (API_FACT 3), __bool__/__eq__/attribute hooks have the required all-paths behaviour, every "
        "comparison with MISSING in the package is by identity, predicates and the Missing validator evaluated under both scenarios, single "
        "instantiation site. Obligations C20.1-C20.5.",
        "Trusts the copy/pickle protocol description of CPython 3.12.",
    )
    claim(
        "C01",
        "merge-order abstract domain + scenario-pruned CFG reachability of the lookup ladder + whole-package write scan + argument forwarding",
        "Lookup is a pure function of the installed ScopeState, which is only ever built by updated() as [parent values..., new values...] keyed by "
        "exact type; the obligations decide that construction order, the three-way lookup ladder under all presence/default scenarios, the "
        "MissingState/MissingContext conversions, immutability of ScopeState after construction, merging of disposables' state and the public "
        "plumbing. By induction over nesting depth they imply the statement for every scope tree. Obligations C01.1-C01.8.",
        "Trusts dict ordering / later-key-wins and contextvars. Ordering between direct state and disposables' state of the same type is unspecified.",
    )
    claim(
        "C03",
        "who-may-touch scans (ContextVar objects, ScopeState writes, globals/class attributes) + task-creation context argument check",
        "Non-interference by construction: tasks can influence each other's lookups only through a shared mutable object or a shared Context. "
        "The obligations decide that the ContextVars are the only channel and are used only via get/set/reset in their owning class, that "
        "ScopeState is immutable and copy-on-write, that no module/class-level state is written in haiway.context, and that every task is "
        "started in a fresh context copy. This covers every interleaving at once. Obligations C03.1-C03.5.",
        "Trusts contextvars / asyncio task-context semantics (API_FACT 11).",
    )
    claim(
        "C12",
        "sibling cross-check of the four cache call forms: key-construction dataflow, scenario-pruned CFG reachability with a concrete clock/size valuation, who-may-touch scan of the entry store",
        "Decides the LRU/expiry invariants for all four siblings: typed key from all arguments (+receiver), function called with exactly the key's "
        "arguments, hit path = unexpired test -> move_to_end -> return (never the function), expired = delete + miss path (never the stale value), "
        "miss path = store then evict oldest exactly when len exceeds limit, expiry stamps monotonic()+expiration. With OrderedDict semantics these "
        "imply the behaviour over all histories. Obligations C12.1-C12.7; C12.6 (receiver identity) is a recorded known finding.",
        "Trusts OrderedDict and functools._make_key. Expiry at exact real-time boundaries is not decided.",
    )
    claim(
        "C13",
        "atomic-section query (no suspension node on any lookup->store path) + value-origin dataflow of the stored task + await-operand discipline",
        "On a single-threaded loop a task is descheduled only at a suspension point, so 'no await between lookup and store of the Task' proves for "
        "every schedule that concurrent callers share one invocation; 'every await is shield(task)' and 'nothing in the module cancels' prove that a "
        "leaving waiter, expiry or eviction never harms the invocation or other waiters. Obligations C13.1-C13.4.",
        "Trusts asyncio.shield / Task semantics.",
    )
    claim(
        "C08",
        "faithful-comprehension (fan-out) shape analysis + abstract evaluation of the error guards over len in {0,1,2} + CFG must-pass for roll-back",
        "Decides that the enter/exit fan-outs cover every disposable exactly once with the body's exception details, that both gathers observe "
        "every outcome (return_exceptions), that collected cleanup errors are raised whenever there is at least one, that a partial enter failure "
        "exits the entered ones before raising and never lets the body run, the normalisation of yielded state and its flow into the scope. "
        "Obligations C08.1-C08.8; C08.5c (cancellation while entering concurrently) is a recorded known finding.",
        "Completion orders inside asyncio.gather are not analysed (gather awaits everything it is handed - trusted).",
    )
    claim(
        "C10",
        "try/handler coverage + escape-set summaries of the logging helpers + scenario-pruned store analysis (fold order) + who-may-touch scan of _nested",
        "Decides that recording cannot raise Exception into user code (whole body protected, handler and context logging non-raising), that a "
        "metric lands only in the ContextVar-current scope, that the per-type value is the left fold merge(previous, new) with presence tested by "
        "identity, that nested scopes are kept and folded in creation order, and that spawned tasks are awaited before the metrics scope is finished. "
        "Obligations C10.1-C10.6.",
        "Attribution under interleavings follows from ContextVar semantics (trusted); logging.Logger.log is assumed non-raising.",
    )
    claim(
        "C18",
        "argument-forwarding and value-origin dataflow on every wrapper + handler classification + wrapper-provenance scan over all public decorators",
        "Decides argument/result/exception transparency of the asynchronous, wrap_async and traced wrappers, that both executor call forms submit "
        "copy_context().run(partial(...)) taken in the call, what traced records and where (scope named after the function, arguments before, result "
        "or exception after), and that every wrapper any public decorator can return is passed through a mimic that copies name/qualname/doc/module "
        "and sets __wrapped__. Obligations C18.1-C18.6.",
        "run_in_executor really running on another thread while the loop keeps serving is trusted, not analysed.",
    )
    claim(
        "C19",
        "sibling cross-check of the eight log emissions (level constants, forwarding) + abstract evaluation of logger/trace-id selection + taint of the %-format position",
        "Decides level constants and forwarding for all eight emission sites and four ctx entry points, the root-logger fallback only on "
        "LookupError, the logger and trace-id selection chains under given/absent scenarios (nested inherits, outermost fresh), the contents of "
        "the tag, and that untrusted scope text cannot reach the %-format position unescaped when arguments are passed. Obligations C19.1-C19.6.",
        "What logging handlers do with the record is not analysed; uuid4 freshness trusted.",
    )
    claim(
        "C14",
        "sibling cross-check (sync/async): counter-bound normal form, handler classification, annotation-directed exhaustiveness of the delay match, per-arm path counting of pauses",
        "Decides the loop bound (constant init, unit step exactly once per retry, guard normal form => limit+1 calls), that the non-retry branch "
        "raises the bound exception object itself, that only `except Exception` can continue the loop (cancellation / BaseException never retried), "
        "the isinstance-over-catching test, exhaustiveness of the delay dispatch for the declared union incl. int->float promotion, exactly one "
        "pause per non-None arm and the (attempt, exception) arguments of the delay function. Obligations C14.1-C14.7.",
        "Trusts sleep primitives; user delay functions / wrapped functions may raise anything.",
    )
    claim(
        "C15",
        "lock-region containment of the window bookkeeping + linear-form normalisation of the wait and purge expressions + scenario-pruned ordering queries",
        "NARROW CLAIM: the numeric rate bound over all arrival patterns in exact time is a statement about clock values and is not decided. "
        "Decided are necessary structural conditions, each of which breaks the bound or the no-needless-delay clause when violated: bookkeeping only "
        "under the lock, the call outside it, the wait = entries[0] + period - now exactly when the window is full, a fresh start stamp after the "
        "wait and before the call, purge condition entries[0] + period <= now before the fullness test, period normalisation. Obligations C15.1-C15.5.",
        "asyncio.Lock FIFO fairness and asyncio.sleep trusted; decides these clauses, not the timing behaviour.",
    )
    claim(
        "C04",
        "all-paths-raise analysis of the attribute hooks + whole-package raw-write scan + faithful-comprehension shape of the container validators + merge-order domain for copy-on-update",
        "Decides the structural clauses of immutability: __setattr__/__delattr__ raise on every path, raw attribute writes only in State.__init__, "
        "container validators return fresh immutable containers built by comprehension (never the caller's object), updated/__replace__/copy/deepcopy "
        "rebuild through the validating constructor with later-wins merge over all attributes, unknown names ignored, equality guarded by class and "
        "over all attributes. Obligations C04.1-C04.8; C04.7 (deepcopy of a Mapping attribute) is a recorded known finding.",
        "Equality being an equivalence for all attribute values is value-level and not decided; attributes annotated Any keep whatever was passed.",
    )
    claim(
        "C05",
        "faithful-comprehension analysis (K9) of every container validator + scenario-evaluated arity guard + argument-plumbing checks of the annotation resolver",
        "NARROW CLAIM: 'construction succeeds exactly when each value conforms' is an equivalence over an infinite value space against an independent "
        "conformance relation; it is not decided. Decided are necessary structural clauses: validate-before-assign, element-wise validation without "
        "filter/split/re-key (incl. mapping .items()), the fixed-tuple arity guard, union first-match-else-raise, leaf validators returning the value "
        "itself or raising, get_args applied to annotations not origins, single-argument __class_getitem__, resolver origins covered by VALIDATORS. "
        "Obligations C05.1-C05.9.",
        "Decides these clauses, not acceptance <=> conformance.",
    )
    claim(
        "C11",
        "generator/context-manager effect analysis (transitive sets_contextvar summary) + API-fact check on Context.run + faithful-iteration shape of the wrapper",
        "Decides that no yield happens under a ContextVar-setting scope in a consumer-driven generator and that the body is driven under the "
        "creation snapshot (both are violated today and recorded as known findings with the failing scenario), and - armed - that the wrapper "
        "forwards exactly the source's items, that the stream scope encloses the whole iteration, and that snapshot and nested scope are prepared "
        "at creation time. Obligations C11.1-C11.5.",
        "Trusts contextvars / async generator semantics (API_FACT 5).",
    )
