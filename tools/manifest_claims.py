"""Per-property claim texts for MANIFEST.json (what is decided, what is not)."""


def register(claim) -> None:
    claim(
        "C02",
        "CFG must-pass-through with exceptional edges + ContextVar who-may-call scan",
        "Decides, for every path (normal, exceptional, cancellation at any await) of the scope enter/exit functions, that each "
        "context variable is reset with the token taken on enter and that every cleanup step is attempted; a universal claim over "
        "paths that a test can only sample. Structural obligations C02.1-C02.6.",
        "Trusts contextvars token semantics and Python's with/async-with protocol. Does not decide which exception object wins when "
        "a cleanup step itself fails.",
    )
