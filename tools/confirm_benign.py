#!/venv/bin/python
"""Confirms every /verif/benign/*/ whose meta.json is not yet confirmed: in a scratch clone of /repo HEAD under
/var/tmp (removed afterwards) check.py passes on the clean clone, patch.diff applies, the pinned suite passes
with it and check.py passes again.  usage: confirm_benign.py [--all] [prefix ...]"""

from __future__ import annotations

import json
import os
import shutil
import sys
from multiprocessing import Pool

VERIF = os.path.dirname(os.path.dirname(os.path.abspath(__file__)))
sys.path.insert(0, VERIF)
sys.path.insert(0, os.path.join(VERIF, "tools"))
from eval_seeded import PY, run_demo, scratch_clone, sh  # noqa: E402


def one(name: str) -> tuple[str, dict]:
    d = os.path.join(VERIF, "benign", name)
    patch, chk = os.path.join(d, "patch.diff"), os.path.join(d, "check.py")
    res: dict = {}
    base = scratch_clone()
    root = os.path.join(base, "r")
    try:
        rc, out = run_demo(chk, root)
        res["check_passes_on_clean_tree"] = rc == 0
        rc, out = sh(["git", "apply", "--check", patch], cwd=root)
        res["patch_applies"] = rc == 0
        if rc:
            res["apply_error"] = out[-300:]
            return name, res
        sh(["git", "apply", patch], cwd=root)
        env = dict(os.environ, PYTHONPATH=os.path.join(root, "src"), PYTHONDONTWRITEBYTECODE="1")
        rc, out = sh([PY, "-m", "pytest", "-q", "-p", "no:cacheprovider", "--timeout=900", "tests"], cwd=root, env=env, timeout=900)
        res["pinned_suite_passes_with_patch"] = rc == 0
        res["suite_tail"] = out.strip().splitlines()[-1] if out.strip() else ""
        rc, out = run_demo(chk, root)
        res["check_passes_with_patch"] = rc == 0
        if rc:
            res["check_tail"] = out.strip()[-300:]
    finally:
        shutil.rmtree(base, ignore_errors=True)
    return name, res


def main() -> int:
    root = os.path.join(VERIF, "benign")
    pre = [a for a in sys.argv[1:] if not a.startswith("-")]
    todo = []
    for n in sorted(os.listdir(root)):
        if not os.path.exists(os.path.join(root, n, "patch.diff")) or not os.path.exists(os.path.join(root, n, "check.py")):
            continue
        if pre and not any(n.startswith(p) for p in pre):
            continue
        mp = os.path.join(root, n, "meta.json")
        meta = json.load(open(mp)) if os.path.exists(mp) else {}
        if not meta.get("confirmed") or "--all" in sys.argv:
            todo.append(n)
    bad = 0
    with Pool(8) as pool:
        for name, r in pool.imap_unordered(one, todo):
            mp = os.path.join(root, name, "meta.json")
            meta = json.load(open(mp)) if os.path.exists(mp) else {}
            ok = all(r.get(k) for k in ("check_passes_on_clean_tree", "patch_applies", "pinned_suite_passes_with_patch", "check_passes_with_patch"))
            meta.update({"property": meta.get("property") or name.split("_")[0], "source": "independent sub-agent given only the property text and a private scratch worktree (nothing from /verif)", "confirmation": r, "confirmed": ok})
            json.dump(meta, open(mp, "w"), indent=1)
            print(("confirmed " if ok else "NOT-CONFIRMED ") + name, r, flush=True)
            bad += not ok
    return 1 if bad else 0


if __name__ == "__main__":
    sys.exit(main())
