#!/venv/bin/python
"""Runs all 20 quick checks on every behaviour-preserving refactor under /verif/benign/ (each applied to
a scratch copy of /repo's src/).  A VIOLATION here is a false alarm; exit 2 is an unrecognised idiom."""
from __future__ import annotations

import json
import os
import sys
from multiprocessing import Pool

VERIF = os.path.dirname(os.path.dirname(os.path.abspath(__file__)))
sys.path.insert(0, VERIF)
from tools.eval_seeded import ALL, check  # noqa: E402


def one(name: str) -> tuple:
    d = os.path.join(VERIF, "benign", name)
    r = check(d, ALL)
    viol = {p: v["lines"][:2] for p, v in r["results"].items() if v["exit"] == 1}
    unk = {p: v["lines"][:1] for p, v in r["results"].items() if v["exit"] == 2}
    return name, r.get("error"), viol, unk


def main() -> int:
    names = sorted(n for n in os.listdir(os.path.join(VERIF, "benign")) if os.path.exists(os.path.join(VERIF, "benign", n, "patch.diff")))
    if len(sys.argv) > 1:
        names = [n for n in names if any(n.startswith(a) for a in sys.argv[1:] if not a.startswith("-"))] if any(not a.startswith("-") for a in sys.argv[1:]) else names
    rows = []
    with Pool(14, maxtasksperchild=1) as pool:
        for row in pool.imap_unordered(one, names, chunksize=1):
            rows.append(row)
            if "--progress" in sys.argv:
                print(f"done {row[0]}", file=sys.stderr, flush=True)
    rows.sort()
    fa = un = ok = 0
    for name, err, viol, unk in rows:
        status = "FALSE-ALARM" if viol else ("unknown" if unk else "ok")
        fa += bool(viol)
        un += (not viol) and bool(unk)
        ok += (not viol) and (not unk)
        print(f"{status:<12} {name:<10} violations={sorted(viol)} analysis_errors={sorted(unk)} {err or ''}")
        if "-v" in sys.argv:
            for p, lines in {**viol, **unk}.items():
                for ln in lines:
                    print(f"      {p}: {ln[:300]}")
    print(f"{len(rows)} refactors: {ok} silent, {un} unrecognised idiom (exit 2), {fa} false alarms")
    return 0


if __name__ == "__main__":
    sys.exit(main())
