#!/venv/bin/python
"""Confirms and evaluates seeded breakages.

usage: eval_seeded.py confirm <dir with patch.diff + demo.py> [--prop CXX]
       eval_seeded.py check   <dir with patch.diff> [--props C01,C02,...]
       eval_seeded.py all     (every /verif/seeded/*/)

confirm: in a scratch clone of /repo HEAD (outside /repo and /verif, removed afterwards):
         demo passes on the clean tree, patch applies, pinned suite passes with it, demo fails with it.
check:   applies the patch to a scratch copy of src/ and runs the checks against that copy
         (equivalent to `git -C /repo apply`, run, `git -C /repo checkout -- .`, without touching /repo).
"""

from __future__ import annotations

import argparse
import io
import json
import os
import shutil
import subprocess
import sys
import tempfile
from contextlib import redirect_stdout

VERIF = os.path.dirname(os.path.dirname(os.path.abspath(__file__)))
sys.path.insert(0, VERIF)
PY = "/venv/bin/python"
ALL = [f"C{i:02d}" for i in range(1, 21)]


def sh(cmd: list[str], cwd: str | None = None, env: dict | None = None, timeout: int = 600) -> tuple[int, str]:
    p = subprocess.run(cmd, cwd=cwd, env=env, capture_output=True, text=True, timeout=timeout)
    return p.returncode, (p.stdout + p.stderr)


def scratch_clone() -> str:
    base = tempfile.mkdtemp(prefix="hwseed.", dir="/var/tmp")
    rc, out = sh(["git", "clone", "-q", "/repo", os.path.join(base, "r")])
    if rc:
        raise SystemExit(out)
    return base


def run_demo(demo: str, root: str) -> tuple[int, str]:
    env = dict(os.environ, PYTHONPATH=os.path.join(root, "src"), PYTHONDONTWRITEBYTECODE="1")
    with open(demo, encoding="utf-8") as fh:
        text = fh.read()
    is_pytest = "def test_" in text and "__main__" not in text
    try:
        if is_pytest:
            return sh([PY, "-m", "pytest", "-q", "-p", "no:cacheprovider", "--timeout=120", demo], cwd=root, env=env, timeout=300)
        return sh([PY, demo], cwd=root, env=env, timeout=300)
    except subprocess.TimeoutExpired:
        return 124, "TIMEOUT"


def confirm(d: str) -> dict:
    d = os.path.abspath(d)
    patch, demo = os.path.join(d, "patch.diff"), os.path.join(d, "demo.py")
    res: dict = {"dir": d}
    base = scratch_clone()
    root = os.path.join(base, "r")
    try:
        rc, out = run_demo(demo, root)
        res["demo_clean_exit"] = rc
        rc, out = sh(["git", "apply", "--check", patch], cwd=root)
        res["applies"] = rc == 0
        if rc:
            res["apply_error"] = out[-300:]
            return res
        sh(["git", "apply", patch], cwd=root)
        env = dict(os.environ, PYTHONPATH=os.path.join(root, "src"), PYTHONDONTWRITEBYTECODE="1")
        rc, out = sh([PY, "-m", "pytest", "-q", "-p", "no:cacheprovider", "--timeout=900", "tests"], cwd=root, env=env, timeout=900)
        res["suite_exit"] = rc
        res["suite_tail"] = out.strip().splitlines()[-1] if out.strip() else ""
        rc, out = run_demo(demo, root)
        res["demo_mutated_exit"] = rc
        res["demo_mutated_tail"] = out.strip()[-300:]
        res["confirmed"] = res["demo_clean_exit"] == 0 and res["suite_exit"] == 0 and res["demo_mutated_exit"] != 0
    finally:
        shutil.rmtree(base, ignore_errors=True)
    return res


def check(d: str, props: list[str]) -> dict:
    from hwverif.cli import run_property

    d = os.path.abspath(d)
    patch = os.path.join(d, "patch.diff")
    base = tempfile.mkdtemp(prefix="hwseedchk.", dir="/var/tmp")
    out: dict = {"dir": d, "results": {}}
    try:
        shutil.copytree("/repo/src", os.path.join(base, "src"), ignore=shutil.ignore_patterns("__pycache__"))
        rc, o = sh(["git", "apply", "--unsafe-paths", "--directory", base, patch], cwd="/")
        if rc:
            rc, o = sh(["patch", "-p1", "-s", "-f", "-d", base, "-i", patch])
        if rc:
            out["error"] = "patch does not apply: " + o[-200:]
            return out
        import signal

        def _alarm(*_):
            raise TimeoutError("check timed out")

        signal.signal(signal.SIGALRM, _alarm)
        for pid in props:
            buf = io.StringIO()
            signal.alarm(40)
            try:
                with redirect_stdout(buf):
                    rc = run_property(pid, base, "quick", evidence_dir=os.path.join(base, "ev"), quiet=True)
            except TimeoutError:
                rc = 3
                buf.write("ANALYSIS-ERROR TIMEOUT\n")
            finally:
                signal.alarm(0)
            lines = [ln.strip() for ln in buf.getvalue().splitlines() if ln.startswith("  src/") or ln.startswith("ANALYSIS-ERROR")]
            out["results"][pid] = {"exit": rc, "lines": lines[:6]}
    finally:
        shutil.rmtree(base, ignore_errors=True)
    return out


def main() -> int:
    ap = argparse.ArgumentParser()
    ap.add_argument("cmd", choices=["confirm", "check", "all"])
    ap.add_argument("dir", nargs="?")
    ap.add_argument("--props", default=",".join(ALL))
    a = ap.parse_args()
    props = a.props.split(",")
    if a.cmd == "confirm":
        print(json.dumps(confirm(a.dir), indent=1))
    elif a.cmd == "check":
        r = check(a.dir, props)
        fired = {p: v for p, v in r["results"].items() if v["exit"] != 0}
        print(json.dumps({"dir": r["dir"], "error": r.get("error"), "fired": fired}, indent=1))
    else:
        root = os.path.join(VERIF, "seeded")
        rows = []
        names = [n for n in sorted(os.listdir(root)) if os.path.exists(os.path.join(root, n, "patch.diff"))]
        from multiprocessing import Pool

        with Pool(14, maxtasksperchild=1) as pool:
            results = pool.starmap(check, [(os.path.join(root, n), props) for n in names], chunksize=1)
        for name, r in zip(names, results):
            d = os.path.join(root, name)
            meta = json.load(open(os.path.join(d, "meta.json"))) if os.path.exists(os.path.join(d, "meta.json")) else {}
            fired = sorted(p for p, v in r["results"].items() if v["exit"] == 1)
            errs = sorted(p for p, v in r["results"].items() if v["exit"] >= 2)
            target = meta.get("property")
            status = "CAUGHT" if target in fired else ("caught-by-other" if fired else "MISSED")
            rows.append((name, target, status, fired, errs))
            print(f"{status:<16} {name:<28} target={target} fired={fired} analysis_errors={errs}")
        missed = [r for r in rows if r[2] == "MISSED"]
        print(f"{len(rows)} seeded changes, {len(rows) - len(missed)} caught, {len(missed)} missed")
    return 0


if __name__ == "__main__":
    sys.exit(main())
