"""E6 - optional type-checker bridge (thorough tier only).

pyright from the repository's own environment (/venv) is run as a CLI over a scratch copy outside
/repo and /verif.  It never decides a property alone: if pyright cannot start, the result says
`unavailable` and the AST verdict stands.
"""

from __future__ import annotations

import json
import os
import re
import shutil
import subprocess
import tempfile

PYRIGHT = "/venv/bin/pyright"


def _run(cwd: str, files: list[str]) -> dict | None:
    if not os.path.exists(PYRIGHT):
        return None
    try:
        p = subprocess.run([PYRIGHT, "--outputjson", *files], cwd=cwd, capture_output=True, text=True, timeout=180)
        return json.loads(p.stdout)
    except Exception:  # noqa: BLE001
        return None


def _scratch(repo: str) -> str:
    base = tempfile.mkdtemp(prefix="hwpyright.", dir="/var/tmp")
    shutil.copytree(os.path.join(repo, "src"), os.path.join(base, "src"), ignore=shutil.ignore_patterns("__pycache__"))
    with open(os.path.join(base, "pyrightconfig.json"), "w") as fh:
        json.dump({"pythonVersion": "3.12", "typeCheckingMode": "strict", "extraPaths": ["src"], "reportDeprecated": False, "pythonPlatform": "Linux"}, fh)
    return base


WITNESS = '''from haiway import State


class Sample(State):
    x: int


s = Sample(x=1)
s.x = 2  # MUST-FAIL assign
del s.x  # MUST-FAIL delete
t = s.updated(x=2)  # MUST-PASS twin
'''


def frozen_witness(repo: str) -> dict:
    """Compile-fail witness for the type-level encoding dataclass_transform(frozen_default=True):
    assignment/deletion of a State attribute is rejected, the passing twin s.updated(x=2) is accepted."""
    base = _scratch(repo)
    try:
        path = os.path.join(base, "witness.py")
        with open(path, "w") as fh:
            fh.write(WITNESS)
        out = _run(base, ["witness.py"])
        if out is None:
            return {"pyright": "unavailable"}
        lines = WITNESS.splitlines()
        by_line: dict[int, list[str]] = {}
        for d in out.get("generalDiagnostics", []):
            if d.get("severity") == "error":
                by_line.setdefault(d["range"]["start"]["line"], []).append(d["message"].splitlines()[0][:120])
        res = {"pyright": "ok", "witness": {}}
        ok = True
        for i, ln in enumerate(lines):
            if "MUST-FAIL" in ln:
                hit = bool(by_line.get(i))
                res["witness"][ln.split("#")[1].strip()] = by_line.get(i, ["<accepted>"])[0]
                ok = ok and hit
            elif "MUST-PASS" in ln:
                hit = not by_line.get(i)
                res["witness"][ln.split("#")[1].strip()] = "accepted" if hit else by_line[i][0]
                ok = ok and hit
        res["holds"] = ok
        return res
    finally:
        shutil.rmtree(base, ignore_errors=True)


def suppression_audit(repo: str, relpath: str, pattern: str) -> dict:
    """Strip `# pyright: ignore[...]` comments of one file in a scratch copy and report the
    diagnostics matching `pattern` that the suppressions were hiding."""
    base = _scratch(repo)
    try:
        path = os.path.join(base, relpath)
        with open(path, encoding="utf-8") as fh:
            text = fh.read()
        stripped, n = re.subn(r"\s*# pyright: ignore(\[[^\]]*\])?", "", text)
        with open(path, "w", encoding="utf-8") as fh:
            fh.write(stripped)
        out = _run(base, [relpath])
        if out is None:
            return {"pyright": "unavailable"}
        hits = []
        for d in out.get("generalDiagnostics", []):
            if re.search(pattern, d.get("message", "")):
                hits.append({"line": d["range"]["start"]["line"] + 1, "message": d["message"].splitlines()[0][:160]})
        return {"pyright": "ok", "suppressions_stripped": n, "diagnostics_total": len(out.get("generalDiagnostics", [])), "matching": hits}
    finally:
        shutil.rmtree(base, ignore_errors=True)
