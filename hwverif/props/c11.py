"""C11 - context streams run in their creation context and leave the consumer's intact."""

from __future__ import annotations

import ast

from .. import AnalysisError
from ..astutil import Deps, is_name, unwrap
from ..cfg import CFG
from ..engine import Analysis
from ..kinds import forwards_varargs, vararg_names
from ..loader import FunctionInfo, dotted, parent, stmt_text, within

ASSUMPTIONS = [
    "API_FACT 5: Context.run(f) with f a generator / async-generator function runs none of the body in that context; the body of an async generator runs in the context of whoever drives __anext__; a ContextVar set inside it and not reset before `yield` is visible to the consumer",
    "async with / async for semantics of CPython 3.12",
]

STREAM = "context.access.ctx.stream"


def sets_contextvar(an: Analysis, fi: FunctionInfo, _seen: set[str] | None = None) -> bool:
    """E3 summary: does calling fi (transitively, through resolved callees) set a ContextVar?"""
    seen = _seen if _seen is not None else set()
    if fi.qualname in seen:
        return False
    seen.add(fi.qualname)
    for n in fi.own_nodes():
        if isinstance(n, ast.Call):
            c = an.callee(fi, n)
            if c == "contextvars.ContextVar.set":
                return True
            t = an.prog.functions.get(c or "")
            if t is not None and sets_contextvar(an, t, seen):
                return True
    return False


def yields_under_contextvar_scope(an: Analysis, fi: FunctionInfo):
    """(yield node, with statement) for every yield lexically inside a with/async with whose
    manager's enter sets a ContextVar."""
    out = []
    if not fi.is_generator():
        return out
    for w in [w for w in fi.own_nodes() if isinstance(w, (ast.With, ast.AsyncWith))]:
        sets = False
        for item in w.items:
            t = an.prog.expr_type(fi, item.context_expr)
            if t is None or t.name not in an.prog.classes:
                continue
            ci = an.prog.classes[t.name]
            for mname in ("__aenter__", "__enter__"):
                m = ci.method(mname)
                if m is not None and sets_contextvar(an, m):
                    sets = True
        if sets:
            for y in [y for y in fi.own_nodes() if isinstance(y, (ast.Yield, ast.YieldFrom)) and within(y, w)]:
                out.append((y, w))
    return out


def generator_functions(an: Analysis) -> list[FunctionInfo]:
    return [f for f in an.prog.scan_functions() if f.is_generator()]


def check(an: Analysis) -> None:
    prog = an.prog
    stream = prog.fn(STREAM)
    d = Deps(prog, stream)
    gens = [f for f in stream.nested if f.is_generator()]
    binding: dict[str, ast.AST] = {}  # generator parameter -> expression passed by ctx.stream
    if not gens:
        # the wrapper may be a module-level (private) generator started through Context.run(G, ...)
        for c in [c for c in stream.own_nodes() if isinstance(c, ast.Call)]:
            cands = [a for a in c.args if isinstance(a, (ast.Name, ast.Attribute))] + ([c.func] if isinstance(c.func, ast.Name) else [])
            for a in cands:
                t = _function_named(prog, stream, a)
                if t is not None and t.is_generator() and t.module is stream.module and t not in gens:
                    gens.append(t)
                    passed = c.args[c.args.index(a) + 1 :] if a in c.args else list(c.args)
                    params = [x.arg for x in t.node.args.posonlyargs + t.node.args.args]
                    for pname, val in zip(params, passed):
                        if not isinstance(val, ast.Starred):
                            binding[pname] = val
    if len(gens) != 1:
        raise AnalysisError(f"C11: ctx.stream is expected to use one wrapping generator, found {len(gens)}")
    gen = gens[0]
    dg = Deps(prog, gen)
    g = an.cfg(gen)
    nested_gen = gen.outer is stream

    def gen_origins(e: ast.AST) -> frozenset[str]:
        """origins of an expression of the generator, seen from ctx.stream (parameters mapped to what was passed)."""
        oo = set(dg.origins(e))
        out = set()
        for o in oo:
            if o.startswith("param:") and o[6:] in binding:
                out |= set(d.origins(binding[o[6:]]))
            else:
                out.add(o)
        return frozenset(out)

    # ------------------------------------------------------------------ C11.1 no yield under a ContextVar-setting scope
    ob = an.ob("C11.1", "K10", "no generator in src/haiway yields from inside a with/async with whose manager sets a ContextVar on enter while the generator object is driven by a foreign consumer (API_FACT 5)")
    all_gens = generator_functions(an)
    for f in all_gens:
        ob.inst(f, None, "generator function")
        for y, w in yields_under_contextvar_scope(an, f):
            ob.fail(f, parent(y) if isinstance(parent(y), ast.Expr) else y, "between items the consumer runs with the stream's scope variables (state, metrics scope, task group) installed in *its* context, and keeps them after an early break until aclose", construct="yield <item> inside `async with <stream scope>`", at=(stream.qualname if f is gen else None))
    if not all_gens:
        raise AnalysisError("C11.1: no generator function found in the package (confirmed: 1)")

    # ------------------------------------------------------------------ C11.2 body driven under the snapshot
    ob = an.ob("C11.2", "K10", "the generator body is *driven* under the creation-time snapshot (its own task created with context=snapshot, or every step through snapshot.run); `snapshot.run(<generator function>)` alone only creates the generator object there")
    runs = [c for c in stream.own_nodes() if isinstance(c, ast.Call) and an.callee(stream, c) == "contextvars.Context.run"]
    for c in runs:
        ob.inst(stream, c)
        a = c.args[0] if c.args else None
        target = next((nf for nf in stream.nested if isinstance(a, ast.Name) and nf.name == a.id), None) or (_function_named(prog, stream, a) if a is not None else None)
        if target is not None and (target.is_generator() or target.is_async):
            ob.fail(stream, c, "Context.run on a generator/coroutine function executes none of its body in the snapshot: the stream body observes the state current where it is *consumed*, not where it was created", construct="<snapshot>.run(<generator function>)")
    driven = [c for c in stream.all_nodes() if isinstance(c, ast.Call) and isinstance(c.func, ast.Attribute) and c.func.attr == "create_task" and any(k.arg == "context" for k in c.keywords)]
    if not runs and not driven:
        ob.fail(stream, None, "the stream body is not tied to the creation-time context at all")

    # ------------------------------------------------------------------ C11.3 items forwarded faithfully
    ob = an.ob("C11.3", "K9", "the wrapper yields exactly the loop variable of `async for <item> in source(*args, **kwargs)`, unfiltered, once per item", [STREAM + ".generator"])
    va, kwa = vararg_names(stream)
    src_param = stream.param_names()[0]
    loops = [n for n in gen.own_nodes() if isinstance(n, ast.AsyncFor)]
    if len(loops) != 1:
        ob.fail(gen, None, f"expected one `async for` over the source, found {len(loops)}")
    for lp in loops:
        ob.inst(gen, lp)
        it = unwrap(lp.iter)
        gva, gkwa = (va, kwa) if nested_gen else vararg_names(gen)
        fwd = isinstance(it, ast.Call) and forwards_varargs(it, gva, gkwa)
        if isinstance(it, ast.Call) and not fwd and not nested_gen:
            # the collections travel as ordinary parameters of the moved generator: source(*<args of ctx.stream>, **<kwargs of ctx.stream>)
            st_ = [a_ for a_ in it.args if isinstance(a_, ast.Starred)]
            ds_ = [k for k in it.keywords if k.arg is None]
            fwd = len(it.args) == 1 and len(st_) == 1 and len(it.keywords) == 1 and len(ds_) == 1 and gen_origins(st_[0].value) == {f"param:{va}"} and gen_origins(ds_[0].value) == {f"param:{kwa}"}
        if not (isinstance(it, ast.Call) and isinstance(it.func, ast.Name) and gen_origins(it.func) == {f"param:{src_param}"} and fwd):
            ob.fail(gen, lp, "the wrapper does not iterate source(*args, **kwargs)")
        ys = [y for y in gen.own_nodes() if isinstance(y, ast.Yield)]
        inside = [y for y in ys if within(y, lp)]
        if len(ys) != 1 or len(inside) != 1:
            ob.fail(gen, lp, f"{len(ys)} yield(s), {len(inside)} inside the loop: items are added, duplicated or dropped")
        for y in inside:
            if not (isinstance(lp.target, ast.Name) and is_name(y.value, lp.target.id)):
                ob.fail(gen, y, "what is yielded is not the source's item itself")
            guards = [p for p in _anc(y) if isinstance(p, (ast.If, ast.Try, ast.Match, ast.While, ast.For)) and within(p, lp) and p is not lp]
            if guards:
                ob.fail(gen, guards[0], "items are filtered / conditionally dropped inside the stream wrapper")
        if lp.orelse:
            ob.fail(gen, lp, "extra behaviour after exhaustion of the source")
    allowed = {"for-iter", "with-enter", "with-exit", "yield", "reraise"}
    for n in g.nodes:
        if n.raises and n.kind not in allowed:
            if n.kind == "call" and loops and n.ast is unwrap(loops[0].iter):
                continue
            if n.kind == "stmt" and isinstance(n.ast, (ast.Assign, ast.AnnAssign)):
                continue
            ob.fail(gen, n.ast or n.stmt, "an extra raising operation inside the stream wrapper can end the stream with an outcome that is not the generator's own (items / end / exception must be exactly the source's)")
    hs = [h for h in gen.own_nodes() if isinstance(h, ast.ExceptHandler)]
    for h in hs:
        ob.fail(gen, h, "the wrapper intercepts the source's exception: the consumer must see the generator's own error")

    # ------------------------------------------------------------------ C11.4 the streaming scope wraps the whole iteration
    ob = an.ob("C11.4", "K1", "the stream's scope (`async with <nested ScopeContext>`) encloses the whole iteration: it is exited on exhaustion, error and aclose", [STREAM + ".generator"])
    sctx = prog.cls("context.access.ScopeContext").qualname
    withs = [w for w in gen.own_nodes() if isinstance(w, ast.AsyncWith) and any((t := prog.expr_type(gen, i.context_expr)) is not None and t.name == sctx for i in w.items)]
    if len(withs) != 1:
        ob.fail(gen, None, f"expected the iteration to run inside one `async with <ScopeContext>`, found {len(withs)}")
    for w in withs:
        ob.inst(gen, w)
        for lp in loops:
            if not within(lp, w):
                ob.fail(gen, lp, "the source is iterated outside the stream's scope: its completion fires before the stream ended / metrics land elsewhere")
        cm = w.items[0].context_expr
        oo = gen_origins(cm)
        if not any("ctx.scope" in o or o.endswith("ScopeContext") for o in oo):
            ob.fail(gen, w, "the scope entered is not the nested scope prepared when the stream was created")
    body = [s for s in gen.node.body if not (isinstance(s, ast.Expr) and isinstance(s.value, ast.Constant)) and not isinstance(s, (ast.Pass, ast.AnnAssign if False else ast.Pass))]
    # a trailing plain `return` (the generator just ends) and bare annotations are not work
    body = [s for s in body if not (isinstance(s, ast.Return) and s.value is None) and not (isinstance(s, ast.AnnAssign) and s.value is None)]
    if len(body) != 1 or not withs or body[0] is not withs[0]:
        ob.fail(gen, body[0] if body else None, "the generator does work outside its scope")

    # ------------------------------------------------------------------ C11.6-8 leaving the stream's scope (end, error, cancellation, aclose) restores the consumer's variables
    _borrowed(an)

    # ------------------------------------------------------------------ C11.5 snapshot and scope prepared at creation time
    ob = an.ob("C11.5", "K5", "ctx.stream takes copy_context() and builds the nested scope (named after the source) when called - before returning the iterator - and returns the wrapper", [STREAM])
    snaps = [c for c in stream.own_nodes() if isinstance(c, ast.Call) and an.callee(stream, c) == "contextvars.copy_context"]
    scopes = [c for c in stream.own_nodes() if isinstance(c, ast.Call) and an.callee(stream, c) in ("haiway.context.access.ctx.scope", sctx)]  # ctx.scope(...) or the ScopeContext it builds
    if not snaps:
        ob.fail(stream, None, "no context snapshot is taken when the stream is created")
    if len(scopes) != 1:
        ob.fail(stream, None, f"the nested scope is built {len(scopes)} times at creation (expected once; building it lazily inside the generator would register it under the *consumer's* scope)")
    for c in snaps + scopes:
        ob.inst(stream, c)
    for c in scopes:
        a0 = c.args[0] if c.args else next((k.value for k in c.keywords if k.arg == "name"), None)
        a = unwrap(d.inline(a0)) if a0 is not None else None
        ok = isinstance(a, ast.Call) and is_name(a.func, "getattr") and len(a.args) == 3 and is_name(a.args[0], src_param) and isinstance(a.args[1], ast.Constant) and a.args[1].value == "__name__"
        if not ok:
            ob.fail(stream, c, "the stream scope is not named after the source generator")
        # the stream's scope supplies no state and no disposables of its own: it is entered in the *consumer's* context and stays
        # entered between items - anything it supplied would sit on top of the consumer's own state while the stream is open
        extra_state = [x for x in c.args[1:]] + [k for k in c.keywords if k.arg in ("state", "disposables") and not (isinstance(k.value, ast.Constant) and k.value.value is None) and not (isinstance(k.value, ast.Tuple) and not k.value.elts)]
        if an.callee(stream, c) == "haiway.context.access.ctx.scope" and extra_state:
            ob.fail(stream, c, "the stream's scope is given state / disposables: entered in the consumer's context, it overrides what the consumer sees between items")
    rets = [r for r in stream.own_nodes() if isinstance(r, ast.Return)]
    for r in rets:
        ob.inst(stream, r)
        v = unwrap(r.value)
        for _hop in range(3):
            if isinstance(v, ast.Name) and (sv_ := Deps(prog, stream).single_value(v.id)) is not None:
                v = unwrap(sv_)  # held in a local before it is returned
        ok = isinstance(v, ast.Call) and ((v in runs and v.args and (is_name(v.args[0], gen.name) or _function_named(prog, stream, v.args[0]) is gen)) or is_name(v.func, gen.name) or _function_named(prog, stream, v.func) is gen)
        if ok and not nested_gen:
            # the varargs of ctx.stream must be forwarded to the moved generator (starred, or as two ordinary arguments - checked at the source call in C11.3)
            star = [a_ for a_ in v.args if isinstance(a_, ast.Starred)]
            starred = len(star) == 1 and is_name(star[0].value, va or "") and any(k.arg is None and is_name(k.value, kwa or "") for k in v.keywords)
            plain = any(is_name(x, va or "") for x in binding.values()) and any(is_name(x, kwa or "") for x in binding.values())
            ok = starred or plain
        if not ok:
            ob.fail(stream, r, "ctx.stream does not return the wrapping generator")
    if not rets:
        ob.fail(stream, None, "ctx.stream returns nothing")


def _borrowed(an: Analysis) -> None:
    from ..engine import borrow
    from . import c02

    borrow(an, c02.check, {"C02.3": "C11.6", "C02.7": "C11.7", "C02.1": "C11.8"})
    from . import c03

    # C03.6: a scope's state is resolved where the scope is *entered*: a stream's scope is built where the stream is created and
    # entered where it is consumed - resolved at construction, the creator's state would be installed over the consumer's between items
    borrow(an, c03.check, {"C03.6": "C11.9"})
    from . import c18

    # C18.1: a function that takes the caller's *args / **kwargs next to named parameters of its own (the stream body moved to a
    # module-level function taking `scope, source, *args, **kwargs`) must take its own ones positional-only - otherwise a generator
    # called with a keyword of that name fails with TypeError instead of yielding its items
    borrow(an, c18.check, {"C18.1": "C11.10"}, keep=lambda f: "context.access" in f.at)


def _anc(n: ast.AST):
    from ..loader import ancestors

    return ancestors(n)


def _function_named(prog, fi: FunctionInfo, e: ast.AST) -> FunctionInfo | None:
    """The haiway function a bare reference (`name` / `Class.name` / `module.name`) denotes."""
    if isinstance(e, ast.Name):
        return prog.functions.get(prog.resolve_global(fi.module, e.id) or "")
    if isinstance(e, ast.Attribute) and isinstance(e.value, ast.Name):
        base = prog.resolve_global(fi.module, e.value.id)
        if base is None and fi.cls is not None and e.value.id in ("cls", "self", fi.cls.name):
            base = fi.cls.qualname
        return prog.functions.get(f"{base}.{e.attr}") if base else None
    return None
