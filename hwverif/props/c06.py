"""C06 - structured concurrency: spawned tasks never outlive their scope."""

from __future__ import annotations

import ast

from .. import AnalysisError
from ..astutil import Deps, is_name, unwrap
from ..cfg import CFG
from ..engine import Analysis
from ..kinds import arg_for, call_nodes, calls_to, forwards_varargs, normal_only, param_positions, q, strict, strict_but, token_assert, token_assert_for, vararg_names
from ..loader import within as within_
from ..loader import dotted, parent, stmt_text
from . import c02

ASSUMPTIONS = [
    "asyncio.TaskGroup.__aexit__ waits for all member tasks and cancels them when given an exception (trusted, not analysed)",
    "a task created by TaskGroup.create_task is a member of that group",
]

TGC = "context.tasks.TaskGroupContext"
GROUP_EXIT = "asyncio.TaskGroup.__aexit__"
GROUP_ENTER = "asyncio.TaskGroup.__aenter__"


def check(an: Analysis) -> None:
    prog = an.prog
    run = prog.fn(f"{TGC}.run")
    g = an.cfg(run)
    deps = Deps(prog, run)

    # ------------------------------------------------------------------ C06.1 spawn routing
    ob = an.ob(
        "C06.1",
        "K2+K5",
        "TaskGroupContext.run creates the task in the group read from the context variable; the detached loop.create_task is "
        "reachable only through the LookupError handler; both receive function(*args, **kwargs) and the created task is returned",
        [f"{TGC}.run"],
    )
    grouped = call_nodes(an, g, "asyncio.TaskGroup.create_task")
    detached = call_nodes(an, g, "asyncio.AbstractEventLoop.create_task")
    fn_param = param_positions(run)[0] if param_positions(run) else None
    va, kwa = vararg_names(run)
    if not grouped:
        ob.fail(run, None, "no task is created in the current task group")
    if not detached:
        ob.fail(run, None, "no detached fallback: outside any scope a spawn must yield a detached running task")
    for n in grouped:
        ob.inst(run, n.ast, "group create_task")
        recv = n.ast.func.value  # type: ignore[union-attr]
        if "call:contextvars.ContextVar.get" not in deps.origins(recv):
            ob.fail(run, n.ast, "the task group is not the one read from the context variable")
        else:
            gets = [c for c in ast.walk(recv) if isinstance(c, ast.Call) and an.callee(run, c) == "contextvars.ContextVar.get"]
            for c in gets:
                if c02.contextvar_owner(an, run, c.func.value) != prog.cls(TGC).qualname:  # type: ignore[union-attr]
                    ob.fail(run, n.ast, "the group is read from a different context variable")
    lookup_handlers = [n for n in g.nodes if n.kind == "handler" and set(g.handler_classes(n.ast)) <= {"LookupError", "KeyError"}]  # type: ignore[arg-type]
    for n in detached:
        ob.inst(run, n.ast, "detached create_task")
        w = g.ordered(lambda x: x in lookup_handlers, lambda x: x is n)
        if w is not None:
            ob.fail(run, n.ast, "detached task creation is reachable without a failed lookup of the current task group", CFG.show_path(w))
    for n in grouped + detached:
        call: ast.Call = n.ast  # type: ignore[assignment]
        coro = call.args[0] if call.args else None
        if isinstance(coro, ast.Name) and (sv_ := deps.single_value(coro.id)) is not None:
            coro = sv_  # `coroutine = function(*args, **kwargs)` built just before (e.g. by an inlined helper)
        if not (
            isinstance(coro, ast.Call)
            and fn_param is not None
            and is_name(coro.func, fn_param)
            and forwards_varargs(coro, va, kwa)
        ):
            ob.fail(run, call, f"the task does not run {fn_param}(*{va}, **{kwa})")
        p = parent(call)
        if not isinstance(p, ast.Return):
            # allow `task = ...create_task(...); return task`
            ok = False
            if isinstance(p, (ast.Assign, ast.AnnAssign)):
                tgt = p.targets[0] if isinstance(p, ast.Assign) else p.target
                if isinstance(tgt, ast.Name):
                    ok = any(isinstance(r, ast.Return) and is_name(r.value, tgt.id) for r in run.own_nodes())
            if not ok:
                ob.fail(run, call, "the created task is not returned to the caller")
    spawn = prog.fn("context.access.ctx.spawn")
    sc = calls_to(an, spawn, q(f"{TGC}.run"))
    sva, skw = vararg_names(spawn)
    sp = param_positions(spawn, skip_self=False)
    if not sc:
        ob.fail(spawn, None, "ctx.spawn does not go through TaskGroupContext.run")
    for c in sc:
        ob.inst(spawn, c, "ctx.spawn")
        if not (forwards_varargs(c, sva, skw, [lambda a: is_name(a, sp[0])]) and isinstance(parent(c), ast.Return)):
            ob.fail(spawn, c, "ctx.spawn does not forward (function, *args, **kwargs) / return the task")

    # ------------------------------------------------------------------ C06.2 group exit awaited
    aexit = prog.fn(f"{TGC}.__aexit__")
    ga = an.cfg(aexit)
    ob = an.ob("C06.2", "K1", "every path of TaskGroupContext.__aexit__ awaits self._group.__aexit__ (token assert exempt)", [f"{TGC}.__aexit__"])
    gx = call_nodes(an, ga, GROUP_EXIT)
    if not gx:
        ob.fail(aexit, None, "TaskGroupContext.__aexit__ never exits the asyncio.TaskGroup")
    else:
        for n in gx:
            ob.inst(aexit, n.ast)
            if not isinstance(parent(n.ast), ast.Await):
                ob.fail(aexit, n.ast, "TaskGroup.__aexit__ coroutine is created but not awaited")
            if dotted(n.ast.func.value) != "self._group":  # type: ignore[union-attr]
                ob.fail(aexit, n.ast, "exits a task group other than self._group")
        w = ga.must_pass(lambda n: n in gx, raising=strict_but(token_assert_for(prog, aexit)))
        if w is not None:
            ob.fail(aexit, gx[0].ast, "a path leaves TaskGroupContext.__aexit__ without awaiting the task group", CFG.show_path(w))

    # ------------------------------------------------------------------ C06.3 body exception forwarded to the group
    ob = an.ob(
        "C06.3",
        "K5",
        "the body's exc_type/exc_val/exc_tb reach TaskGroup.__aexit__(et, exc, tb): a failed or cancelled body cancels the children instead of waiting for them",
        [f"{TGC}.__aexit__", "context.access.ScopeContext.__aexit__"],
    )
    own = param_positions(aexit)
    for n in gx:
        c: ast.Call = n.ast  # type: ignore[assignment]
        ob.inst(aexit, c)
        for i, name in enumerate(("et", "exc", "tb")):
            a = arg_for(c, i, name)
            if i >= len(own) or not is_name(a, own[i]):
                ob.fail(aexit, c, f"TaskGroup.__aexit__ receives {stmt_text(a) if a is not None else 'nothing'} for `{name}` instead of {own[i] if i < len(own) else '?'}")
    saexit = prog.fn("context.access.ScopeContext.__aexit__")
    sown = param_positions(saexit)
    scs = calls_to(an, saexit, c02.G_EXIT)
    for c in scs:
        ob.inst(saexit, c)
        cp = param_positions(prog.functions[c02.G_EXIT])
        problem = c02.exc_triple_problem(an, saexit, c, cp, sown)
        if problem:
            ob.fail(saexit, c, "task group exit " + problem)

    # ------------------------------------------------------------------ C06.4 group exit on every scope exit path
    ob = an.ob("C06.4", "K1 strict", "ScopeContext.__aexit__ attempts the task group exit on every path (also after a failing disposables exit)", ["context.access.ScopeContext.__aexit__"])
    c02._must_attempt(an, ob, saexit, {"task group exit": c02.G_EXIT})

    # ------------------------------------------------------------------ C06.7 disposables are exited while the group is still current
    ob = an.ob("C06.7", "K1 order", "ScopeContext.__aexit__ attempts Disposables.__aexit__ before TaskGroupContext.__aexit__ on every path: a task spawned by a disposable's cleanup must land in (and be joined by) this scope's group", ["context.access.ScopeContext.__aexit__"])
    gsa = an.cfg(saexit)
    dxn = call_nodes(an, gsa, c02.D_EXIT)
    gxn = call_nodes(an, gsa, c02.G_EXIT)
    if dxn and gxn:
        ob.inst(saexit, dxn[0].ast)
        ob.inst(saexit, gxn[0].ast)

        def skipnone(a, b, lab):
            return a.kind == "test" and c02.none_edge(a.ast, "_disposables") == lab

        w = gsa.search([gsa.entry], lambda n: n in gxn, skip_node=lambda n: n in dxn, skip_edge=skipnone)
        if w is not None:
            ob.fail(saexit, gxn[0].ast, "with disposables present the task group is joined (and un-published) before the disposables are exited: tasks their cleanup spawns escape the scope", CFG.show_path(w))
    else:
        ob.fail(saexit, None, "disposables exit / task group exit not found")

    # ------------------------------------------------------------------ C06.8 a failing / cancelled disposables exit aborts the children
    ob = an.ob(
        "C06.8",
        "K5 exceptional paths",
        "when Disposables.__aexit__ raises or is cancelled while the scope is being left, the task group exit reached on that path receives that exception (re-bound from the handler) - given the body's (possibly None) details the group would wait for blocked children instead of cancelling them and a cancelled task hangs",
        ["context.access.ScopeContext.__aexit__"],
    )
    dx_aw = [n for n in gsa.nodes if n.kind == "await" and isinstance(n.ast.value, ast.Call) and an.callee(saexit, n.ast.value) == c02.D_EXIT]  # type: ignore[union-attr]
    if dx_aw and gxn:
        gpos = param_positions(prog.functions[c02.G_EXIT])
        for gx_ in gxn:
            a_val = arg_for(gx_.ast, 1, gpos[1])  # type: ignore[arg-type]
            starts = [t for d0 in dx_aw for t in d0.out("exc")]
            if not starts or gsa.search(starts, lambda n, gx_=gx_: n is gx_, include_start=True) is None:
                continue  # this copy of the group exit is not reached after a failing disposables exit
            ob.inst(saexit, gx_.ast, "group exit reached after a failing disposables exit")
            if not isinstance(a_val, ast.Name):
                ob.fail(saexit, gx_.ast, "the task group exit does not receive the exception raised by the disposables exit")
                continue
            handlers = [h for h in saexit.own_nodes() if isinstance(h, ast.ExceptHandler) and h.name]
            if any(within_(gx_.ast, h) and h.name == a_val.id for h in handlers):
                continue  # called inside the handler with the caught exception itself

            def rebinding(n, name=a_val.id) -> bool:
                if n.kind != "stmt" or not isinstance(n.ast, (ast.Assign, ast.AnnAssign)) or getattr(n.ast, "value", None) is None:
                    return False
                h = next((h for h in handlers if within_(n.ast, h)), None)
                if h is None:
                    return False
                tgts = n.ast.targets if isinstance(n.ast, ast.Assign) else [n.ast.target]
                flat = [x for t in tgts for x in (t.elts if isinstance(t, (ast.Tuple, ast.List)) else [t])]
                vals = n.ast.value.elts if isinstance(n.ast.value, (ast.Tuple, ast.List)) and len(flat) == len(n.ast.value.elts) else [n.ast.value] * len(flat)
                return any(is_name(t, name) and is_name(v, h.name) for t, v in zip(flat, vals))

            w = gsa.search(starts, lambda n, gx_=gx_: n is gx_, skip_node=rebinding, include_start=True)
            if w is not None:
                ob.fail(saexit, gx_.ast, "after Disposables.__aexit__ raised (or was cancelled) the task group is exited with the body's exception details: for a body that ended normally the group waits for its tasks instead of cancelling them - a task cancelled while a disposable closes hangs on a blocked child", CFG.show_path([dx_aw[0]] + w))
    elif not gxn:
        ob.fail(saexit, None, "task group exit not found")

    # ------------------------------------------------------------------ C06.5 only __aenter__ binds the group
    ob = an.ob("C06.5", "K3", "TaskGroupContext._context.set occurs only in TaskGroupContext.__aenter__ and binds self._group (sync scopes / updates never rebind the group)")
    tq = prog.cls(TGC).qualname
    aenter = prog.fn(f"{TGC}.__aenter__")
    n_sets = 0
    for f, c, op, owner in c02.contextvar_ops(an):
        if owner == tq and op == "set":
            n_sets += 1
            ob.inst(f, c)
            if f is not aenter:
                ob.fail(f, c, "the task group context variable is bound outside TaskGroupContext.__aenter__")
            elif not (len(c.args) == 1 and dotted(c.args[0]) == "self._group"):
                ob.fail(f, c, "the context variable is bound to something else than self._group")
    if n_sets == 0:
        ob.fail(aenter, None, "TaskGroupContext.__aenter__ never binds the group")
    init = prog.fn(f"{TGC}.__init__")
    vals = prog.cls(TGC).attr_val.get("_group", [])
    from ..kinds import constructed_attr_values

    def fresh_group(v: ast.AST | None) -> bool:
        v = unwrap(v)
        return isinstance(v, ast.Call) and an.callee(init, v) == "asyncio.TaskGroup" and not v.args and not v.keywords

    if len(vals) == 1 and fresh_group(vals[0]):
        ob.inst(init, vals[0], "fresh TaskGroup per context")
    else:
        # the group may be an optional constructor argument: what matters is what every construction site of the package gets
        sites = constructed_attr_values(an, TGC, "_group")
        if not sites:
            ob.fail(init, None, "self._group is not a fresh asyncio.TaskGroup() per context")
        for site, stored in sites:
            ob.inst(init, site, "construction site")
            if not stored or not all(fresh_group(v) for v in stored):
                ob.fail(init, site, "self._group is not a fresh asyncio.TaskGroup() per context")
    sinit = prog.fn("context.access.ScopeContext.__init__")
    svals = prog.cls("context.access.ScopeContext").attr_val.get("_task_group_context", [])
    if not (len(svals) == 1 and isinstance(svals[0], ast.Call) and an.callee(sinit, svals[0]) == tq and not svals[0].args and not svals[0].keywords):
        ob.fail(sinit, None, "ScopeContext does not own a fresh TaskGroupContext()")
    else:
        ob.inst(sinit, svals[0], "fresh TaskGroupContext per scope")

    # ------------------------------------------------------------------ C06.6 group entered before it is published
    ob = an.ob("C06.6", "K1", "TaskGroupContext.__aenter__ awaits self._group.__aenter__() before binding the context variable; ScopeContext.__aenter__ enters the task group context on every normal path", [f"{TGC}.__aenter__"])
    ge = an.cfg(aenter)
    enters = [n for n in ge.nodes if n.kind == "await" and isinstance(n.ast.value, ast.Call) and an.callee(aenter, n.ast.value) == GROUP_ENTER]  # type: ignore[union-attr]
    sets = call_nodes(an, ge, "contextvars.ContextVar.set")
    if not enters:
        ob.fail(aenter, None, "the asyncio.TaskGroup is never entered")
    for n in enters:
        ob.inst(aenter, n.ast)
    if enters and sets:
        w = ge.ordered(lambda n: n in enters, lambda n: n in sets)
        if w is not None:
            ob.fail(aenter, sets[0].ast, "the group is published in the context variable before it was entered", CFG.show_path(w))
    saenter = prog.fn("context.access.ScopeContext.__aenter__")
    gs = an.cfg(saenter)
    ent = [n for n in gs.nodes if n.kind == "await" and isinstance(n.ast.value, ast.Call) and an.callee(saenter, n.ast.value) == c02.G_ENTER]  # type: ignore[union-attr]
    if not ent:
        ob.fail(saenter, None, "ScopeContext.__aenter__ never (awaits) enters its task group context")
    else:
        ob.inst(saenter, ent[0].ast)
        w = gs.must_pass(lambda n: n in ent, exits=("exit-return",), skip_edge=normal_only)
        if w is not None:
            ob.fail(saenter, ent[0].ast, "a normal path through ScopeContext.__aenter__ does not enter the task group", CFG.show_path(w))
        # the scope's own group must be current while its disposables are being entered: what they spawn belongs to this scope
        den = [n for n in gs.nodes if n.kind == "await" and isinstance(n.ast.value, ast.Call) and an.callee(saenter, n.ast.value) == c02.D_ENTER]  # type: ignore[union-attr]
        if den:
            ob.inst(saenter, den[0].ast, "disposables entered under the scope's group")
            w = gs.search([gs.entry], lambda n: n in den, skip_node=lambda n: n in ent)
            if w is not None:
                ob.fail(saenter, den[0].ast, "the disposables are entered before the scope's task group: a task a disposable spawns while entering lands in the enclosing group (or detached) and is neither joined nor cancelled with this scope", CFG.show_path(w))


    # ------------------------------------------------------------------ C06.9 the group variable is restored on every exit path (a later spawn lands in the enclosing group / detached)
    _borrowed_c02(an)


def _borrowed_c02(an: Analysis) -> None:
    from ..engine import borrow
    from . import c02

    borrow(an, c02.check, {"C02.1": "C06.9"}, keep=lambda f: "TaskGroupContext" in f.at or "TaskGroupContext" in f.message)
    # C02.4: a scope whose entering fails after its task group was entered leaves that group again - otherwise the group stays
    # current for the caller: tasks spawned afterwards join a group nobody ever waits for (or cancels)
    borrow(an, c02.check, {"C02.4": "C06.10"})
