"""C04 - State instances are immutable values with copy-on-update semantics."""

from __future__ import annotations

import ast

from .. import AnalysisError
from ..astutil import Deps, is_name, unwrap
from ..cfg import CFG
from ..domains import CompShape, merge_order
from ..engine import Analysis
from ..kinds import all_paths_raise, calls_to
from ..loader import FunctionInfo, dotted, parent, stmt_text

ASSUMPTIONS = [
    "tuple / frozenset / MappingProxyType over a dict nobody else references are immutable views",
    "API_FACT 4: types.MappingProxyType supports neither deepcopy nor pickle",
    "equality being an equivalence for all attribute *values* is value-level and not decided; attributes annotated Any hold whatever was passed",
]

ST = "state.structure.State"
VAL = "state.validation"
CONTAINER_VALIDATORS = [
    f"{VAL}._prepare_validator_of_set.validator",
    f"{VAL}._prepare_validator_of_sequence.validator",
    f"{VAL}._prepare_validator_of_mapping.validator",
    f"{VAL}._prepare_validator_of_tuple.validator",
    f"{VAL}._prepare_validator_of_tuple.validator#2",
]
KIND_OF_ORIGIN = {
    "tuple": "tuple", "frozenset": "set", "Set": "set", "Sequence": "sequence", "Mapping": "mapping",
    "Any": "any", "NoneType": "none", "Missing": "missing", "Literal": "literal", "type": "type", "int": "type", "str": "type",
    "Union": "union", "UnionType": "union", "Callable": "callable",
}  # fmt: skip
CONTAINER_KINDS = ("set", "sequence", "mapping", "tuple")
EXPECTED_CTOR = {"set": "frozenset", "sequence": "tuple", "mapping": "MappingProxyType", "tuple": "tuple"}


def multi_validator_names(fac: FunctionInfo) -> set[str]:
    """Locals of a factory that hold one validator per annotation argument ([attribute_validator(a) for a in ...])."""
    multi: set[str] = set()
    for n in fac.own_nodes():
        if isinstance(n, (ast.Assign, ast.AnnAssign)) and getattr(n, "value", None) is not None:
            if any(isinstance(x, (ast.ListComp, ast.GeneratorExp)) and any(isinstance(c, ast.Call) and is_name(c.func, "attribute_validator") for c in ast.walk(x.elt)) for x in ast.walk(n.value)):
                for t in n.targets if isinstance(n, ast.Assign) else [n.target]:
                    if isinstance(t, ast.Name):
                        multi.add(t.id)
    # the same list filled by a loop: `validators = []; for a in annotation.arguments: validators.append(attribute_validator(a))`
    for n in fac.own_nodes():
        if isinstance(n, ast.Call) and isinstance(n.func, ast.Attribute) and n.func.attr == "append" and isinstance(n.func.value, ast.Name) and len(n.args) == 1:
            if any(isinstance(c, ast.Call) and is_name(c.func, "attribute_validator") for c in ast.walk(n.args[0])) and any(isinstance(p_, (ast.For, ast.AsyncFor)) for p_ in _ancestors_of(n)):
                multi.add(n.func.value.id)
    return multi


def _ancestors_of(n: ast.AST):
    from ..loader import ancestors

    return ancestors(n)


def factory_closures(an: Analysis) -> dict[str, tuple[FunctionInfo, list[FunctionInfo]]]:
    """kind -> (factory, its one-parameter validator closures), discovered from the VALIDATORS table of the current
    tree (not from closure names): table key -> factory -> closures defined in it (helpers a factory delegates to are
    inlined by the normaliser, so their closures show up here too)."""
    cached = getattr(an, "_factory_closures", None)
    if cached is not None:
        return cached
    prog = an.prog
    mod = prog.module("state.validation")
    table = None
    for st in mod.tree.body:
        tgt = st.target if isinstance(st, ast.AnnAssign) else (st.targets[0] if isinstance(st, ast.Assign) else None)
        if isinstance(tgt, ast.Name) and tgt.id == "VALIDATORS" and isinstance(getattr(st, "value", None), ast.Dict):
            table = st.value
    if table is None:
        raise AnalysisError("the VALIDATORS table of haiway.state.validation was not found")
    out: dict[str, tuple[FunctionInfo, list[FunctionInfo]]] = {}
    for k, v in zip(table.keys, table.values):
        kn = (dotted(k) or "").rsplit(".", 1)[-1] if k is not None else ""
        if kn in KIND_OF_ORIGIN and isinstance(v, ast.Name) and KIND_OF_ORIGIN[kn] not in out:
            fi = prog.functions.get(f"{mod.name}.{v.id}")
            if fi is None:
                raise AnalysisError(f"VALIDATORS[{kn}] = {v.id} is not a function of haiway.state.validation")
            closures = [c for c in fi.nested if len(c.node.args.posonlyargs + c.node.args.args) == 1 and not c.node.args.vararg and not c.node.args.kwarg]
            out[KIND_OF_ORIGIN[kn]] = (fi, closures)
    missing = {k for k in out if not out[k][1]}  # (a kind absent from the table altogether is C05.8's finding)
    if missing:
        raise AnalysisError(f"validator closures not found in the factories of the kinds {sorted(missing)}")
    an._factory_closures = out  # type: ignore[attr-defined]
    return out


def container_validators(an: Analysis) -> list[tuple[str, bool, FunctionInfo]]:
    """(kind, is_fixed_tuple, closure) for every validator closure of the container factories."""
    out: list[tuple[str, bool, FunctionInfo]] = []
    for kind, (fac, closures) in factory_closures(an).items():
        if kind not in CONTAINER_KINDS:
            continue
        multi = multi_validator_names(fac)
        for c in closures:
            fixed = any(isinstance(x, ast.Name) and x.id in multi for x in c.own_nodes())
            out.append((kind, fixed, c))
    have = {(k, fx) for k, fx, _ in out}
    # a factory may hand a whole case over to another registered factory (variadic tuple -> the sequence factory):
    # that factory's closures are analysed under their own kind
    fcs_ = factory_closures(an)
    by_q = {fac_.qualname: k_ for k_, (fac_, _c) in fcs_.items()}
    for kind_, (fac_, _closures) in fcs_.items():
        if kind_ not in CONTAINER_KINDS:
            continue
        for r_ in [r_ for r_ in fac_.own_nodes() if isinstance(r_, ast.Return) and isinstance(unwrap(r_.value), ast.Call)]:
            target_kind = by_q.get(an.callee(fac_, unwrap(r_.value)) or "")
            if target_kind == "sequence" and kind_ == "tuple" and ("sequence", False) in have:
                have.add(("tuple", False))
    registered = set(fcs_)
    missing = {m for m in {("set", False), ("sequence", False), ("mapping", False), ("tuple", False), ("tuple", True)} - have if m[0] in registered}
    if missing:
        raise AnalysisError(f"container validator closures not found for {sorted(missing)}")
    return out


IMMUTABLE_CTORS = {"builtins.tuple": "tuple", "builtins.frozenset": "frozenset", "types.MappingProxyType": "MappingProxyType"}
NOT_DEEPCOPYABLE = {"MappingProxyType"}


def _own_instance_of_unrelated_class(an: Analysis, fi: FunctionInfo, call: ast.Call) -> bool:
    """`object.__setattr__(self, ...)` inside a method of a class that neither is, derives from, nor is a base of a State
    class of the package: the receiver is an instance of that class."""
    prog = an.prog
    sn = prog.self_name(fi)
    if fi.cls is None or sn is None or sn[1] or not call.args or not is_name(call.args[0], sn[0]):
        return False
    stq = prog.cls(ST).qualname
    if any(c.qualname == stq for c in prog.mro(fi.cls)):
        return False
    for c in prog.classes.values():
        m = [x.qualname for x in prog.mro(c)]
        if fi.cls.qualname in m and stq in m:
            return False
    # the name `self` is not re-bound in the method
    return not any(isinstance(x, ast.Name) and x.id == sn[0] and isinstance(x.ctx, ast.Store) for x in fi.own_nodes())


def raw_attribute_writes(an: Analysis):
    """object.__setattr__/__delattr__ calls anywhere; vars(x)[..] / x.__dict__ writes in haiway.state."""
    out = []
    for fi in an.prog.scan_functions():
        for n in fi.own_nodes():
            if isinstance(n, ast.Call):
                d = dotted(n.func)
                if d in ("object.__setattr__", "object.__delattr__", "super().__setattr__"):
                    if _own_instance_of_unrelated_class(an, fi, n):
                        continue  # a frozen helper class initialising itself: the object written is never a State
                    out.append((fi, n, d))
                elif isinstance(n.func, ast.Attribute) and n.func.attr in ("__setattr__", "__delattr__") and isinstance(n.func.value, ast.Call) and is_name(n.func.value.func, "super"):
                    out.append((fi, n, "super().__setattr__"))
                elif fi.module.name.startswith("haiway.state") and isinstance(n.func, ast.Attribute) and n.func.attr in ("update", "pop", "clear", "setdefault", "__setitem__"):
                    base = n.func.value
                    if (isinstance(base, ast.Call) and is_name(base.func, "vars")) or (isinstance(base, ast.Attribute) and base.attr == "__dict__"):
                        out.append((fi, n, "instance dict mutation"))
            elif fi.module.name.startswith("haiway.state") and isinstance(n, (ast.Assign, ast.AugAssign, ast.Delete)):
                tg = n.targets if isinstance(n, (ast.Assign, ast.Delete)) else [n.target]
                for t in tg:
                    if isinstance(t, ast.Subscript):
                        base = t.value
                        if (isinstance(base, ast.Call) and is_name(base.func, "vars")) or (isinstance(base, ast.Attribute) and base.attr == "__dict__"):
                            out.append((fi, n, "instance dict item store"))
    return out


def is_kwarg_lookup(fi: FunctionInfo, deps: Deps, e: ast.AST | None, kwn: str, key: str, _depth: int = 0) -> bool:
    """e denotes `<kwn>[<key>] if present else MISSING` in one of the equivalent spellings:
    kwn.get(key, MISSING);  kwn[key] if key in kwn else MISSING;  a local bound by
    `try: x = kwn[key]  except KeyError: x = MISSING`  or by the if/else statement form."""
    e = unwrap(e) if e is not None else None
    if e is None or _depth > 3:
        return False

    def is_missing_const(x: ast.AST) -> bool:
        return (dotted(unwrap(x)) or "").rsplit(".", 1)[-1] == "MISSING"

    def is_item(x: ast.AST) -> bool:
        x = unwrap(x)
        return isinstance(x, ast.Subscript) and is_name(x.value, kwn) and is_name(x.slice, key)

    def membership(t: ast.AST) -> bool | None:
        t = unwrap(t)
        if isinstance(t, ast.Compare) and len(t.ops) == 1 and isinstance(t.ops[0], (ast.In, ast.NotIn)) and is_name(t.left, key) and is_name(t.comparators[0], kwn):
            return isinstance(t.ops[0], ast.In)
        return None

    if isinstance(e, ast.Call) and isinstance(e.func, ast.Attribute) and e.func.attr == "get" and is_name(e.func.value, kwn) and len(e.args) == 2 and not e.keywords:
        return is_name(e.args[0], key) and is_missing_const(e.args[1])
    if isinstance(e, ast.IfExp):
        m = membership(e.test)
        if m is None:
            return False
        present, absent = (e.body, e.orelse) if m else (e.orelse, e.body)
        return is_item(present) and is_missing_const(absent)
    if isinstance(e, ast.Name):
        owner = deps.owner(e.id)
        if owner is not fi:
            return False
        defs = [n for k, n in deps.defs(owner, e.id) if k == "value"]
        stmts = [parent(n) if not isinstance(n, ast.stmt) else n for n in defs]
        vals = [unwrap(getattr(st, "value", None)) for st in stmts]
        if len(vals) == 1 and vals[0] is not None:
            return is_kwarg_lookup(fi, deps, vals[0], kwn, key, _depth + 1)
        if len(vals) == 2 and all(v is not None for v in vals):
            item = [st for st, v in zip(stmts, vals) if is_item(v)]
            miss = [st for st, v in zip(stmts, vals) if is_missing_const(v)]
            if len(item) == 1 and len(miss) == 1:
                pi, pm = parent(item[0]), parent(miss[0])
                # try: x = kw[key]  except KeyError/LookupError: x = MISSING   (nothing else in the try body)
                if isinstance(pm, ast.ExceptHandler) and isinstance(pi, ast.Try) and pm in pi.handlers and pi.body == [item[0]] and pm.body == [miss[0]] and not pi.orelse and not pi.finalbody:
                    classes = {(dotted(t) or "").rsplit(".", 1)[-1] for t in ([pm.type] if not isinstance(pm.type, ast.Tuple) else pm.type.elts)} if pm.type is not None else set()
                    return classes <= {"KeyError", "LookupError"} and bool(classes)
                # if key in kw: x = kw[key]  else: x = MISSING
                if isinstance(pi, ast.If) and pi is pm:
                    m = membership(pi.test)
                    if m is not None:
                        present, absent = (pi.body, pi.orelse) if m else (pi.orelse, pi.body)
                        return present == [item[0]] and absent == [miss[0]]
        return False
    return False


def conversion(an: Analysis, fi: FunctionInfo, r: ast.Return) -> tuple[str | None, CompShape | None, str]:
    """(immutable constructor name, comprehension, problem) of a validator return value."""
    v = unwrap(r.value)
    if not isinstance(v, ast.Call):
        return None, None, "returns something that is not a fresh immutable container"
    ctor = IMMUTABLE_CTORS.get(an.callee(fi, v) or "")
    if ctor is None or len(v.args) != 1 or v.keywords:
        return None, None, "returns something that is not tuple(...)/frozenset(...)/MappingProxyType(...)"
    inner = unwrap(v.args[0])
    sh = CompShape(inner)
    if not sh.ok and isinstance(inner, ast.Name):
        # a local accumulator filled by one loop (`acc = {}; for ...: acc[k] = v`) is the comprehension it is equivalent to
        from ..domains import comp_of

        sh = comp_of(Deps(an.prog, fi), inner) or sh
    if not sh.ok:
        return ctor, None, f"{ctor}(...) is applied to `{stmt_text(inner, 60)}` - not a fresh comprehension over the validated elements (a view over the caller's own container stays mutable from outside)"
    if ctor == "MappingProxyType" and not sh.is_dict:
        return ctor, sh, "MappingProxyType is not built over a fresh dict comprehension"
    return ctor, sh, ""


def check(an: Analysis) -> None:
    prog = an.prog
    st = prog.cls(ST)

    # ------------------------------------------------------------------ C04.1 attribute hooks
    ob = an.ob("C04.1", "K8", "State.__setattr__ and State.__delattr__ raise AttributeError on every path", [f"{ST}.__setattr__", f"{ST}.__delattr__"])
    for name in ("__setattr__", "__delattr__"):
        m = st.method(name)
        if m is None:
            ob.fail(None, st.node, f"State.{name} is not defined: attributes can be {'assigned' if name == '__setattr__' else 'deleted'}", mod=st.module, at=st.qualname)
            continue
        ob.inst(m, None, name)
        ok, why = all_paths_raise(an.cfg(m), {"AttributeError"})
        if not ok:
            ob.fail(m, None, f"{name} does not reject the modification on every path ({why})")

    # type-level encoding: dataclass_transform(frozen_default=True) on the metaclass
    meta = prog.cls("state.structure.StateMeta")
    deco = next((d for d in meta.node.decorator_list if isinstance(d, ast.Call) and (dotted(d.func) or "").endswith("dataclass_transform")), None)
    fz = next((k.value for k in deco.keywords if k.arg == "frozen_default"), None) if deco is not None else None
    ob.inst(None, deco, "dataclass_transform") if deco is not None else None
    if not (isinstance(fz, ast.Constant) and fz.value is True):
        ob.fail(None, deco or meta.node, "StateMeta is not declared dataclass_transform(frozen_default=True): type checkers no longer reject `state.x = ...`", mod=meta.module, at=meta.qualname)

    # ------------------------------------------------------------------ C04.2 raw writes only in __init__
    ob = an.ob("C04.2", "K3", "object.__setattr__/__delattr__ (and instance-dict writes in haiway.state) occur only in State.__init__")
    init = prog.fn(f"{ST}.__init__")
    ws = raw_attribute_writes(an)
    if not any(fi is init for fi, n, w in ws):
        ob.fail(init, None, "State.__init__ no longer stores attributes through object.__setattr__")
    for fi, n, what in ws:
        ob.inst(fi, n, what)
        if fi is not init:
            ob.fail(fi, n, f"{what} outside State.__init__: a constructed State can be modified behind the immutability hooks")

    # ------------------------------------------------------------------ C04.3 container validators return fresh immutable containers
    ob = an.ob("C04.3", "K9", "every normal return of the set / sequence / mapping / tuple validators is tuple(..)/frozenset(..)/MappingProxyType(<fresh dict comprehension>) built by a comprehension - never the input object or a view over it", CONTAINER_VALIDATORS)
    produced: dict[str, tuple[FunctionInfo, ast.Return, str]] = {}
    cvs = container_validators(an)
    for kind, _fixed, f in cvs:
        rets = [r for r in f.own_nodes() if isinstance(r, ast.Return)]
        if not rets:
            ob.fail(f, None, "validator returns nothing")
        for r in rets:
            ob.inst(f, r)
            ctor, sh, problem = conversion(an, f, r)
            if problem:
                ob.fail(f, r, problem + ": later mutation of the argument container would show through the State")
            if ctor:
                produced.setdefault(ctor, (f, r, kind))
    for kind, _fixed, f in cvs:
        want = EXPECTED_CTOR[kind]
        for r in [r for r in f.own_nodes() if isinstance(r, ast.Return)]:
            ctor, _, problem = conversion(an, f, r)
            if not problem and ctor != want:
                ob.fail(f, r, f"the {kind} validator converts to {ctor} instead of {want}")

    # ------------------------------------------------------------------ C04.4 copy-on-update
    ob = an.ob("C04.4", "K7+K5", "State.__replace__ returns self.__class__(**{**vars(self), **kwargs}) (kwargs win, re-validated by the constructor, self untouched); updated forwards **kwargs to it", [f"{ST}.__replace__", f"{ST}.updated"])
    rep = prog.fn(f"{ST}.__replace__")
    drep = Deps(prog, rep)
    rets = [r for r in rep.own_nodes() if isinstance(r, ast.Return)]
    if not rets:
        ob.fail(rep, None, "__replace__ returns nothing")
    for r in rets:
        ob.inst(rep, r)
        v = unwrap(r.value) if r.value is not None else None
        for _hop in range(3):  # `result = self.__class__(**values); return result` (e.g. the return slot of an inlined helper)
            if isinstance(v, ast.Name) and (sv_ := drep.single_value(v.id)) is not None:
                v = unwrap(sv_)
        ok = isinstance(v, ast.Call) and dotted(v.func) in ("self.__class__", "type(self)") or (isinstance(v, ast.Call) and isinstance(v.func, ast.Call) and is_name(v.func.func, "type"))
        if not ok or v.args or len(v.keywords) != 1 or v.keywords[0].arg is not None:
            ob.fail(rep, r, "the updated copy is not rebuilt through the validating constructor self.__class__(**...)")
            continue
        order = merge_order(drep, v.keywords[0].value)
        if order is None:
            raise AnalysisError(f"C04.4: unrecognised merge `{stmt_text(v.keywords[0].value)}`")
        want = ["call:builtins.vars", f"param:{rep.node.args.kwarg.arg}"]
        if order != want:
            ob.fail(rep, r, f"merge order {order}, required {want}: the named replacements must win over the current values, and every current attribute must be kept")
    for n in rep.own_nodes():
        if isinstance(n, (ast.Assign, ast.AugAssign)) and any(isinstance(t, (ast.Attribute, ast.Subscript)) for t in (n.targets if isinstance(n, ast.Assign) else [n.target])):
            ob.fail(rep, n, "__replace__ writes to an object instead of building a copy")
    upd = prog.fn(f"{ST}.updated")
    cs = calls_to(an, upd, rep.qualname)
    if not cs:
        ob.fail(upd, None, "updated does not go through __replace__")
    for r in [r for r in upd.own_nodes() if isinstance(r, ast.Return)]:
        if unwrap(r.value) not in cs:
            ob.fail(upd, r, "updated has a return path that does not rebuild through __replace__ (e.g. `return self` when values merely compare equal: replacements are neither validated nor applied)")
    for c in cs:
        ob.inst(upd, c)
        kw = upd.node.args.kwarg.arg if upd.node.args.kwarg else None
        if not (not c.args and len(c.keywords) == 1 and c.keywords[0].arg is None and is_name(c.keywords[0].value, kw or "") and isinstance(parent(c), ast.Return) and dotted(c.func.value) == "self"):  # type: ignore[union-attr]
            ob.fail(upd, c, "updated does not forward **kwargs / return the copy")

    # ------------------------------------------------------------------ C04.5 unknown names ignored, every attribute driven by __ATTRIBUTES__
    ob = an.ob("C04.5", "K2", "State.__init__ iterates __ATTRIBUTES__ and reads kwargs only through .get(name, MISSING); it never raises on unknown names", [f"{ST}.__init__"])
    kwn = init.node.args.kwarg.arg if init.node.args.kwarg else None
    if kwn is None:
        raise AnalysisError("C04.5: State.__init__(**kwargs) signature not recognised")
    loops = [n for n in init.own_nodes() if isinstance(n, ast.For)]
    if not (len(loops) == 1 and "__ATTRIBUTES__" in ast.unparse(loops[0].iter) and not [x for x in ast.walk(loops[0]) if isinstance(x, (ast.Break, ast.Continue))]):
        ob.fail(init, loops[0] if loops else None, "attributes are not initialised by one unconditional pass over __ATTRIBUTES__")
    else:
        ob.inst(init, loops[0])
    for n in init.own_nodes():
        if isinstance(n, ast.Name) and n.id == kwn and isinstance(n.ctx, ast.Load):
            p = parent(n)
            if any(isinstance(a_, ast.Assert) for a_ in _ancestors_of(n)):
                continue  # read inside an assertion (not followed, DESIGN.md section 6)
            ok = isinstance(p, ast.Attribute) and p.attr == "get" and isinstance(parent(p), ast.Call) and len(parent(p).args) == 2 and "MISSING" in (dotted(parent(p).args[1]) or "")
            # the item / membership spellings of the same lookup (whether they add up to "own name, else MISSING" is C05.1)
            ok = ok or (isinstance(p, ast.Subscript) and p.value is n and isinstance(p.ctx, ast.Load)) or (isinstance(p, ast.Compare) and len(p.ops) == 1 and isinstance(p.ops[0], (ast.In, ast.NotIn)) and p.comparators[0] is n)
            ob.inst(init, parent(p) if ok else p)
            if not ok:
                ob.fail(init, p, "kwargs is used other than looking up one attribute name (kwargs.get(name, MISSING) / kwargs[name] / name in kwargs): unknown names are no longer ignored / missing ones no longer defaulted")
        if isinstance(n, ast.Raise):
            ob.fail(init, n, "State.__init__ raises on its own (unknown names must be ignored; validation errors come from the validators)")

    # ------------------------------------------------------------------ C04.6 copy protocols rebuild through the constructor
    ob = an.ob("C04.6", "K5", "__copy__ = self.__class__(**vars(self)); __deepcopy__ = self.__class__(**{key: deepcopy(value, memo) for key, value in vars(self).items()})", [f"{ST}.__copy__", f"{ST}.__deepcopy__"])
    cp = prog.fn(f"{ST}.__copy__")
    dcp = Deps(prog, cp)
    for r in [r for r in cp.own_nodes() if isinstance(r, ast.Return)]:
        ob.inst(cp, r)
        v = unwrap(r.value) if r.value is not None else None
        for _hop in range(3):
            if isinstance(v, ast.Name) and (sv_ := dcp.single_value(v.id)) is not None:
                v = unwrap(sv_)
        if isinstance(v, ast.Call) and len(v.keywords) == 1 and v.keywords[0].arg is None and isinstance(v.keywords[0].value, ast.Name) and not dcp.contributions(cp, v.keywords[0].value.id) and (sv_ := dcp.single_value(v.keywords[0].value.id)) is not None:
            v = ast.Call(func=v.func, args=v.args, keywords=[ast.keyword(arg=None, value=sv_)])  # `values = vars(self)` passed on untouched
        ok = isinstance(v, ast.Call) and dotted(v.func) == "self.__class__" and not v.args and len(v.keywords) == 1 and v.keywords[0].arg is None
        if ok:
            kv = unwrap(v.keywords[0].value)
            while isinstance(kv, ast.Call) and ((is_name(kv.func, "dict") and len(kv.args) == 1 and not kv.keywords) or (isinstance(kv.func, ast.Attribute) and kv.func.attr == "copy" and not kv.args and not kv.keywords)):
                kv = unwrap(kv.args[0] if kv.args else kv.func.value)  # a plain copy of the attribute mapping spreads the same items
            ok = isinstance(kv, ast.Call) and is_name(kv.func, "vars") and len(kv.args) == 1 and is_name(kv.args[0], "self")
        if not ok:
            ob.fail(cp, r, "copy is not self.__class__(**vars(self)): attributes are lost or validation is bypassed")
    dc = prog.fn(f"{ST}.__deepcopy__")
    ddc = Deps(prog, dc)
    memo = dc.param_names()[1] if len(dc.param_names()) > 1 else None
    rr = [r for r in dc.own_nodes() if isinstance(r, ast.Return)]
    if not rr:
        ob.fail(dc, None, "__deepcopy__ returns nothing")
    for r in rr:
        ob.inst(dc, r)
        from ..domains import comp_of

        v = unwrap(r.value)
        if isinstance(v, ast.Name) and ddc.single_value(v.id) is not None:
            v = unwrap(ddc.single_value(v.id))
        ok = isinstance(v, ast.Call) and dotted(v.func) == "self.__class__" and not v.args and len(v.keywords) == 1 and v.keywords[0].arg is None
        if ok:
            sh = comp_of(ddc, v.keywords[0].value)
            ok = sh is not None and sh.ok and sh.is_dict and not sh.filtered
            if ok:
                it = unwrap(sh.iter)
                names = sh.target_names()
                val = unwrap(ddc.inline(sh.value))
                ok = (
                    isinstance(it, ast.Call)
                    and isinstance(it.func, ast.Attribute)
                    and it.func.attr == "items"
                    and isinstance(it.func.value, ast.Call)
                    and is_name(it.func.value.func, "vars")
                    and len(names) == 2
                    and is_name(sh.key, names[0])
                    and isinstance(val, ast.Call)
                    and an.callee(dc, val) == "copy.deepcopy"
                    and len(val.args) == 2
                    and is_name(val.args[0], names[1])
                    and is_name(val.args[1], memo or "")
                )
        if not ok:
            ob.fail(dc, r, "deep copy is not the constructor applied to deepcopy(value, memo) of every attribute")

    # ------------------------------------------------------------------ C04.7 conversions vs deepcopy support
    ob = an.ob("C04.7", "K10", "no immutable conversion type produced by the validators is un-deepcopyable unless State.__deepcopy__ dispatches on it (API_FACT 4)", CONTAINER_VALIDATORS + [f"{ST}.__deepcopy__"])
    handled = {n.id for n in ast.walk(dc.node) if isinstance(n, ast.Name)} | {n.attr for n in ast.walk(dc.node) if isinstance(n, ast.Attribute)}
    for ctor, (f, r, kind) in sorted(produced.items()):
        ob.inst(f, r, ctor)
        if ctor in NOT_DEEPCOPYABLE and ctor not in handled:
            ob.fail(f, unwrap(r.value).func, f"the validator stores a {ctor}, which copy.deepcopy cannot copy: deepcopy of any State holding a Mapping attribute raises TypeError (cannot pickle 'mappingproxy')", construct=ctor, at=f"haiway.state.validation.<{kind}-validator>")

    # ------------------------------------------------------------------ C04.8 equality
    ob = an.ob("C04.8", "K2", "State.__eq__ answers False unless the classes are related (guard on both self.__class__ and other.__class__) and otherwise compares every attribute of __ATTRIBUTES__", [f"{ST}.__eq__"])
    eq = prog.fn(f"{ST}.__eq__")
    g = an.cfg(eq)
    other = eq.param_names()[1]
    guards = [n for n in g.nodes if n.kind == "test" and {"self.__class__", f"{other}.__class__"} <= {dotted(x) for x in ast.walk(n.ast) if isinstance(x, ast.Attribute)} | {f"{x.args[0].id}.__class__" for x in ast.walk(n.ast) if isinstance(x, ast.Call) and is_name(x.func, "type") and x.args and isinstance(x.args[0], ast.Name)}]
    if not guards:
        ob.fail(eq, None, "no class guard: instances of unrelated classes with equal attributes compare equal")
    else:
        ob.inst(eq, guards[0].ast)
        falses = [n for n in g.nodes if n.kind == "return" and isinstance(n.ast.value, ast.Constant) and n.ast.value.value is False]  # type: ignore[union-attr]
        if not falses:
            ob.fail(eq, guards[0].ast, "the class guard never answers False")
    def attr_compare(c: ast.AST, key: str) -> bool:
        if not (isinstance(c, ast.Compare) and len(c.ops) == 1 and isinstance(c.ops[0], (ast.Eq, ast.NotEq))):
            return False
        deq = Deps(prog, eq)
        sides = [unwrap(deq.single_value(x.id)) if isinstance(x, ast.Name) and deq.single_value(x.id) is not None else x for x in (c.left, c.comparators[0])]
        if not all(isinstance(x, ast.Call) and is_name(x.func, "getattr") and len(x.args) >= 2 and is_name(x.args[1], key) for x in sides):
            return False
        return {sides[0].args[0].id if isinstance(sides[0].args[0], ast.Name) else "", sides[1].args[0].id if isinstance(sides[1].args[0], ast.Name) else ""} == {"self", other}

    compared = False
    for r in [r for r in eq.own_nodes() if isinstance(r, ast.Return) and not isinstance(r.value, ast.Constant)]:
        ob.inst(eq, r)
        v = unwrap(r.value)
        ok = isinstance(v, ast.Call) and is_name(v.func, "all") and v.args and isinstance(v.args[0], (ast.GeneratorExp, ast.ListComp))
        if ok:
            sh = CompShape(v.args[0])
            ok = sh.ok and not sh.filtered and "__ATTRIBUTES__" in ast.unparse(sh.iter) and len(sh.target_names()) == 1 and attr_compare(sh.elt, sh.target_names()[0]) and isinstance(sh.elt.ops[0], ast.Eq)
        if not ok:
            ob.fail(eq, r, "equality does not compare every attribute of __ATTRIBUTES__ between self and other")
        compared = compared or ok
    for lp in [n for n in eq.own_nodes() if isinstance(n, ast.For) and "__ATTRIBUTES__" in ast.unparse(n.iter) and isinstance(n.target, ast.Name)]:
        ob.inst(eq, lp)
        key = lp.target.id
        inner = [c for c in ast.walk(lp) if attr_compare(c, key)]
        early_false = [r for r in ast.walk(lp) if isinstance(r, ast.Return) and isinstance(r.value, ast.Constant) and r.value.value is False]
        skips = [x for x in ast.walk(lp) if isinstance(x, (ast.Break, ast.Continue))]
        after_true = any(isinstance(r, ast.Return) and isinstance(r.value, ast.Constant) and r.value.value is True and not any(r is x for x in ast.walk(lp)) for r in eq.own_nodes())
        if inner and early_false and after_true:  # (break / continue are judged by where the unequal outcome can lead, below)
            geq = an.cfg(eq)
            cmpn = [n for n in geq.nodes if n.kind == "test" and n.ast in inner or (n.kind == "test" and any(c in list(ast.walk(n.ast)) for c in inner))]
            compared = True
            for tn in cmpn:
                unequal_label = "F" if isinstance(inner[0].ops[0], ast.Eq) else "T"
                # `not (a == b)` is split by the CFG: the test node holds `a == b`; unequal = its F edge
                w = geq.search([t for t, lab in tn.succ if lab == unequal_label], lambda n: n.kind == "return" and isinstance(n.ast.value, ast.Constant) and n.ast.value.value is True, skip_node=lambda n: n.kind == "return" and n.ast.value is not None and isinstance(n.ast.value, ast.Constant) and n.ast.value.value is False, include_start=True)  # type: ignore[union-attr]
                if w is not None:
                    ob.fail(eq, inner[0], "an unequal attribute does not make the instances unequal", CFG.show_path(w))
    if not compared:
        ob.fail(eq, None, "equality never compares attribute values")

    # ------------------------------------------------------------------ C04.9 everything stored went through the converting validator
    # (the immutable conversion lives in the validators: a stored value that bypasses them - a default
    # returned as it is - keeps the caller's / class body's mutable container)
    from ..engine import borrow
    from . import c05

    # C05.5: which alternative of a union converts the value decides whether a container is stored in its immutable form
    # C05.14: equal specialisations of a generic State are one class (the cache): "the classes are the same" for Box[int] and Box[int]
    borrow(an, c05.check, {"C05.1": "C04.9", "C05.5": "C04.10", "C05.14": "C04.11"})


def thorough(an: Analysis, repo: str) -> dict:
    """E6: pyright compile-fail witness for the type-level encoding (with a passing twin)."""
    from ..pyright_bridge import frozen_witness

    return {"pyright_frozen_witness": frozen_witness(repo)}
