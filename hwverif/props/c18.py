"""C18 - asynchronous, wrap_async, traced are transparent and carry the caller context."""

from __future__ import annotations

import ast

from .. import AnalysisError
from ..astutil import Deps, is_name, unwrap
from ..cfg import CFG
from ..engine import Analysis
from ..kinds import both, calls_to, catches_cancellation, classify_handler, forwards_varargs, normal_only, vararg_names
from ..loader import FunctionInfo, dotted, parent, stmt_text

ASSUMPTIONS = [
    "loop.run_in_executor(executor, f, *args) runs f(*args) on an executor thread and resolves to its result / exception (trusted; thread identity and loop progress are not analysed)",
    "Context.run(f, *args) runs f with that context current and discards context changes made by f",
    "traced is analysed for __debug__ == True; without __debug__ it returns the function itself",
]

from ..kinds import Abs as _Abs

A_FUNC_ = _Abs("function", "Callable", "object")
EW = "helpers.asynchrony._ExecutorWrapper"
MIMICS = {"haiway.utils.mimic.mimic_function", "haiway.helpers.asynchrony._mimic_async"}
PUBLIC = ["asynchronous", "wrap_async", "traced", "cache", "retry", "throttle", "timeout"]
REQUIRED_ATTRS = {"__name__", "__qualname__", "__doc__", "__module__"}


def mimic_calls(an: Analysis, fi: FunctionInfo) -> list[ast.Call]:
    return [c for c in fi.own_nodes() if isinstance(c, ast.Call) and an.callee(fi, c) in MIMICS]


def check(an: Analysis) -> None:
    prog = an.prog
    helpers_all = _public_decorators(an)

    # ------------------------------------------------------------------ C18.1 arguments / result transparency
    ob = an.ob("C18.1", "K5", "every wrapper passes exactly (*args, **kwargs) (+ receiver) to the wrapped function and returns its result", [f"{EW}.__call__", f"{EW}.__method_call__", "helpers.asynchrony.wrap_async.async_function", "helpers.tracing._traced_sync.traced", "helpers.tracing._traced_async.traced"])
    # the caller's **kwargs may carry any key: forwarding them into a helper next to named parameters collides
    for f in [x for x in prog.scan_functions() if x.module.name.startswith("haiway.helpers.")]:
        va, kwa = vararg_names(f)
        if kwa is None:
            continue
        for c in [c for c in f.own_nodes() if isinstance(c, ast.Call) and any(k.arg is None and is_name(k.value, kwa) for k in c.keywords)]:
            t = prog.functions.get(an.callee(f, c) or "")
            if t is None:
                continue
            ob.inst(f, c, f"forwards **{kwa} into {t.short}")
            ta = t.node.args
            named = [p.arg for p in ta.args + ta.kwonlyargs]
            if named:
                ob.fail(f, c, f"the caller's **{kwa} are forwarded into {t.short} next to its named parameter(s) {named}: a caller keyword of that name collides (TypeError: multiple values) or is captured, and the wrapped function never sees it")
    # whoever takes the caller's **kwargs can name no other parameter: a caller keyword of that name (self, function, cls ...) collides
    n_forwarders = 0
    for f in prog.scan_functions():
        a_ = f.node.args
        if not (a_.vararg and a_.kwarg):
            continue
        n_forwarders += 1
        named = [p_.arg for p_ in a_.args + a_.kwonlyargs]
        ob.inst(f, None, "takes *args/**kwargs of a caller")
        if named:
            ob.fail(f, None, f"`{f.name}` takes the caller's **{a_.kwarg.arg} next to the named parameter(s) {named}: calling the wrapped function with a keyword of that name raises TypeError (multiple values) instead of reaching the function")
    if n_forwarders < 12:
        raise AnalysisError(f"C18.1: only {n_forwarders} *args/**kwargs forwarders found in the package (confirmed: 22)")
    # descriptor access of the asynchronous wrapper: through an instance -> bound form, through the class -> the wrapper itself
    from ..kinds import NOVALUE as _NVG
    from ..kinds import Abs as _Abs
    from ..kinds import Scenario as _ScnG

    get = prog.fn(f"{EW}.__get__")
    gg = an.cfg(get)
    dget = Deps(prog, get)
    gp = get.param_names()
    for label, inst in (("through an instance", _Abs("object", tag="instance")), ("through an instance whose truth value is False (empty container, __bool__)", _Abs("object", truthy=False, tag="instance")), ("through the class", None)):

        def base_get(e: ast.AST, inst=inst):
            if is_name(e, gp[1]):
                return inst
            if len(gp) > 2 and is_name(e, gp[2]):
                return _Abs("type", "object", tag="owner")
            return _NVG

        sc_ = _ScnG(gg, dget, base_get)
        live = [n for n in gg.nodes if n.kind == "return" and n.id in sc_.reach]
        ob.inst(get, None, f"__get__ {label}: {len(live)} return(s)")
        for r in live:
            v = unwrap(r.ast.value)  # type: ignore[union-attr]
            if inst is None and not is_name(v, gp[0]):
                ob.fail(get, r.ast, "class-level access to an asynchronous method (Class.method(obj, ...)) does not return the wrapper itself: the receiver is bound to None and the call gets one argument too many")
            if inst is not None and not (isinstance(v, ast.Call) and any(isinstance(x, ast.Attribute) and x.attr == "__method_call__" for x in ast.walk(v)) and any(is_name(x, gp[1]) for x in ast.walk(v))):
                ob.fail(get, r.ast, "an asynchronous method accessed through an instance is not bound to that instance")
    from ..kinds import holds_the_decorated_function

    holds_the_decorated_function(an, ob, EW)
    for name, is_method in ((f"{EW}.__call__", False), (f"{EW}.__method_call__", True)):
        f = prog.fn(name)
        va, kwa = vararg_names(f)
        recv = [a.arg for a in f.node.args.posonlyargs + f.node.args.args][1] if is_method else None
        parts = [c for c in f.own_nodes() if isinstance(c, ast.Call) and an.callee(f, c) == "functools.partial"]
        if len(parts) != 1:
            ob.fail(f, None, f"expected one partial(self._function, ...) in {f.name}, found {len(parts)}")
            continue
        ob.inst(f, parts[0])
        lead = [lambda a: dotted(a) == "self._function"] + ([lambda a, r=recv: is_name(a, r)] if is_method else [])
        if not forwards_varargs(parts[0], va, kwa, lead):
            ob.fail(f, parts[0], "the executor does not run self._function with exactly the caller's arguments")
        rets = [r for r in f.own_nodes() if isinstance(r, ast.Return)]
        dfn = Deps(prog, f)
        for r in rets:
            v = unwrap(r.value)
            if isinstance(v, ast.Name) and (sv := dfn.single_value(v.id)) is not None:
                v = unwrap(sv)  # `result = await ...; return result`
            if not (isinstance(v, ast.Await) and dfn.origins(v.value) == {"call:asyncio.AbstractEventLoop.run_in_executor"}):
                ob.fail(f, r, "the awaited executor result (value or exception) is not what the wrapper returns")
        if not rets:
            ob.fail(f, None, "wrapper returns nothing")
        # self._function must never be called on the loop thread
        for c in f.own_nodes():
            if isinstance(c, ast.Call) and dotted(c.func) == "self._function":
                ob.fail(f, c, "the synchronous function is called directly on the event-loop thread")
    wa = prog.fn("helpers.asynchrony.wrap_async.async_function")
    va, kwa = vararg_names(wa)
    calls = [c for c in wa.own_nodes() if isinstance(c, ast.Call) and "param:function" in Deps(prog, wa).origins(unwrap(c.func)) and c is not unwrap(c.func)]
    calls = [c for c in calls if forwards_varargs(c, va, kwa) or c.args or c.keywords]
    if len(calls) != 1:
        ob.fail(wa, None, f"wrap_async wrapper calls the function {len(calls)} times")
    for c in calls:
        ob.inst(wa, c)
        if not (forwards_varargs(c, va, kwa) and isinstance(parent(c), ast.Return)):
            ob.fail(wa, c, "wrap_async does not forward (*args, **kwargs) / return the result")
    traced_fns = [prog.fn("helpers.tracing._traced_sync.traced"), prog.fn("helpers.tracing._traced_async.traced")]
    for f in traced_fns:
        va, kwa = vararg_names(f)
        d = Deps(prog, f)
        calls = [c for c in f.own_nodes() if isinstance(c, ast.Call) and isinstance(c.func, ast.Name) and d.origins(c.func) == {"param:function"}]
        if len(calls) != 1:
            ob.fail(f, None, f"traced wrapper calls the function {len(calls)} times (must be exactly once)")
            continue
        c = calls[0]
        ob.inst(f, c)
        if not forwards_varargs(c, va, kwa):
            ob.fail(f, c, "traced does not forward (*args, **kwargs)")
        rets = [r for r in f.own_nodes() if isinstance(r, ast.Return)]
        for r in rets:
            oo = d.origins(r.value)
            if not any(o in ("call:?function",) or o.startswith("call:?function") for o in oo):
                ob.fail(f, r, "traced does not return the function's own result")
        if not rets:
            ob.fail(f, None, "traced wrapper returns nothing")
        if f.is_async and not isinstance(parent(c), ast.Await):
            ob.fail(f, c, "the traced coroutine is not awaited")

    # ------------------------------------------------------------------ C18.2 executor runs inside a copy of the caller context
    ob = an.ob("C18.2", "K12+K5", "both _ExecutorWrapper call forms submit `<copy_context() taken in this call>.run` applied to the partial: run_in_executor(self._executor, context.run, partial(...))", [f"{EW}.__call__", f"{EW}.__method_call__"])
    for name in (f"{EW}.__call__", f"{EW}.__method_call__"):
        f = prog.fn(name)
        d = Deps(prog, f)
        rc = [c for c in f.own_nodes() if isinstance(c, ast.Call) and an.callee(f, c) == "asyncio.AbstractEventLoop.run_in_executor"]
        if len(rc) != 1:
            ob.fail(f, None, f"expected one run_in_executor call, found {len(rc)}")
            continue
        c = rc[0]
        ob.inst(f, c)
        if not (c.args and dotted(c.args[0]) == "self._executor"):
            ob.fail(f, c, "the configured executor is not used")
        fn_arg = c.args[1] if len(c.args) > 1 else None
        ok = (
            len(c.args) == 3
            and isinstance(fn_arg, ast.Attribute)
            and fn_arg.attr == "run"
            and d.origins(fn_arg.value) == {"call:contextvars.copy_context"}
            and d.origins(c.args[2]) == {"call:functools.partial"}
        )
        if not ok:
            ob.fail(f, c, "the function is submitted to the executor without `copy_context().run`: it does not observe the caller's scope state (MissingContext) / could leak context changes")
        recv = unwrap(c.func.value)  # type: ignore[union-attr]
        oo = d.origins(recv)
        if not ({"attr:self._loop", "call:asyncio.get_running_loop"} >= oo and "call:asyncio.get_running_loop" in oo):
            ob.fail(f, c, "the loop used is neither the configured one nor the running loop")
        # a call leaves no trace on the wrapper: the running loop (or anything else of this call) is not remembered for later calls
        for n in f.own_nodes():
            if isinstance(n, (ast.Assign, ast.AnnAssign, ast.AugAssign)):
                for t in n.targets if isinstance(n, ast.Assign) else [n.target]:
                    root = t.value if isinstance(t, ast.Subscript) else t
                    if isinstance(root, ast.Attribute) and is_name(root.value, "self"):
                        ob.fail(f, n, f"a call stores `{stmt_text(t, 40)}` on the wrapper: what one call resolved (e.g. the running event loop) is reused by later calls made from another loop / context")

    # C18.2 continued: which loop / executor, and the dispatch of the two entry points - evaluated per situation
    from ..kinds import NOVALUE as _NVc
    from ..kinds import Abs as _AbsC
    from ..kinds import Scenario as _ScnC
    from ..kinds import eval_expr as _evalC
    from ..kinds import reduce_ifexp as _reduceC

    A_LOOP = _AbsC("AbstractEventLoop", "object", tag="configured loop")
    A_RUNNING = _AbsC("AbstractEventLoop", "object", tag="running loop")
    for name in (f"{EW}.__call__", f"{EW}.__method_call__"):
        f = prog.fn(name)
        for c in [c for c in f.own_nodes() if isinstance(c, ast.Call) and an.callee(f, c) == "asyncio.AbstractEventLoop.run_in_executor"]:
            recv = c.func.value  # type: ignore[union-attr]
            for configured in (True, False):

                def env_loop(e: ast.AST, configured=configured):
                    if dotted(e) == "self._loop":
                        return A_LOOP if configured else None
                    if isinstance(e, ast.Call) and an.callee(f, e) == "asyncio.get_running_loop":
                        return A_RUNNING
                    return _NVc

                got = _evalC(Deps(prog, f).inline(recv), env_loop)
                want = A_LOOP if configured else A_RUNNING
                if got is not want:
                    ob.fail(f, c, f"with {'a' if configured else 'no'} loop configured the call is submitted to {getattr(got, 'tag', got)!r} instead of the {'configured' if configured else 'running'} loop")
    asyn = prog.fn("helpers.asynchrony.asynchronous")
    awrap = prog.fn("helpers.asynchrony.asynchronous.wrap")
    ctor_calls = [c for c in awrap.own_nodes() if isinstance(c, ast.Call) and an.callee(awrap, c) == prog.cls(EW).qualname]
    if len(ctor_calls) != 1:
        ob.fail(awrap, None, f"asynchronous() builds {len(ctor_calls)} executor wrappers (expected one)")
    for c in ctor_calls:
        ob.inst(awrap, c)
        ex = next((k.value for k in c.keywords if k.arg == "executor"), None)
        lp_ = next((k.value for k in c.keywords if k.arg == "loop"), None)
        dwr = Deps(prog, awrap)
        if not (c.args and is_name(c.args[0], awrap.param_names()[0])):
            ob.fail(awrap, c, "the executor wrapper does not receive the decorated function")
        if lp_ is None or dwr.origins(lp_) != {"param:loop"}:
            ob.fail(awrap, c, "the configured loop is not passed on to the executor wrapper")
        A_EXEC = _AbsC("Executor", "object", tag="given executor")
        A_MISSING = _AbsC("Missing", "object", truthy=False, tag="MISSING")
        for given in (True, False):

            def env_ex(e: ast.AST, given=given):
                if is_name(e, "executor"):
                    return A_EXEC if given else A_MISSING
                if (dotted(e) or "").rsplit(".", 1)[-1] == "MISSING":
                    return A_MISSING
                return _NVc

            got = _evalC(unwrap(_reduceC(unwrap(dwr.inline(ex)), env_ex)), env_ex) if ex is not None else _NVc
            want_ex = A_EXEC if given else None
            if got is not want_ex:
                ob.fail(awrap, c, f"with {'an' if given else 'no'} executor given the wrapper gets {getattr(got, 'tag', got)!r} instead of {'that executor' if given else 'None (the loop default executor)'}")
    # decoration-time guards must let the legitimate input through (a plain function for asynchronous)
    gaw = an.cfg(awrap)
    for asrt in [a_ for a_ in awrap.own_nodes() if isinstance(a_, ast.Assert)]:
        ob.inst(awrap, asrt, "decoration-time assert")

        def env_plain(e: ast.AST):
            if isinstance(e, ast.Call) and an.callee(awrap, e) == "asyncio.iscoroutinefunction":
                return False
            return _NVc

        if _evalC(asrt.test, env_plain) is False:
            ob.fail(awrap, asrt, "the decoration-time assertion rejects a plain (non coroutine) function: asynchronous() cannot wrap anything in debug mode")
    # wrap_async: coroutine functions are returned as they are, plain ones get the async wrapper
    wa_outer = prog.fn("helpers.asynchrony.wrap_async")
    gwa = an.cfg(wa_outer)
    dwa = Deps(prog, wa_outer)
    for is_coro in (True, False):

        def env_wa(e: ast.AST, is_coro=is_coro):
            if isinstance(e, ast.Call) and an.callee(wa_outer, e) == "asyncio.iscoroutinefunction":
                return is_coro
            return _NVc

        scw = _ScnC(gwa, dwa, env_wa)
        live = [n for n in gwa.nodes if n.kind == "return" and n.id in scw.reach]
        ob.inst(wa_outer, None, f"wrap_async of a {'coroutine' if is_coro else 'plain'} function: {len(live)} return(s)")
        if not live:
            ob.fail(wa_outer, None, f"wrap_async returns nothing for a {'coroutine' if is_coro else 'plain'} function")
        for r in live:
            v = unwrap(r.ast.value)  # type: ignore[union-attr]
            oo = dwa.origins(v) if v is not None else frozenset()
            if is_coro and oo != {f"param:{wa_outer.param_names()[0]}"}:
                ob.fail(wa_outer, r.ast, "wrap_async does not return a coroutine function as it is")
            if not is_coro and not any(o.startswith("def:") for o in oo):
                ob.fail(wa_outer, r.ast, "wrap_async returns a plain function without wrapping it: the result is not awaitable")

    # ------------------------------------------------------------------ C18.3 traced preserves the exception
    ob = an.ob("C18.3", "K4", "traced: the handler around the call catches BaseException, records ResultTrace.of(exc) and re-raises the same object", [f.short for f in traced_fns])
    RT = prog.cls("helpers.tracing.ResultTrace").qualname
    AT = prog.cls("helpers.tracing.ArgumentsTrace").qualname
    for f in traced_fns:
        g = an.cfg(f)
        hs = [h for h in f.own_nodes() if isinstance(h, ast.ExceptHandler)]
        if not hs:
            ob.fail(f, None, "no handler: the failing outcome is not recorded")
        for h in hs:
            ob.inst(f, h)
            if "BaseException" not in g.handler_classes(h):
                ob.fail(f, h, "outcomes that are not Exception (cancellation, exits) are not recorded")
            for kind, node, path in classify_handler(g, h):
                if kind not in ("reraise-same", "raise-from-cleanup"):
                    ob.fail(f, h, f"the handler {kind}s: the caller does not get the function's own exception", CFG.show_path(path))
            recs = [c for c in ast.walk(h) if isinstance(c, ast.Call) and (an.callee(f, c) or "").split("#")[0] == f"{RT}.of"]
            if not (recs and h.name and all(len(c.args) == 1 and is_name(c.args[0], h.name) for c in recs)):
                ob.fail(f, h, "the exception is not recorded as ResultTrace.of(<the exception>)")

    # ------------------------------------------------------------------ C18.4 what traced records, and where
    ob = an.ob("C18.4", "K1", "traced runs inside ctx.scope(label) (label = function.__name__): ArgumentsTrace.of(*args, **kwargs) recorded before the call, ResultTrace.of(result) after it on the normal path", [f.short for f in traced_fns])
    REC = "haiway.context.access.ctx.record"
    SCOPE = "haiway.context.access.ctx.scope"
    label_params: dict[str, str] = {}
    for f in traced_fns:
        g = an.cfg(f)
        d = Deps(prog, f)
        va, kwa = vararg_names(f)
        withs = [w for w in f.own_nodes() if isinstance(w, (ast.With, ast.AsyncWith))]
        scope_with = next((w for w in withs if any(isinstance(i.context_expr, ast.Call) and an.callee(f, i.context_expr) == SCOPE for i in w.items)), None)
        if scope_with is None:
            ob.fail(f, None, "the traced call does not run inside ctx.scope(label)")
            continue
        sc = next(i.context_expr for i in scope_with.items if isinstance(i.context_expr, ast.Call) and an.callee(f, i.context_expr) == SCOPE)
        ob.inst(f, sc)
        named = unwrap(d.inline(sc.args[0])) if len(sc.args) == 1 else None
        oo_lab = d.origins(sc.args[0]) if len(sc.args) == 1 else frozenset()
        outer_params = [a.arg for a in (f.outer.node.args.posonlyargs + f.outer.node.args.args + f.outer.node.args.kwonlyargs)] if f.outer is not None else []
        lab_p = next((o[6:] for o in oo_lab if o.startswith("param:") and o[6:] in outer_params and o[6:] != "function"), None) if len(oo_lab) == 1 else None
        by_label = named is not None and lab_p is not None
        if by_label and f.outer is not None:
            label_params[f.outer.qualname] = lab_p  # whatever the factory calls the parameter that names the scope
        by_name = isinstance(named, ast.Attribute) and named.attr == "__name__" and d.origins(named.value) == {"param:function"}
        if not (by_label or by_name):
            ob.fail(f, sc, "the scope is not named by the label (the wrapped function's __name__)")
        calls = [n for n in g.nodes if n.kind == "call" and isinstance(n.ast.func, ast.Name) and d.origins(n.ast.func) == {"param:function"}]  # type: ignore[union-attr]
        argrec = [n for n in g.nodes if n.kind == "call" and an.callee(f, n.ast) == REC and n.ast.args and isinstance(n.ast.args[0], ast.Call) and (an.callee(f, n.ast.args[0]) or "").split("#")[0] == f"{AT}.of"]  # type: ignore[union-attr]
        resrec = [n for n in g.nodes if n.kind == "call" and an.callee(f, n.ast) == REC and n.ast.args and isinstance(n.ast.args[0], ast.Call) and (an.callee(f, n.ast.args[0]) or "").split("#")[0] == f"{RT}.of" and n.meta.get("handler") is None]  # type: ignore[union-attr]
        from ..loader import within

        # arguments and outcome - also a failure - are recorded *inside* the scope named after the function: a record made after
        # the scope was left lands in the caller's scope (and the function's own scope ends without an outcome)
        for rn_ in [n for n in g.nodes if n.kind == "call" and an.callee(f, n.ast) == REC]:
            if not within(rn_.ast, scope_with):
                ob.fail(f, rn_.ast, "a trace is recorded outside the function's own scope: it lands in the caller's scope")

        for n in calls + argrec + resrec:
            if not within(n.ast, scope_with):
                ob.fail(f, n.ast, "runs outside the tracing scope")
        if not argrec:
            ob.fail(f, None, "arguments are not recorded")
        else:
            ob.inst(f, argrec[0].ast)
            if not forwards_varargs(argrec[0].ast.args[0], va, kwa):  # type: ignore[union-attr]
                ob.fail(f, argrec[0].ast, "ArgumentsTrace does not receive (*args, **kwargs)")
            if calls:
                w = g.ordered(lambda n: n in argrec, lambda n: n in calls)
                if w is not None:
                    ob.fail(f, argrec[0].ast, "the function can be called before its arguments were recorded", CFG.show_path(w))
        if not resrec:
            ob.fail(f, None, "the result is not recorded on the normal path")
        elif calls:
            ob.inst(f, resrec[0].ast)
            a = resrec[0].ast.args[0].args[0] if resrec[0].ast.args[0].args else None  # type: ignore[union-attr]
            if a is None or not any(o.startswith("call:?function") for o in d.origins(a)):
                ob.fail(f, resrec[0].ast, "ResultTrace does not receive the function's result")
            succ = [t for c in calls for t, lab in c.succ if lab not in ("exc", "reraise")]
            if f.is_async:
                succ = [t for n in g.nodes if n.kind == "await" and n.ast.value is calls[0].ast for t, lab in n.succ if lab not in ("exc", "reraise")]  # type: ignore[union-attr]
            w = g.must_pass(lambda n: n in resrec, starts=succ, exits=("exit-return",), skip_edge=normal_only)
            if w is not None:
                ob.fail(f, resrec[0].ast, "a normal return path does not record the result", CFG.show_path(w))
    tr = prog.fn("helpers.tracing.traced")
    for c in [c for c in tr.own_nodes() if isinstance(c, ast.Call) and an.callee(tr, c) in (prog.fn("helpers.tracing._traced_sync").qualname, prog.fn("helpers.tracing._traced_async").qualname)]:
        ob.inst(tr, c)
        lp_name = label_params.get(an.callee(tr, c) or "", "label")
        lab = next((k.value for k in c.keywords if k.arg == lp_name), None)
        tparams_ = prog.functions[an.callee(tr, c)].param_names() if an.callee(tr, c) in prog.functions else []
        if lab is None and lp_name in tparams_ and tparams_.index(lp_name) < len(c.args):
            lab = c.args[tparams_.index(lp_name)]
        lab = Deps(prog, tr).inline(lab) if lab is not None else None
        from ..kinds import added_optional_params_env, reduce_ifexp

        lab = reduce_ifexp(lab, added_optional_params_env(tr, {"function"})) if lab is not None else None
        callee_fn = prog.functions.get(an.callee(tr, c) or "")
        if lab is None and callee_fn is not None and lp_name not in callee_fn.param_names() and c.args and is_name(c.args[0], "function"):
            continue  # the wrapper factory derives the name from the function itself (checked at its ctx.scope call)
        if not (c.args and is_name(c.args[0], "function") and isinstance(lab, ast.Attribute) and lab.attr == "__name__" and is_name(lab.value, "function")):
            ob.fail(tr, c, "traced does not name the scope after the function")

    # dispatch: in debug mode traced wraps; coroutine functions get the async wrapper, others the sync one
    gtr = an.cfg(tr)
    dtr = Deps(prog, tr)
    from ..kinds import NOVALUE as _NV2
    from ..kinds import Scenario as _Scn2

    for is_coro in (True, False):

        def base(e: ast.AST, is_coro=is_coro):
            if is_name(e, "__debug__"):
                return True
            if isinstance(e, ast.Call) and an.callee(tr, e) == "asyncio.iscoroutinefunction":
                return is_coro
            return _NV2

        sc = _Scn2(gtr, dtr, base)
        live = [n for n in gtr.nodes if n.kind == "return" and n.id in sc.reach]
        want = prog.fn("helpers.tracing._traced_async" if is_coro else "helpers.tracing._traced_sync").qualname
        for r in live:
            v = unwrap(r.ast.value)  # type: ignore[union-attr]
            if not (isinstance(v, ast.Call) and an.callee(tr, v) == want):
                ob.fail(tr, r.ast, f"in debug mode traced() does not wrap a{' coroutine' if is_coro else ' plain'} function with the {'async' if is_coro else 'sync'} tracing wrapper")
        if not live:
            ob.fail(tr, None, "traced() has no return in debug mode")
    for cname, fields in (("helpers.tracing.ArgumentsTrace", ("args", "kwargs")), ("helpers.tracing.ResultTrace", ("result",))):
        ci = prog.cls(cname)
        ofs = ci.methods.get("of", [])
        if not ofs:
            ob.fail(None, ci.node, f"{ci.name}.of is gone", mod=ci.module, at=ci.qualname)
        for of in ofs[:1]:  # the `if __debug__:` variant comes first
            for r in [r for r in of.own_nodes() if isinstance(r, ast.Return)]:
                ob.inst(of, r)
                v = unwrap(r.value)
                kws = {k.arg: k.value for k in v.keywords} if isinstance(v, ast.Call) else {}
                dof = Deps(prog, of)
                ok = isinstance(v, ast.Call) and is_name(v.func, "cls") and set(kws) == set(fields)
                if ok:
                    params = of.param_names()[1:]
                    for fld, pname in zip(fields, params):
                        if f"param:{pname}" not in dof.of(kws[fld]):
                            ok = False
                if not ok:
                    ob.fail(of, r, f"{ci.name}.of does not build the trace from what it was given (in debug mode)")
                elif ci.name == "ResultTrace":
                    # the outcome is an arbitrary object: recorded as it is also when its truth value is False (0, "", an
                    # empty container) - and never truth-tested, which an object may refuse
                    from ..kinds import Abs, reduce_ifexp

                    falsy = Abs("object", truthy=False, tag="a result whose truth value is False")
                    got = reduce_ifexp(kws["result"], lambda e, pn=params[0]: falsy if is_name(e, pn) else NOVALUE)
                    if not is_name(unwrap(got) if got is not None else None, params[0]):
                        ob.fail(of, r, "ResultTrace.of does not record a result whose truth value is False (0, False, '', an empty container): the outcome of the call is replaced by a marker (and the truth test itself may raise for objects that refuse it)")

    # ------------------------------------------------------------------ C18.5 every wrapper mimics the wrapped function
    ob = an.ob("C18.5", "K1 provenance", "every wrapper produced by the public decorators (wrapper classes storing the function; nested defs calling it; bound-method partials) is passed through mimic_function/_mimic_async(function, within=<wrapper>) or decorated with @mimic_function(function)")
    sites = 0
    helper_mods = [m for m in prog.modules.values() if m.name.startswith("haiway.helpers.")]
    for ci in prog.classes.values():
        if not ci.module.name.startswith("haiway.helpers.") or "_function" not in ci.attr_ann:
            continue
        init = ci.method("__init__")
        if init is None:
            continue
        fparam = [a.arg for a in init.node.args.posonlyargs + init.node.args.args][1]
        g = an.cfg(init)
        ms = [n for n in g.nodes if n.kind == "call" and an.callee(init, n.ast) in MIMICS]
        good = [n for n in ms if n.ast.args and is_name(n.ast.args[0], fparam) and is_name(_within(n.ast), "self")]  # type: ignore[union-attr]
        sites += 1
        ob.inst(init, good[0].ast if good else None, f"wrapper class {ci.name}")
        if not good:
            ob.fail(init, None, f"wrapper class {ci.name} does not mimic the wrapped function (name, docstring, __wrapped__ are lost)")
        else:
            w = g.must_pass(lambda n: n in good, exits=("exit-return",), skip_edge=normal_only)
            if w is not None:
                ob.fail(init, good[0].ast, "a path through __init__ skips the mimic call", CFG.show_path(w))
        get = ci.method("__get__")
        if get is not None:
            dget_ = Deps(prog, get)
            for r in [r for r in get.own_nodes() if isinstance(r, ast.Return)]:
                v = unwrap(dget_.inline(r.value)) if r.value is not None else None
                if is_name(v, "self"):
                    continue
                sites += 1
                ob.inst(get, r, "bound method form")
                ok = isinstance(v, ast.Call) and an.callee(get, v) in MIMICS and v.args and dotted(v.args[0]) == "self._function"
                if ok:
                    within_ = _within(v)
                    ok = isinstance(within_, ast.Call) and an.callee(get, within_) == "functools.partial" and len(within_.args) == 2 and dotted(within_.args[0]) == "self.__method_call__" and is_name(within_.args[1], get.param_names()[1])
                if not ok:
                    ob.fail(get, r, "the bound-method form is not mimic(self._function, within=partial(self.__method_call__, instance))")
    for fi in prog.scan_functions():
        if not fi.module.name.startswith("haiway.helpers.") or fi.cls is not None or fi.outer is None:
            continue
        outer = fi.outer
        # a nested def that calls a callable parameter of its enclosing function is a wrapper
        d = Deps(prog, fi)
        fparams = [p.arg for p in outer.params() if p.annotation is not None and "Callable" in ast.unparse(p.annotation) and p.arg in ("function", "wrapped")]
        calls_param = [c for c in fi.own_nodes() if isinstance(c, ast.Call) and any(d.origins(unwrap(c.func)) == {f"param:{p}"} for p in fparams) and not (isinstance(c.func, ast.Name) and c.func.id == "cast")]
        if not calls_param or fi.name.startswith("_wrap") or fi.name == "wrap":
            continue
        p = next(p for p in fparams if any(d.origins(unwrap(c.func)) == {f"param:{p}"} for c in calls_param))
        sites += 1
        deco_ok = any(isinstance(dd, ast.Call) and an.callee(outer, dd) in MIMICS and dd.args and is_name(dd.args[0], p) for dd in fi.node.decorator_list)
        mim = [c for c in mimic_calls(an, outer) if c.args and is_name(c.args[0], p) and is_name(_within(c), fi.name)]
        ob.inst(fi, mim[0] if mim else (fi.node.decorator_list[0] if fi.node.decorator_list else None), f"nested wrapper {fi.short}")
        if not (deco_ok or mim):
            ob.fail(fi, None, f"nested wrapper `{fi.name}` of {outer.short} is returned without mimicking `{p}`")
        elif mim and not deco_ok:
            g = an.cfg(outer)
            mn = [n for n in g.nodes if n.kind == "call" and n.ast in mim]
            rets = [n for n in g.nodes if n.kind == "return" and (is_name(n.ast.value, fi.name))]  # type: ignore[union-attr]
            if rets:
                w = g.ordered(lambda n: n in mn, lambda n: n in rets)
                if w is not None:
                    ob.fail(outer, rets[0].ast, f"`{fi.name}` can be returned before it was mimicked", CFG.show_path(w))
    # what the public decorators hand back: a wrapper of the function (or the function itself), or - in the
    # parameterised form - the wrapping closure; never None / something unrelated
    from ..kinds import NOVALUE as _NV
    from ..kinds import Scenario as _Scn

    deco_map = {"cache": "helpers.caching.cache", "retry": "helpers.retries.retry", "throttle": "helpers.throttling.throttle", "timeout": "helpers.timeouted.timeout", "asynchronous": "helpers.asynchrony.asynchronous", "wrap_async": "helpers.asynchrony.wrap_async", "traced": "helpers.tracing.traced"}
    for pub, dq in deco_map.items():
        dfn = prog.fn(dq)
        wraps_ = [nf for nf in dfn.nested if nf.name in ("_wrap", "wrap")]
        nested_defs = {nf.name for nf in dfn.nested}
        fparam = next((p.arg for p in dfn.params() if p.arg in ("function", "wrapped")), None)

        def classify_return(fn_: FunctionInfo, v: ast.AST | None) -> str:
            dd = Deps(prog, fn_)
            v = unwrap(v)
            if v is None or (isinstance(v, ast.Constant) and v.value is None):
                return "none"
            if isinstance(v, ast.Name):
                if v.id in nested_defs or v.id in {nf.name for nf in fn_.nested}:
                    return "closure"
                oo = dd.origins(v)
                if oo and all(o.startswith("param:") and o[6:] in ("function", "wrapped") for o in oo):
                    return "function"
                if oo and all(o.startswith("call:") for o in oo):
                    return "wrapped"
                return "other"
            if isinstance(v, ast.Call):
                first = v.args[0] if v.args else next((k.value for k in v.keywords if k.arg in ("function", "wrapped")), None)
                oo = dd.origins(first) if first is not None else frozenset()
                if oo and all(o.startswith("param:") and o[6:] in ("function", "wrapped") for o in oo):
                    return "wrapped"
                return "other"
            return "other"

        for fn_ in [dfn, *wraps_]:
            for r in [r for r in fn_.own_nodes() if isinstance(r, ast.Return)]:
                kind = classify_return(fn_, r.value)
                ob.inst(fn_, r, f"{pub}: returns {kind}")
                if kind in ("none", "other"):
                    ob.fail(fn_, r, f"the `{pub}` decorator hands back `{stmt_text(r.value) if r.value is not None else 'None'}` instead of a wrapper of the decorated function")
        # coroutine functions get the async wrapper, plain ones the sync wrapper
        for wf in wraps_:
            gwf = an.cfg(wf)
            dwf = Deps(prog, wf)
            tests = [n for n in gwf.nodes if n.kind == "test" and isinstance(n.ast, ast.Call) and an.callee(wf, n.ast) == "asyncio.iscoroutinefunction"]
            if not tests or pub in ("throttle", "asynchronous"):
                continue
            for is_coro in (True, False):

                def base2(e: ast.AST, is_coro=is_coro):
                    if isinstance(e, ast.Call) and an.callee(wf, e) == "asyncio.iscoroutinefunction":
                        return is_coro
                    return _NV

                sc2 = _Scn(gwf, dwf, base2)
                for r in [n for n in gwf.nodes if n.kind == "return" and n.id in sc2.reach]:
                    v = unwrap(r.ast.value)  # type: ignore[union-attr]
                    name = (an.callee(wf, v) or "") if isinstance(v, ast.Call) else ""
                    is_async_wrapper = "async" in name.rsplit(".", 1)[-1].lower()
                    if name and is_async_wrapper != is_coro:
                        ob.fail(wf, r.ast, f"`{pub}` wraps a {'coroutine' if is_coro else 'plain'} function with the {'async' if is_async_wrapper else 'sync'} wrapper")
        if fparam is not None and wraps_:
            gd = an.cfg(dfn)
            ddec = Deps(prog, dfn)
            for given in (True, False):

                def base(e: ast.AST, given=given):
                    if is_name(e, fparam):
                        return A_FUNC_ if given else None
                    return _NV

                sc = _Scn(gd, ddec, base)
                live = [n for n in gd.nodes if n.kind == "return" and n.id in sc.reach]
                for r in live:
                    kind = classify_return(dfn, r.ast.value)  # type: ignore[union-attr]
                    want = "wrapped" if given else "closure"
                    if kind != want and kind not in ("none", "other"):
                        ob.fail(dfn, r.ast, f"`{pub}` {'applied directly to a function' if given else 'called with options only'} returns the {kind} (expected the {want})")
                if not live:
                    ob.fail(dfn, None, f"`{pub}` has no return when the function {'is' if given else 'is not'} given")
    if sites < 10:
        raise AnalysisError(f"only {sites} wrapper sites found (confirmed: 13)")
    missing = [n for n in PUBLIC if n not in helpers_all]
    if missing:
        raise AnalysisError(f"public decorators {missing} are no longer exported by haiway.helpers")

    # ------------------------------------------------------------------ C18.6 what the mimics copy
    ob = an.ob("C18.6", "table", "mimic_function and _mimic_async copy __name__, __qualname__, __doc__, __module__ and set __wrapped__ to the original on every normal path", ["utils.mimic.mimic_function", "helpers.asynchrony._mimic_async"])
    ob7 = an.ob("C18.7", "K10", "copying the wrapped callable's __dict__ never replaces attributes the wrapper already has (stacked helper wrappers keep calling the callable they were given)", ["utils.mimic.mimic_function", "helpers.asynchrony._mimic_async"])
    for fq, src_name in (("utils.mimic.mimic_function.mimic", "function"), ("helpers.asynchrony._mimic_async", "function")):
        f = prog.fn(fq)
        g = an.cfg(f)
        tgt = f.param_names()[0] if fq.endswith(".mimic") else "within"
        def attr_tuple(e: ast.AST):
            if isinstance(e, ast.Name) and not prog.is_local(f, e.id):
                e = f.module.assigns.get(e.id, e)
            return e if isinstance(e, (ast.Tuple, ast.List)) else None

        loops = [n for n in f.own_nodes() if isinstance(n, ast.For) and attr_tuple(n.iter) is not None]
        copied: set[str] = set()
        for lp in loops:
            names = {e.value for e in attr_tuple(lp.iter).elts if isinstance(e, ast.Constant) and isinstance(e.value, str)}
            sets = [c for c in ast.walk(lp) if isinstance(c, ast.Call) and is_name(c.func, "setattr") and len(c.args) == 3 and is_name(c.args[0], tgt) and is_name(c.args[1], lp.target.id if isinstance(lp.target, ast.Name) else "")]
            ok = any(isinstance(c.args[2], ast.Call) and is_name(c.args[2].func, "getattr") and len(c.args[2].args) >= 2 and is_name(c.args[2].args[0], src_name) and is_name(c.args[2].args[1], lp.target.id) for c in sets)
            if ok:
                copied |= names
                ob.inst(f, lp)
        lost = REQUIRED_ATTRS - copied
        if lost:
            ob.fail(f, loops[0] if loops else None, f"{sorted(lost)} of the wrapped function are not copied to the wrapper")
        wr = [n for n in g.nodes if n.kind == "call" and is_name(n.ast.func, "setattr") and len(n.ast.args) == 3 and is_name(n.ast.args[0], tgt) and isinstance(n.ast.args[1], ast.Constant) and n.ast.args[1].value == "__wrapped__"]  # type: ignore[union-attr]
        if not wr:
            ob.fail(f, None, "__wrapped__ is not set on the wrapper")
        else:
            ob.inst(f, wr[0].ast)
            if not is_name(wr[0].ast.args[2], src_name):  # type: ignore[union-attr]
                ob.fail(f, wr[0].ast, "__wrapped__ does not refer to the original function")
            w = g.must_pass(lambda n: n in wr, exits=("exit-return",), skip_edge=normal_only)
            if w is not None:
                ob.fail(f, wr[0].ast, "a normal path leaves the wrapper without __wrapped__", CFG.show_path(w))
            upd = [n for n in g.nodes if n.kind == "call" and isinstance(n.ast.func, ast.Attribute) and n.ast.func.attr == "update" and "__dict__" in ast.unparse(n.ast.func.value)]  # type: ignore[union-attr]  (setdefault cannot overwrite)
            upd += [n for n in g.nodes if n.kind == "stmt" and isinstance(n.ast, ast.Assign) and any(isinstance(t, ast.Subscript) and "__dict__" in ast.unparse(t.value) for t in n.ast.targets)]
            for u in upd:
                w = g.search([wr[0]], lambda n, u=u: n is u, skip_edge=normal_only)
                if w is not None:
                    ob.fail(f, wr[0].ast, "__wrapped__ is set before the wrapped function's __dict__ is copied: a __wrapped__ already present there (stacked helpers, functools.wraps) overwrites the reference to the original", CFG.show_path(w))
        dmf = Deps(prog, f)
        for r in [r for r in f.own_nodes() if isinstance(r, ast.Return)]:
            if not is_name(unwrap(dmf.inline(r.value)) if r.value is not None else None, tgt):
                ob.fail(f, r, "the mimic does not return the wrapper it was given")
        # C18.7: the wrapper's own attributes survive the copy of the wrapped callable's __dict__
        for n in f.own_nodes():
            blind_update = isinstance(n, ast.Call) and isinstance(n.func, ast.Attribute) and n.func.attr == "update" and dotted(n.func.value) == f"{tgt}.__dict__"
            blind_store = isinstance(n, ast.Assign) and any(isinstance(t, ast.Subscript) and dotted(t.value) == f"{tgt}.__dict__" for t in n.targets) and not any(isinstance(p_, ast.If) and any(isinstance(x, ast.Compare) and isinstance(x.ops[0], ast.NotIn) and f"{tgt}.__dict__" in ast.unparse(x.comparators[0]) for x in ast.walk(p_.test)) for p_ in _ancestors(n))
            if blind_update or blind_store:
                ob7.inst(f, n)
                ob7.fail(f, n, "the wrapped callable's __dict__ is copied over the wrapper unconditionally: wrappers implemented as objects keep their own state (_function, _cached, _lock, _timeout ...) in __dict__ and the wrapped callable may be such a wrapper too - stacking e.g. cache(timeout(..)(f)) replaces the outer _function by f and the inner wrapper is bypassed")
            elif isinstance(n, ast.Call) and isinstance(n.func, ast.Attribute) and n.func.attr == "setdefault" and dotted(n.func.value) == f"{tgt}.__dict__":
                ob7.inst(f, n)
    mf = prog.fn("utils.mimic.mimic_function")
    gm = an.cfg(mf)
    inner = calls_to(an, mf, prog.fn("utils.mimic.mimic_function.mimic").qualname)
    if not inner:
        ob.fail(mf, None, "mimic_function(function, within=x) does not apply the mimic to `within`")
    else:
        ob.inst(mf, inner[0])
        if "param:within" not in Deps(prog, mf).origins(inner[0].args[0] if inner[0].args else None):
            ob.fail(mf, inner[0], "the mimic is applied to something else than `within`")


def _public_decorators(an: Analysis) -> list[str]:
    mod = an.prog.module("helpers")
    allv = mod.assigns.get("__all__")
    if not isinstance(allv, (ast.List, ast.Tuple)):
        raise AnalysisError("haiway.helpers.__all__ not found")
    return [e.value for e in allv.elts if isinstance(e, ast.Constant)]


def _ancestors(n: ast.AST):
    from ..loader import ancestors

    return ancestors(n)


def _within(call: ast.Call) -> ast.AST | None:
    """The wrapper handed to mimic_function / _mimic_async: `within=` keyword or second positional argument."""
    kw = next((k.value for k in call.keywords if k.arg == "within"), None)
    return kw if kw is not None else (call.args[1] if len(call.args) > 1 else None)
