"""C20 - MISSING is a process-wide singleton under every way of obtaining it."""

from __future__ import annotations

import ast

from .. import AnalysisError
from ..astutil import Deps, is_name
from ..cfg import CFG
from ..engine import Analysis
from ..kinds import NOVALUE, all_paths_raise, both, normal_only, scenario
from ..loader import FunctionInfo, ModuleInfo, dotted, parent, stmt_text

ASSUMPTIONS = [
    "API_FACT 3: without __reduce__/__reduce_ex__/__copy__/__deepcopy__, copy/deepcopy/pickle rebuild through copyreg.__newobj__ -> cls.__new__, bypassing a metaclass __call__",
    "copy/deepcopy of a value whose __reduce_ex__ returns a string return the object itself; pickle then stores it by global name",
    "`x is MISSING` on module level constant MISSING (typing.Final, never rebound: checked by C20.5)",
]

MOD = "types.missing"
MISSING_Q = "haiway.types.missing.MISSING"


def missing_compares(an: Analysis):
    """Every comparison in the package that has the MISSING constant as a direct operand
    (functions and module level code): (module, function|None, Compare node, identity?)."""
    out = []
    for mod in an.prog.modules.values():
        for n in ast.walk(mod.tree):
            if not isinstance(n, ast.Compare):
                continue
            operands = [n.left, *n.comparators]
            fi = _fn_of(an, n)
            for i, op in enumerate(n.ops):
                l, r = operands[i], operands[i + 1]
                direct = [x for x in (l, r) if _is_missing(an, mod, fi, x)]
                member = isinstance(op, (ast.In, ast.NotIn)) and isinstance(r, (ast.Tuple, ast.List, ast.Set)) and any(_is_missing(an, mod, fi, x) for x in r.elts)
                if direct or member:
                    out.append((mod, fi, n, isinstance(op, (ast.Is, ast.IsNot)) and not member))
    return out


def _is_missing(an: Analysis, mod: ModuleInfo, fi: FunctionInfo | None, e: ast.AST) -> bool:
    if isinstance(e, ast.Call) and not e.args and not e.keywords and isinstance(e.func, (ast.Name, ast.Attribute)):
        # `Missing()`: calling the class goes through MissingType.__call__, which hands out the one instance (C20.1, checked on
        # every run) - the call denotes MISSING
        if isinstance(e.func, ast.Name) and fi is not None and an.prog.is_local(fi, e.func.id):
            return False
        return an.prog.resolve_dotted(fi if fi is not None else mod, e.func) == MISSING_Q.rsplit(".", 1)[0] + ".Missing"
    if not isinstance(e, (ast.Name, ast.Attribute)):
        return False
    if isinstance(e, ast.Name) and fi is not None and an.prog.is_local(fi, e.id):
        return False
    r = an.prog.resolve_dotted(fi if fi is not None else mod, e)
    return r == MISSING_Q


def _fn_of(an: Analysis, node: ast.AST) -> FunctionInfo | None:
    from ..loader import ancestors

    for a in ancestors(node):
        fi = an.prog.func_of_node.get(id(a))
        if fi is not None:
            return fi
    return None


def check(an: Analysis) -> None:
    prog = an.prog
    mod = prog.module(MOD)
    cls = prog.cls(f"{MOD}.Missing")
    meta = prog.classes.get(f"haiway.{MOD}.MissingType")

    # ------------------------------------------------------------------ C20.1 singleton mechanism (metaclass __call__, or __new__)
    if meta is not None:
        call = prog.fn(f"{MOD}.MissingType.__call__")
        where = f"{MOD}.MissingType.__call__"
    else:
        call = cls.method("__new__")
        where = f"{MOD}.Missing.__new__"
        if call is None:
            raise AnalysisError("C20.1: neither the MissingType metaclass nor Missing.__new__ implements the singleton")
    g = an.cfg(call)
    ob = an.ob("C20.1", "K8", "the singleton mechanism (MissingType.__call__, or Missing.__new__) returns cls._instance on every path; the only store to _instance is guarded by `cls._instance is None`", [where])
    recv = (call.node.args.posonlyargs + call.node.args.args)[0].arg
    rets = [n for n in g.nodes if n.kind == "return"]
    if not rets:
        ob.fail(call, None, f"{call.name} returns nothing")
    from ..kinds import Scenario

    dcall = Deps(prog, call)
    stores = [n for n in g.nodes if n.kind == "stmt" and isinstance(n.ast, (ast.Assign, ast.AnnAssign)) and any(dotted(t) == f"{recv}._instance" for t in (n.ast.targets if isinstance(n.ast, ast.Assign) else [n.ast.target]))]
    stored_origins = set()
    for s_ in stores:
        stored_origins |= set(dcall.origins(s_.ast.value))  # type: ignore[union-attr]
    for r in rets:
        ob.inst(call, r.ast)
        v = r.ast.value  # type: ignore[union-attr]
        oo = set(dcall.origins(v)) if v is not None else set()
        if dotted(v) == f"{recv}._instance":
            continue
        if oo and oo <= ({f"attr:{recv}._instance"} | stored_origins):
            continue
        ob.fail(call, r.ast, "returns something else than the cached instance")
    for s_ in stores:
        ob.inst(call, s_.ast, "store")

        def env(e: ast.AST):
            if dotted(e) == f"{recv}._instance":
                return _OBJ  # already created (and, being Missing, falsy)
            return NOVALUE

        sc = Scenario(g, dcall, env)
        if s_.id in sc.reach:
            w = g.search([g.entry], lambda n, s_=s_: n is s_, skip_edge=sc.skip)
            ob.fail(call, s_.ast, "the cached instance can be replaced after it was created (note: the instance is falsy - a truthiness test does not detect it)", CFG.show_path(w))
    owners = {cls.qualname} | ({meta.qualname} if meta is not None else set())
    for fi in prog.scan_functions():
        if fi is call:
            continue
        for n in fi.own_nodes():
            if isinstance(n, (ast.Assign, ast.AnnAssign, ast.AugAssign, ast.Delete)):
                tg = n.targets if isinstance(n, (ast.Assign, ast.Delete)) else [n.target]
                for t in tg:
                    if isinstance(t, ast.Attribute) and t.attr == "_instance":
                        ty = prog.expr_type(fi, t.value)
                        if ty is not None and ty.name in owners:
                            ob.fail(fi, n, "the singleton cache is written outside the singleton mechanism")
    if meta is not None:
        mc = next((k.value for k in cls.node.keywords if k.arg == "metaclass"), None)
        if mc is None or prog.resolve_dotted(mod, mc) != meta.qualname:
            ob.fail(None, cls.node, "class Missing no longer uses the MissingType metaclass", mod=mod, at=cls.qualname)

    # ------------------------------------------------------------------ C20.2 copy / deepcopy / pickle protocols
    ob = an.ob(
        "C20.2",
        "K10",
        "object-creating protocols of Missing are routed to the singleton: __reduce__/__reduce_ex__ returning (Missing, ()) or the global name "
        "'MISSING' (or __copy__ + __deepcopy__ returning self together with such a __reduce__); no __new__/__init__ taking arguments (API_FACT 3)",
        [f"{MOD}.Missing"],
    )
    red = cls.method("__reduce_ex__") or cls.method("__reduce__")
    ob.inst(None, cls.node, "class Missing")
    if red is None:
        ob.fail(None, cls.node, "Missing defines neither __reduce__ nor __reduce_ex__: copy(), deepcopy() and pickle build a second instance through object.__new__", mod=mod, at=cls.qualname)
    else:
        ob.inst(red, None, red.name)
        rr = [n for n in red.own_nodes() if isinstance(n, ast.Return)]
        if not rr:
            ob.fail(red, None, f"{red.name} returns nothing")
        for r in rr:
            v = r.value
            ok = False
            if isinstance(v, ast.Constant) and v.value == "MISSING":
                ok = True
            elif isinstance(v, ast.Tuple) and len(v.elts) == 2:
                head, args = v.elts
                head_ok = (
                    prog.resolve_dotted(red, head) == cls.qualname
                    or (isinstance(head, ast.Call) and is_name(head.func, "type") and len(head.args) == 1 and is_name(head.args[0], "self"))
                    or dotted(head) == "self.__class__"
                )
                ok = head_ok and isinstance(args, ast.Tuple) and not args.elts
            if not ok:
                ob.fail(red, r, f"{red.name} does not reconstruct through the Missing() singleton call / the MISSING global")
    for name in ("__copy__", "__deepcopy__"):
        m = cls.method(name)
        if m is not None:
            ob.inst(m, None, name)
            for r in [n for n in m.own_nodes() if isinstance(n, ast.Return)]:
                if not (is_name(r.value, "self") or _is_missing(an, mod, m, r.value) or (isinstance(r.value, ast.Call) and prog.resolve_dotted(m, r.value.func) == cls.qualname)):
                    ob.fail(m, r, f"{name} does not return the singleton")
    for name in ("__new__", "__init__"):
        m = cls.method(name)
        if m is not None:
            extra = m.node.args.posonlyargs + m.node.args.args
            if len(extra) > 1 or m.node.args.vararg or m.node.args.kwarg or m.node.args.kwonlyargs:
                ob.fail(m, None, f"Missing.{name} takes arguments (breaks reconstruction through Missing())")

    # ------------------------------------------------------------------ C20.3 behaviour of the instance
    ob = an.ob("C20.3", "K8", "__bool__ returns False on all paths; __eq__ returns an identity test against MISSING; __getattr__/__setattr__/__delattr__ raise AttributeError on all paths; __slots__ == ()", [f"{MOD}.Missing"])
    b = cls.method("__bool__")
    if b is None:
        ob.fail(None, cls.node, "Missing has no __bool__: MISSING would be truthy", mod=mod, at=cls.qualname)
    else:
        ob.inst(b, None, "__bool__")
        rr = [n for n in b.own_nodes() if isinstance(n, ast.Return)]
        if not rr or not all(isinstance(r.value, ast.Constant) and r.value.value is False for r in rr):
            ob.fail(b, rr[0] if rr else None, "__bool__ does not return False on every path")
    e = cls.method("__eq__")
    if e is None:
        ob.inst(None, cls.node, "__eq__ inherited from object (identity)")
    else:
        ob.inst(e, None, "__eq__")
        other = (e.node.args.posonlyargs + e.node.args.args)[1].arg
        for r in [n for n in e.own_nodes() if isinstance(n, ast.Return)]:
            v = r.value
            ok = (
                isinstance(v, ast.Compare)
                and len(v.ops) == 1
                and isinstance(v.ops[0], ast.Is)
                and (
                    (is_name(v.left, other) and (_is_missing(an, mod, e, v.comparators[0]) or is_name(v.comparators[0], "self")))
                    or (is_name(v.comparators[0], other) and (_is_missing(an, mod, e, v.left) or is_name(v.left, "self")))
                )
            )
            if not ok:
                ob.fail(e, r, "__eq__ is not an identity test against MISSING (look-alikes could compare equal)")
    for name in ("__getattr__", "__setattr__", "__delattr__"):
        m = cls.method(name)
        if m is None:
            ob.fail(None, cls.node, f"Missing.{name} is not defined: attribute access/modification is not rejected", mod=mod, at=cls.qualname)
            continue
        ob.inst(m, None, name)
        ok, why = all_paths_raise(an.cfg(m), {"AttributeError"})
        if not ok:
            ob.fail(m, None, f"{name} does not raise AttributeError on every path ({why})")
    slots = cls.class_assign.get("__slots__")
    if not (isinstance(slots, (ast.Tuple, ast.List)) and not slots.elts):
        ob.fail(None, cls.node, "Missing.__slots__ is not empty: instances could carry state", mod=mod, at=cls.qualname)
    else:
        ob.inst(None, slots, "__slots__ = ()")
    h = cls.method("__hash__")
    if h is not None:
        ob.inst(h, None, "__hash__")

    # ------------------------------------------------------------------ C20.4 identity comparisons everywhere
    ob = an.ob("C20.4", "K3", "every comparison in the package that has the MISSING constant as a direct operand uses `is` / `is not` (predicates is_missing / not_missing / when_missing and the Missing validator among them)")
    comps = missing_compares(an)
    for m, fi, n, ident in comps:
        ob.inst(fi, n) if fi is not None else ob.instances.append(f"{m.name}: {stmt_text(n)}")
        if not ident:
            ob.fail(fi, n, "MISSING is compared by equality/membership instead of identity (an object whose __eq__ answers True would pass for MISSING)", mod=m)
    if len(comps) < 5:
        raise AnalysisError(f"only {len(comps)} comparisons with MISSING found in the package (confirmed: 7)")
    # the three predicates
    for name, op_t, needs in (("is_missing", ast.Is, True), ("not_missing", ast.IsNot, True)):
        f = prog.fn(f"{MOD}.{name}")
        p0 = (f.node.args.posonlyargs + f.node.args.args)[0].arg
        rr = [n for n in f.own_nodes() if isinstance(n, ast.Return)]
        for r in rr:
            v = r.value
            ok = isinstance(v, ast.Compare) and len(v.ops) == 1 and isinstance(v.ops[0], op_t) and {True} == {True} and (
                (is_name(v.left, p0) and _is_missing(an, mod, f, v.comparators[0])) or (is_name(v.comparators[0], p0) and _is_missing(an, mod, f, v.left))
            )
            if not ok:
                ob.fail(f, r, f"{name} is not `{p0} {'is' if op_t is ast.Is else 'is not'} MISSING`")
        if not rr:
            ob.fail(f, None, f"{name} returns nothing")
    wm = prog.fn(f"{MOD}.when_missing")
    gw = an.cfg(wm)
    wp = [a.arg for a in wm.node.args.posonlyargs + wm.node.args.args]

    def env_w(is_m: bool):
        def env(e: ast.AST):
            if isinstance(e, ast.Compare) and len(e.ops) == 1 and isinstance(e.ops[0], (ast.Is, ast.IsNot)):
                ops = [e.left, e.comparators[0]]
                if any(is_name(x, wp[0]) for x in ops) and any(_is_missing(an, mod, wm, x) for x in ops):
                    return is_m if isinstance(e.ops[0], ast.Is) else (not is_m)
            if isinstance(e, ast.Call) and an.callee(wm, e) in (f"haiway.{MOD}.is_missing", f"haiway.{MOD}.not_missing") and e.args and is_name(e.args[0], wp[0]):
                return is_m if an.callee(wm, e).endswith("is_missing") else (not is_m)
            return NOVALUE

        return env

    from ..astutil import unwrap

    for is_m, want in ((True, wp[1]), (False, wp[0])):
        reach = gw.reachable([gw.entry], skip_edge=scenario(gw, env_w(is_m)))
        rr = [n for n in gw.nodes if n.kind == "return" and n.id in reach]
        if not rr:
            ob.fail(wm, None, f"when_missing has no return when the checked value {'is' if is_m else 'is not'} MISSING")
        from ..kinds import eval_expr as _ev

        for r in rr:
            val = r.ast.value  # type: ignore[union-attr]
            while isinstance(unwrap(val), ast.IfExp):
                t = _ev(unwrap(val).test, env_w(is_m))
                if t is NOVALUE:
                    break
                val = unwrap(val).body if t else unwrap(val).orelse
            if not is_name(unwrap(val), want):
                ob.fail(wm, r.ast, f"when_missing returns `{stmt_text(r.ast.value)}` instead of `{want}` when the checked value {'is' if is_m else 'is not'} MISSING")  # type: ignore[union-attr]
    # the Missing validator accepts exactly MISSING
    from .c04 import factory_closures

    fac_m = factory_closures(an).get("missing")  # VALIDATORS[Missing] -> factory -> its one-parameter closure(s), whatever their names
    if fac_m is None or len(fac_m[1]) != 1:
        raise AnalysisError("Missing validator (the one-parameter closure of VALIDATORS[Missing]'s factory) not found")
    val = fac_m[1][0]
    gv = an.cfg(val)
    vp = val.param_names()[0]

    dval = Deps(prog, val)

    def is_value(x: ast.AST) -> bool:
        return is_name(x, vp) or (isinstance(x, ast.Name) and dval.origins(x) == {f"param:{vp}"})

    def env_v(is_m: bool):
        def env(e: ast.AST):
            if isinstance(e, ast.Compare) and len(e.ops) == 1 and isinstance(e.ops[0], (ast.Is, ast.IsNot)):
                ops = [e.left, e.comparators[0]]
                if any(is_value(x) for x in ops) and any(_is_missing(an, val.module, val, x) for x in ops):
                    return is_m if isinstance(e.ops[0], ast.Is) else (not is_m)
            return NOVALUE

        return env

    w = gv.search([gv.entry], lambda n: n.kind == "exit-return", skip_edge=scenario(gv, env_v(False)))
    if w is not None:
        ob.fail(val, None, "the Missing validator accepts a value that is not MISSING", CFG.show_path(w))
    w = gv.search([gv.entry], lambda n: n.kind == "raise", skip_edge=scenario(gv, env_v(True)))
    if w is not None:
        ob.fail(val, None, "the Missing validator rejects MISSING", CFG.show_path(w))
    ob.inst(val, None, "Missing validator scenarios")

    # ------------------------------------------------------------------ C20.5 single instantiation, constant never rebound
    ob = an.ob("C20.5", "K3", "Missing / MissingType are instantiated only at module level `MISSING = Missing()`; MISSING is never rebound")
    sites = 0
    for m in prog.modules.values():
        for n in ast.walk(m.tree):
            if isinstance(n, ast.Call):
                fi = _fn_of(an, n)
                r = prog.resolve_dotted(fi if fi is not None else m, n.func) if not (fi and isinstance(n.func, ast.Name) and prog.is_local(fi, n.func.id)) else None
                if r in (cls.qualname, meta.qualname if meta is not None else cls.qualname):
                    sites += 1
                    if (fi is not None and fi is red) or (fi is not None and fi.cls is cls and fi.name in ("__copy__", "__deepcopy__", "__reduce__", "__reduce_ex__")):
                        continue
                    p = parent(n)
                    ok = fi is None and m is mod and isinstance(p, (ast.Assign, ast.AnnAssign)) and dotted(p.targets[0] if isinstance(p, ast.Assign) else p.target) == "MISSING"
                    if not ok and r == cls.qualname and not n.args and not n.keywords and (any(isinstance(a_, ast.Assert) for a_ in _anc(n)) or isinstance(parent(n), ast.Compare)):
                        ok = True  # `assert Missing() is MISSING` / `x is Missing()`: calling the class goes through MissingType.__call__ (C20.1) and the result is only compared
                    if fi is not None:
                        ob.inst(fi, n)
                    else:
                        ob.instances.append(f"{m.name}: {stmt_text(p)}")
                    if not ok:
                        ob.fail(fi, n, "Missing is instantiated outside `MISSING = Missing()`", mod=m)
            if isinstance(n, (ast.Assign, ast.AnnAssign, ast.AugAssign)):
                tg = n.targets if isinstance(n, ast.Assign) else [n.target]
                for t in tg:
                    if isinstance(t, ast.Name) and t.id == "MISSING" and not (m is mod and _fn_of(an, n) is None):
                        fi = _fn_of(an, n)
                        if fi is None or not prog.is_local(fi, "MISSING") or any(isinstance(x, ast.Global) and "MISSING" in x.names for x in fi.own_nodes()):
                            ob.fail(fi, n, "the MISSING constant is rebound", mod=m)
    if sites == 0:
        raise AnalysisError("`MISSING = Missing()` not found")
    defs = [s for s in mod.tree.body if isinstance(s, (ast.Assign, ast.AnnAssign)) and dotted(s.targets[0] if isinstance(s, ast.Assign) else s.target) == "MISSING"]
    if len(defs) != 1:
        ob.fail(None, defs[1] if len(defs) > 1 else None, f"MISSING is bound {len(defs)} times at module level", mod=mod)

    # ------------------------------------------------------------------ C20.6 MISSING held by a State survives copy / deepcopy of the State
    _borrowed_c04(an)



class _Falsy:
    """stands for the existing Missing instance in scenarios: it is an object, and it is falsy"""

    def __bool__(self) -> bool:
        return False


_OBJ = _Falsy()


def _borrowed_c04(an: Analysis) -> None:
    from ..engine import borrow
    from . import c04

    borrow(an, c04.check, {"C04.6": "C20.6"})


def _anc(n: ast.AST):
    from ..loader import ancestors

    return ancestors(n)

