"""C12 - cache returns only right-key, unexpired results and retains the LRU `limit`."""

from __future__ import annotations

import ast

from .. import AnalysisError
from ..astutil import Deps, is_name, unwrap
from ..cfg import CFG, Node
from ..domains import fmt_linear, linear_form
from ..engine import Analysis
from ..kinds import NOVALUE, both, forwards_varargs, normal_only, scenario, vararg_names, with_locals
from ..loader import FunctionInfo, dotted, parent, stmt_text

ASSUMPTIONS = [
    "collections.OrderedDict: move_to_end(key) makes key most recent, popitem(last=False) removes the least recent, insertion appends",
    "functools._make_key(args, kwds, typed=True) yields equal keys exactly for equal, type-identical positional/keyword arguments",
    "API_FACT 2: weakref.ref(a) == weakref.ref(b) <=> a == b while both are alive (not identity)",
    "expiry boundaries in real time are not decided; the direction of the comparison is",
]

SIBLINGS = [
    ("helpers.caching._SyncCache.__call__", False, False),
    ("helpers.caching._SyncCache.__method_call__", True, False),
    ("helpers.caching._AsyncCache.__call__", False, True),
    ("helpers.caching._AsyncCache.__method_call__", True, True),
]
ALLOWED_OPS = {"get", "move_to_end", "popitem"}


class CacheFn:
    """Facts about one cache call sibling."""

    def __init__(self, an: Analysis, qual: str, is_method: bool, is_async: bool) -> None:
        self.an = an
        self.fi = an.prog.fn(qual)
        self.g = an.cfg(self.fi)
        self.d = Deps(an.prog, self.fi)
        self.is_method = is_method
        self.is_async = is_async
        pos = [a.arg for a in self.fi.node.args.posonlyargs + self.fi.node.args.args]
        self.recv = pos[1] if is_method and len(pos) > 1 else None
        self.va, self.kwa = vararg_names(self.fi)
        g, fi = self.g, self.fi
        self.lookups = [n for n in g.nodes if n.kind == "call" and an.callee(fi, n.ast) == "collections.OrderedDict.get" and dotted(n.ast.func.value) == "self._cached"]  # type: ignore[union-attr]
        self.moves = [n for n in g.nodes if n.kind == "call" and an.callee(fi, n.ast) == "collections.OrderedDict.move_to_end" and dotted(n.ast.func.value) == "self._cached"]  # type: ignore[union-attr]
        self.pops = [n for n in g.nodes if n.kind == "call" and an.callee(fi, n.ast) == "collections.OrderedDict.popitem" and dotted(n.ast.func.value) == "self._cached"]  # type: ignore[union-attr]
        self.stores = [n for n in g.nodes if n.kind == "stmt" and isinstance(n.ast, ast.Assign) and any(isinstance(t, ast.Subscript) and dotted(t.value) == "self._cached" for t in n.ast.targets)]
        self.dels = [n for n in g.nodes if n.kind == "stmt" and isinstance(n.ast, ast.Delete) and any(isinstance(t, ast.Subscript) and dotted(t.value) == "self._cached" for t in n.ast.targets)]
        self.fcalls = [n for n in g.nodes if n.kind == "call" and dotted(n.ast.func) == "self._function"]  # type: ignore[union-attr]
        self.keys = [n for n in g.nodes if n.kind == "call" and an.callee(fi, n.ast) == "functools._make_key"]
        self.returns = [n for n in g.nodes if n.kind == "return"]

    # the name bound to the looked-up entry (match capture or assignment)
    def is_entry(self, e: ast.AST) -> bool:
        if isinstance(e, ast.Name):
            oo = self.d.origins(e)
            return "call:collections.OrderedDict.get" in oo
        return False

    def is_direct_entry(self, e: ast.Name) -> bool:
        """The name is bound only by the lookup itself (match capture / assignment / walrus of `_cached.get(key)`); names
        that merge the entry with other values (e.g. the result of an inlined lookup helper: entry or None) are left to
        the scenario's reaching-definition evaluation."""
        owner = self.d.owner(e.id)
        if owner is None:
            return False
        defs = self.d.defs(owner, e.id)
        if not defs:
            return False
        for kind, v in defs:
            v = unwrap(v)
            if kind != "value" or not (isinstance(v, ast.Call) and self.an.callee(self.fi, v) == "collections.OrderedDict.get" and dotted(v.func.value) == "self._cached"):  # type: ignore[union-attr]
                return False
        return True

    def unpacked_field(self, e: ast.Name) -> int | None:
        """`value, expire = entry`: the position of the name in the unpacking of the looked-up entry."""
        for st in self.fi.own_nodes():
            if isinstance(st, ast.Assign) and len(st.targets) == 1 and isinstance(st.targets[0], (ast.Tuple, ast.List)) and len(st.targets[0].elts) == 2 and isinstance(unwrap(st.value), ast.Name) and self.is_entry(unwrap(st.value)):
                for idx, t in enumerate(st.targets[0].elts):
                    if is_name(t, e.id) and len([1 for _k, _n in self.d.defs(self.fi, e.id)]) == 1:
                        return idx
        return None

    def entry_field(self, e: ast.AST, _depth: int = 0) -> int | None:
        """0 for entry[0]/entry.value, 1 for entry[1]/entry.expire."""
        e = unwrap(e)
        if isinstance(e, ast.Subscript) and self.is_entry(e.value) and isinstance(e.slice, ast.Constant):
            return e.slice.value if e.slice.value in (0, 1) else None
        if isinstance(e, ast.Attribute) and self.is_entry(e.value):
            return {"value": 0, "expire": 1}.get(e.attr)
        if isinstance(e, ast.Name):
            u = self.unpacked_field(e)
            if u is not None:
                return u
        if isinstance(e, ast.Name) and not self.is_entry(e):
            sv = self.d.single_value(e.id)
            if sv is not None:
                return self.entry_field(sv)
            owner = self.d.owner(e.id)
            if owner is not None and _depth < 4:
                vals = [n for k, n in self.d.defs(owner, e.id) if k == "value" and not getattr(parent(n), "_inline_init", False) and not (isinstance(n, ast.Constant) and n.value is None)]
                kinds = {k for k, _ in self.d.defs(owner, e.id)}
                fields = {self.entry_field(v, _depth + 1) for v in vals}
                if vals and kinds == {"value"} and len(fields) == 1:
                    return next(iter(fields))
        return None

    def returns_entry_value(self, r: Node, sc=None) -> bool:
        """The return hands out the cached entry's value (await shield(<it>) for the async forms).  With a scenario,
        a local is resolved to the definitions that reach the return in that scenario."""
        v = unwrap(r.ast.value)  # type: ignore[union-attr]
        if isinstance(v, ast.Await):
            v = unwrap(v.value)
            if isinstance(v, ast.Call) and self.an.callee(self.fi, v) == "asyncio.shield" and v.args:
                v = v.args[0]
        if v is None:
            return False
        if self.entry_field(v) == 0:
            return True
        if sc is not None and isinstance(v, ast.Name):
            vals = sc.reaching_values(r, v.id)
            return bool(vals) and all(self.entry_field(x) == 0 for x in vals)
        return False

    def env(self, *, present: bool, expire: object = None, now: float = 50.0, size: int | None = None, limit: int = 3, value: object = ...):
        """Scenario over the cache state. expire: None (never) or a number compared with `now`; value: the cached result
        (default: some object; None: the wrapped function returned None, which is a result like any other)."""

        def f(e: ast.AST):
            if isinstance(e, ast.Call):
                c = self.an.callee(self.fi, e)
                if c == "collections.OrderedDict.get" and dotted(e.func.value) == "self._cached":  # type: ignore[union-attr]
                    return _ENTRY if present else None
                if c == "time.monotonic":
                    return now
                if c == "builtins.len" and e.args and dotted(e.args[0]) == "self._cached" and size is not None:
                    return size
            if dotted(e) == "self._limit" and size is not None:
                return limit
            fld = self.entry_field(e) if isinstance(e, (ast.Subscript, ast.Attribute)) else (self.unpacked_field(e) if isinstance(e, ast.Name) else None)
            if fld == 1:
                return expire
            if fld == 0 and present:
                return _VALUE if value is ... else value
            if isinstance(e, ast.Name) and self.is_direct_entry(e):
                return _ENTRY if present else None
            return NOVALUE

        return with_locals(self.d, f)

    def sc_from(self, env):
        from ..kinds import Scenario

        return Scenario(self.g, self.d, env)

    def sc(self, **kw):
        """Scenario (fixpoint constant propagation through locals) for the given cache state."""
        from ..kinds import Scenario

        base = self.env(**kw)
        return Scenario(self.g, self.d, base)


_ENTRY = object()
_VALUE = object()



def _stamp_functions(an: Analysis, ci, init: FunctionInfo, gi: CFG, dinit: Deps, has: bool):
    """[(function, names bound to the expiration)] that `self._next_expire_time()` denotes when an expiration is / is not
    configured: a method of the class, or what __init__ stores in the attribute (closures selected by the truthiness of
    `expiration`, module-level functions, functools.partial(fn, expiration)).  None when it cannot be told."""
    from ..kinds import Scenario

    prog = an.prog
    meth = ci.methods.get("_next_expire_time")
    if meth:
        return [(meth[0], set())]

    def env(e: ast.AST):
        if is_name(e, "expiration"):
            return 10.0 if has else None
        return NOVALUE

    sc = Scenario(gi, dinit, env)
    vals = ci.attr_val.get("_next_expire_time", [])
    if not vals:
        return None
    out: list[tuple[FunctionInfo, set[str]]] = []

    def resolve(e: ast.AST | None, depth: int = 4) -> bool:
        from ..kinds import reduce_ifexp

        e = reduce_ifexp(e, sc.env)
        if e is None or depth == 0:
            return False
        if isinstance(e, ast.IfExp):
            return False
        if isinstance(e, ast.Call) and an.callee(init, e) == "functools.partial" and e.args and isinstance(e.args[0], ast.Name):
            t = prog.functions.get(prog.resolve_global(init.module, e.args[0].id) or "")
            if t is None:
                return False
            params = t.param_names()
            bound = {p for p, a in zip(params, e.args[1:]) if is_name(unwrap(a), "expiration")} | {k.arg for k in e.keywords if k.arg and is_name(unwrap(k.value), "expiration")}
            out.append((t, bound))
            return True
        if isinstance(e, ast.Name):
            nested = next((nf for nf in init.nested if nf.name == e.id), None)
            if nested is not None:
                # the definition reachable in this situation (same name may be defined in both branches)
                defs = {id(n.ast): n for n in gi.nodes if n.kind == "def"}
                cands = [nf for nf in init.nested if nf.name == e.id and (defs.get(id(nf.node)) is None or defs[id(nf.node)].id in sc.reach)]
                for nf in cands:
                    out.append((nf, set()))
                return bool(cands)
            if prog.is_local(init, e.id):
                vs = [v for v in sc.values_of(e.id)] or ([dinit.single_value(e.id)] if dinit.single_value(e.id) is not None else [])
                return bool(vs) and all(resolve(v, depth - 1) for v in vs)
            t = prog.functions.get(prog.resolve_global(init.module, e.id) or "")
            if t is not None:
                out.append((t, set()))
                return True
        return False

    # the attribute may be assigned on several paths: those reachable in this situation
    stores = [n for n in gi.nodes if n.kind == "stmt" and isinstance(n.ast, (ast.Assign, ast.AnnAssign)) and getattr(n.ast, "value", None) is not None and dotted(n.ast.targets[0] if isinstance(n.ast, ast.Assign) else n.ast.target) == "self._next_expire_time" and n.id in sc.reach]
    if not stores:
        return None
    for st in stores:
        if not resolve(st.ast.value):  # type: ignore[union-attr]
            return None
    return out

def cached_ops_elsewhere(an: Analysis):
    """Operations on <cache>._cached other than the allowed ones, anywhere in the package."""
    prog = an.prog
    cache_classes = {prog.cls("helpers.caching._SyncCache").qualname, prog.cls("helpers.caching._AsyncCache").qualname}
    sib = {prog.fn(s[0]).qualname for s in SIBLINGS}
    out = []
    referenced: set[str] = {n.attr for f in prog.scan_functions() for n in f.own_nodes() if isinstance(n, ast.Attribute)}
    for fi in prog.scan_functions():
        # a public, non-dunder method of a cache class that nothing in the package calls or references is an operation the
        # user may invoke *in addition to* calls: the property's histories (calls and clock advances) do not contain it
        if fi.cls is not None and fi.cls.qualname in cache_classes and not fi.name.startswith("_") and fi.name not in referenced and fi.qualname not in sib:
            continue
        for n in fi.own_nodes():
            if isinstance(n, ast.Attribute) and n.attr == "_cached":
                t = prog.expr_type(fi, n.value)
                if t is None or t.name not in cache_classes:
                    continue
                p = parent(n)
                if fi.name == "__init__" and isinstance(p, (ast.Assign, ast.AnnAssign)):
                    continue
                where_ok = fi.qualname in sib
                if isinstance(p, ast.Attribute) and isinstance(parent(p), ast.Call):
                    ok = p.attr in ALLOWED_OPS and where_ok
                    what = f".{p.attr}()"
                elif isinstance(p, ast.Subscript):
                    ok, what = where_ok, "item access"
                elif isinstance(p, ast.Call) and is_name(p.func, "len"):
                    ok, what = True, "len()"
                else:
                    ok, what = False, "escapes"
                out.append((fi, n, what, ok))
    return out


def _stored_expiration(v: ast.AST) -> bool:
    """The value kept on the cache object is the `expiration` parameter itself in both situations (a number / None)."""
    from ..kinds import eval_expr

    if is_name(v, "expiration"):
        return True
    if not any(is_name(x, "expiration") for x in ast.walk(v)):
        return False
    out = []
    for val in (10.0, None):
        r = eval_expr(v, lambda e, val=val: val if is_name(e, "expiration") else NOVALUE)
        out.append(r is not NOVALUE and type(r) is type(val) and r == val)
    return all(out)


def check(an: Analysis) -> None:
    prog = an.prog
    sibs = [CacheFn(an, *s) for s in SIBLINGS]

    ob1 = an.ob("C12.1", "K5", "key = _make_key(args=<all positionals>, kwds=<kwargs>, typed=True); method forms add a receiver-derived first component", [s[0] for s in SIBLINGS])
    ob2 = an.ob("C12.2", "K5", "the wrapped function is called with exactly the key's arguments (*args, **kwargs; receiver first for methods) and its result is what is stored and returned", [s[0] for s in SIBLINGS])
    ob3 = an.ob("C12.3", "K2+K1", "hit path (entry present, unexpired): move_to_end(key) then return the entry value, function not called; expired entry: deleted, never returned, falls through to the miss path - evaluated under concrete clock scenarios", [s[0] for s in SIBLINGS])
    ob4 = an.ob("C12.4", "K1+K11", "miss path: store under the key, then evict the oldest (popitem(last=False)) exactly when len(_cached) exceeds _limit", [s[0] for s in SIBLINGS])
    ob6 = an.ob("C12.6", "K10", "the receiver component of a method key is identity-based; weakref.ref(x) / x compare by == (API_FACT 2)", [s[0] for s in SIBLINGS if s[1]])
    for s in sibs:
        fi, g, d = s.fi, s.g, s.d
        # ---------------- C12.1
        if len(s.keys) != 1:
            ob1.fail(fi, None, f"cache key is built by {len(s.keys)} _make_key calls (expected one): arguments are not distinguished by value *and* type")
            continue
        kc: ast.Call = s.keys[0].ast  # type: ignore[assignment]
        ob1.inst(fi, kc)
        a_args = kc.args[0] if len(kc.args) > 0 else next((k.value for k in kc.keywords if k.arg == "args"), None)
        a_kwds = kc.args[1] if len(kc.args) > 1 else next((k.value for k in kc.keywords if k.arg == "kwds"), None)
        a_typed = kc.args[2] if len(kc.args) > 2 else next((k.value for k in kc.keywords if k.arg == "typed"), None)
        if isinstance(a_args, ast.Name) and a_args.id != s.va and (sv_ := d.single_value(a_args.id)) is not None:
            a_args = unwrap(sv_)  # the positional part assembled in a local first
        if not (isinstance(a_typed, ast.Constant) and a_typed.value is True):
            ob1.fail(fi, kc, "the key is not typed: ==-equal arguments of different type (1, 1.0, True) share an entry")
        if not is_name(a_kwds, s.kwa):
            ob1.fail(fi, kc, "keyword arguments are not part of the key")
        recv_expr = None
        if not s.is_method:
            if not is_name(a_args, s.va):
                ob1.fail(fi, kc, "positional arguments are not (all) part of the key")
        else:
            ok = isinstance(a_args, ast.Tuple) and len(a_args.elts) == 2 and isinstance(a_args.elts[1], ast.Starred) and is_name(a_args.elts[1].value, s.va)
            if not ok:
                ob1.fail(fi, kc, "method key is not (receiver component, *args)")
            else:
                recv_expr = a_args.elts[0]
                if f"param:{s.recv}" not in d.of(recv_expr):
                    ob1.fail(fi, kc, "the receiver is not part of the method key: instances share cached results")
                    recv_expr = None
        # every lookup / store / move / delete uses that key
        key_names = set()
        p = parent(kc)
        if isinstance(p, (ast.Assign, ast.AnnAssign)):
            t = p.targets[0] if isinstance(p, ast.Assign) else p.target
            if isinstance(t, ast.Name):
                key_names.add(t.id)

        # plain aliases of the key (`key = <result of the inlined key helper>`)
        for _round in range(3):
            for x in fi.own_nodes():
                if isinstance(x, (ast.Assign, ast.AnnAssign)) and getattr(x, "value", None) is not None and isinstance(unwrap(x.value), ast.Name) and unwrap(x.value).id in key_names:
                    tg = x.targets[0] if isinstance(x, ast.Assign) else x.target
                    if isinstance(tg, ast.Name) and len([1 for _k, _v in d.defs(fi, tg.id)]) == 1:
                        key_names.add(tg.id)
        for kn in sorted(key_names):
            others = [v for _k, v in d.defs(fi, kn) if unwrap(v) is not kc and not (isinstance(unwrap(v), ast.Name) and unwrap(v).id in key_names)]
            for v in others:
                ob1.fail(fi, v, f"the key variable `{kn}` is also bound to something else than the _make_key(...) result: on that path entries are shared between calls whose arguments are not equal and type-identical")

        def is_key(e: ast.AST | None) -> bool:
            return e is kc or (isinstance(e, ast.Name) and e.id in key_names)

        for n in s.lookups + s.moves:
            if not (n.ast.args and is_key(n.ast.args[0])):  # type: ignore[union-attr]
                ob1.fail(fi, n.ast, "cache is consulted with something else than the computed key")
        for n in s.stores + s.dels:
            for t in n.ast.targets:  # type: ignore[union-attr]
                if isinstance(t, ast.Subscript) and not is_key(t.slice):
                    ob1.fail(fi, n.ast, "cache entry is stored/deleted under something else than the computed key")
        # ---------------- C12.6
        if s.is_method and recv_expr is not None:
            ob6.inst(fi, recv_expr)
            r = unwrap(recv_expr)
            # the component computed by a helper of this module (`_receiver(instance)`): each value the helper can return is
            # judged as a component of its own
            helper = prog.functions.get(an.callee(fi, r) or "") if isinstance(r, ast.Call) else None
            if helper is not None and helper.module is fi.module and len(r.args) == 1 and not r.keywords and is_name(r.args[0], s.recv) and len(helper.param_names()) == 1:
                hp = helper.param_names()[0]
                finalized = any(isinstance(x, ast.Call) and an.callee(f_, x) == "weakref.finalize" for f_ in (fi, helper) for x in f_.own_nodes())
                rets_ = [x for x in helper.own_nodes() if isinstance(x, ast.Return) and x.value is not None]
                if not rets_:
                    raise AnalysisError(f"C12.6: {helper.short} returns nothing")
                for x in rets_:
                    v_ = unwrap(x.value)
                    ob6.inst(helper, x, "receiver component")
                    if isinstance(v_, ast.Call) and an.callee(helper, v_) == "builtins.id" and v_.args and is_name(v_.args[0], hp):
                        if not finalized:
                            ob6.fail(helper, x, "the receiver is identified by id() alone (on this path nothing else stands for it): the id of a collected receiver is reused by a new object, which is then answered from the dead instance's (still retained) entries - nothing ties the entry's lifetime to the receiver")
                    elif (isinstance(v_, ast.Call) and an.callee(helper, v_) == "weakref.ref" and v_.args and is_name(v_.args[0], hp)) or is_name(v_, hp):
                        ob6.fail(fi, recv_expr, "receiver key component compares by == / hash of the receiver, not identity: two equal instances share cached results", construct="ref(<receiver>)" if isinstance(v_, ast.Call) else "<receiver>")
                    else:
                        raise AnalysisError(f"C12.6: unrecognised receiver key component `{stmt_text(v_)}` returned by {helper.short}")
                r = ast.Constant(value=None)  # judged above
            uses_id = [x for x in ast.walk(r) if isinstance(x, ast.Call) and an.callee(fi, x) == "builtins.id" and x.args and is_name(x.args[0], s.recv)]
            weak = [x for x in fi.own_nodes() if isinstance(x, ast.Call) and (an.callee(fi, x) or "").startswith("weakref.")]
            if uses_id and not weak:
                ob6.fail(fi, recv_expr, "the receiver is identified by id() alone: the id of a collected receiver is reused by a new object, which is then answered from the dead instance's (still retained) entries - nothing ties the entry's lifetime to the receiver")
            elif uses_id:
                pass  # id() + a weak reference / finalizer that drops the entries with the receiver
            elif isinstance(r, ast.Constant) and r.value is None:
                pass
            elif (isinstance(r, ast.Call) and an.callee(fi, r) == "weakref.ref") or is_name(r, s.recv):
                ob6.fail(fi, recv_expr, "receiver key component compares by == / hash of the receiver, not identity: two equal instances share cached results", construct="ref(<receiver>)" if isinstance(r, ast.Call) else "<receiver>")
            else:
                raise AnalysisError(f"C12.6: unrecognised receiver key component `{stmt_text(recv_expr)}` in {fi.short}")
        # ---------------- C12.2
        if len(s.fcalls) != 1:
            ob2.fail(fi, None, f"the wrapped function is called at {len(s.fcalls)} sites (expected one)")
        else:
            fc: ast.Call = s.fcalls[0].ast  # type: ignore[assignment]
            ob2.inst(fi, fc)
            lead = [lambda a, r=s.recv: is_name(a, r)] if s.is_method else []
            if not forwards_varargs(fc, s.va, s.kwa, lead):
                ob2.fail(fi, fc, "the wrapped function is not called with exactly the arguments the key was computed from")
            # what is stored: the result (sync) / the task running it (async)
            for st in s.stores:
                v = st.ast.value  # type: ignore[union-attr]
                val = None
                if isinstance(v, ast.Call) and an.callee(fi, v) == prog.cls("helpers.caching._CacheEntry").qualname:
                    val = v.args[0] if v.args else next((k.value for k in v.keywords if k.arg == "value"), None)
                    exp = v.args[1] if len(v.args) > 1 else next((k.value for k in v.keywords if k.arg == "expire"), None)
                    exp = unwrap(d.inline(exp)) if exp is not None else None
                    written_out = not fi.cls.attr_val.get("_next_expire_time") and not fi.cls.methods.get("_next_expire_time") and exp is not None  # judged by C12.5
                    if not (isinstance(exp, ast.Call) and dotted(exp.func) == "self._next_expire_time") and not written_out:
                        ob2.fail(fi, st.ast, "the entry's expiry stamp is not self._next_expire_time()")
                if val is None:
                    ob2.fail(fi, st.ast, "what is stored is not a _CacheEntry(value=..., expire=...)")
                    continue
                oo = d.origins(val)
                want = "call:asyncio.AbstractEventLoop.create_task" if s.is_async else f"call:{fi.cls.qualname}._function"
                if want not in oo:
                    ob2.fail(fi, st.ast, "the stored value is not the result of this call of the wrapped function")
        # ---------------- C12.3 scenarios
        if not s.lookups:
            ob3.fail(fi, None, "the cache is never consulted")
            continue
        ob3.inst(fi, s.lookups[0].ast)
        hit_envs = {"present, never expires": s.env(present=True, expire=None), "present, expires later": s.env(present=True, expire=100.0, now=50.0)}
        for label, env in hit_envs.items():
            sco = s.sc_from(env)
            sc = sco.skip
            reach = g.reachable([g.entry], skip_edge=sc)
            live = [r for r in s.returns if r.id in reach]
            if not live:
                ob3.fail(fi, None, f"[{label}] no return reachable")
            for r in live:
                if not s.returns_entry_value(r, sco):
                    ob3.fail(fi, r.ast, f"[{label}] an unexpired cached entry is not what is returned")
            w = g.search([g.entry], lambda n: n in s.fcalls, skip_edge=sc)
            if w is not None:
                ob3.fail(fi, s.fcalls[0].ast, f"[{label}] the function is called although the key is cached and unexpired", CFG.show_path(w))
            if not s.is_async:
                # a cached result that is None / falsy is a result: the hit must not depend on the value (sync forms cache the value itself)
                for vlabel, v_ in (("None", None), ("0", 0)):
                    scv = s.sc_from(s.env(present=True, expire=None if "never" in label else 100.0, now=50.0, value=v_)).skip
                    wv = g.search([g.entry], lambda n: n in s.fcalls, skip_edge=scv)
                    if wv is not None and w is None:
                        ob3.fail(fi, s.fcalls[0].ast, f"[{label}, cached result is {vlabel}] the function is called again although its result is cached: the hit test looks at the cached *value* instead of the presence of the entry", CFG.show_path(wv))
            if not s.moves:
                ob3.fail(fi, None, "a hit never refreshes the entry's recency (move_to_end)")
            else:
                w = g.must_pass(lambda n: n in s.moves, exits=("exit-return",), skip_edge=both(sc, normal_only))
                if w is not None:
                    ob3.fail(fi, s.moves[0].ast, f"[{label}] a hit returns without move_to_end(key): the entry is not treated as most recently used", CFG.show_path(w))
            w = g.search([g.entry], lambda n: n in s.dels or n in s.pops, skip_edge=sc)
            if w is not None:
                ob3.fail(fi, w[-1].ast, f"[{label}] an unexpired entry is removed on a hit", CFG.show_path(w))
        sco = s.sc(present=True, expire=100.0, now=200.0)
        sc = sco.skip
        reach = g.reachable([g.entry], skip_edge=sc)
        for r in [r for r in s.returns if r.id in reach]:
            if s.returns_entry_value(r, sco):
                ob3.fail(fi, r.ast, "[present, expired] a value older than its expiration is returned")
        w = g.must_pass(lambda n: n in s.fcalls, exits=("exit-return",), skip_edge=both(sc, normal_only))
        if w is not None:
            ob3.fail(fi, s.lookups[0].ast, "[present, expired] a path returns without calling the function again", CFG.show_path(w))
        refresh = s.dels + [m for m in s.moves if any(g.search([st], lambda n, m=m: n is m, skip_edge=normal_only) for st in s.stores)]
        if not refresh:
            ob3.fail(fi, s.lookups[0].ast, "[present, expired] the stale entry is neither deleted before nor moved to the end after the re-store: overwriting an OrderedDict key keeps its old position, so the freshly computed entry keeps a stale LRU rank and is evicted first")
        elif s.dels:
            w = g.must_pass(lambda n: n in s.dels, exits=("exit-return",), skip_edge=both(sc, normal_only))
            if w is not None:
                ob3.fail(fi, s.dels[0].ast, "[present, expired] the stale entry is not removed before the miss path", CFG.show_path(w))
        sco = s.sc(present=False)
        sc = sco.skip
        w = g.must_pass(lambda n: n in s.fcalls, exits=("exit-return",), skip_edge=both(sc, normal_only))
        if w is not None:
            ob3.fail(fi, s.lookups[0].ast, "[absent] a path returns without calling the function", CFG.show_path(w))
        reach = g.reachable([g.entry], skip_edge=sc)
        for r in [r for r in s.returns if r.id in reach]:
            if s.returns_entry_value(r, sco):
                ob3.fail(fi, r.ast, "[absent] returns an entry value although nothing is cached")
        # what a miss hands back: the function's own result (sync) / the awaited shielded task (async)
        miss_sc = s.sc(present=False)
        for r in [r for r in s.returns if r.id in miss_sc.reach and not s.returns_entry_value(r, miss_sc)]:
            v = unwrap(r.ast.value)  # type: ignore[union-attr]

            def origins_here(x: ast.AST, r=r) -> frozenset[str]:
                # a local is resolved to the definitions reaching this return in the miss scenario
                if isinstance(x, ast.Name) and (vals := miss_sc.reaching_values(r, x.id)):
                    return frozenset().union(*[d.origins(v_) for v_ in vals])
                return d.origins(x)

            if s.is_async:
                # `result = await shield(task); return result`: the value reaching the return
                if isinstance(v, ast.Name) and len(vals_ := miss_sc.reaching_values(r, v.id)) == 1:
                    v = unwrap(vals_[0])
                ok = isinstance(v, ast.Await) and isinstance(unwrap(v.value), ast.Call) and an.callee(fi, unwrap(v.value)) == "asyncio.shield" and "call:asyncio.AbstractEventLoop.create_task" in origins_here(unwrap(unwrap(v.value).args[0]))
            else:
                ok = v is not None and f"call:{fi.cls.qualname}._function" in origins_here(v)
            if not ok:
                ob2.fail(fi, r.ast, "on a miss the caller does not get the wrapped function's own result")
        # ---------------- C12.4 store + eviction
        if not s.stores:
            ob4.fail(fi, None, "results are never stored")
            continue
        ob4.inst(fi, s.stores[0].ast)
        miss = s.env(present=False)
        w = g.must_pass(lambda n: n in s.stores, exits=("exit-return",), skip_edge=both(s.sc(present=False).skip, normal_only))
        if w is not None:
            ob4.fail(fi, s.stores[0].ast, "[absent] a path returns without storing the result", CFG.show_path(w))
        if not s.pops:
            ob4.fail(fi, None, "entries are never evicted: the cache grows beyond its limit")
            continue
        for pn in s.pops:
            ob4.inst(fi, pn.ast)
            last = pn.ast.args[0] if pn.ast.args else next((k.value for k in pn.ast.keywords if k.arg == "last"), None)  # type: ignore[union-attr]
            if not (isinstance(last, ast.Constant) and last.value is False):
                ob4.fail(fi, pn.ast, "eviction removes the most recently used entry (popitem must use last=False)")
        starts = [t for st in s.stores for t, lab in st.succ if lab not in ("exc", "reraise")]
        over = s.sc(present=False, size=4, limit=3).skip
        w = g.must_pass(lambda n: n in s.pops, starts=starts, exits=("exit-return",), skip_edge=both(over, normal_only))
        if w is not None:
            ob4.fail(fi, s.pops[0].ast, "[len == limit + 1 after the store] a path returns without evicting: more than `limit` entries stay alive", CFG.show_path(w))
        at = s.sc(present=False, size=3, limit=3).skip
        w = g.search(starts, lambda n: n in s.pops, skip_edge=both(at, normal_only), include_start=True)
        if w is not None:
            ob4.fail(fi, s.pops[0].ast, "[len == limit after the store] an entry is evicted although the limit is not exceeded: fewer than `limit` recent keys are retained", CFG.show_path(w))
        from ..kinds import strict as _strict

        w = g.must_pass(lambda n: n in s.pops, starts=starts, exits=("exit-return", "exit-raise"), raising=_strict, skip_edge=over)
        if w is not None:
            ob4.fail(fi, s.pops[0].ast, "[len == limit + 1 after the store] the eviction can be skipped when something between the store and the size check raises or is cancelled (e.g. the await of the result): the cache then keeps more than `limit` entries alive for good", CFG.show_path(w))
        w = g.ordered(lambda n: n in s.stores, lambda n: n in s.pops)
        if w is not None:
            ob4.fail(fi, s.pops[0].ast, "eviction can run before the new entry was stored", CFG.show_path(w))
        # once stored, an entry leaves the store only through expiry (found expired by a later lookup) or LRU eviction: nothing
        # on a path from the store - normal or exceptional - removes it by key (by then the key may hold another caller's entry)
        w = g.search(s.stores, lambda n: n in s.dels, skip_node=lambda n: n in s.lookups) if s.stores and s.dels else None
        if w is not None:
            ob4.fail(fi, w[-1].ast, "the entry stored on a miss is removed again by key (e.g. when the invocation fails): entries leave the store only by expiry or LRU eviction - the key may by then hold a newer entry that other callers are sharing", CFG.show_path(w))

    # ------------------------------------------------------------------ C12.5 expiry stamps
    ob = an.ob("C12.5", "K5+K11 situations", "what `self._next_expire_time()` yields at store time: monotonic() + expiration when an expiration is configured, None (never expires) otherwise - whether it is a closure chosen in __init__, a module-level function bound with partial, or a method reading a stored expiration; limit / function reach the cache object", ["helpers.caching._SyncCache.__init__", "helpers.caching._AsyncCache.__init__"])
    from ..kinds import Scenario as _ScnE

    for cname in ("helpers.caching._SyncCache", "helpers.caching._AsyncCache"):
        ci = prog.cls(cname)
        init = prog.fn(f"{cname}.__init__")
        gi = an.cfg(init)
        dinit = Deps(prog, init)
        # the stamp written out at the store sites (`expire=monotonic() + self._expiration if self._expiration else None`): judged
        # there, in both situations, from what __init__ keeps in the attribute it reads
        inline_stamps = []
        entry_q_ = prog.cls("helpers.caching._CacheEntry").qualname
        for sib in [prog.fn(q_) for q_, _m, _a in SIBLINGS if prog.fn(q_).cls is ci]:
            for x in sib.own_nodes():
                if isinstance(x, ast.Call) and an.callee(sib, x) == entry_q_:
                    ev_ = next((k.value for k in x.keywords if k.arg == "expire"), x.args[1] if len(x.args) > 1 else None)
                    if ev_ is not None and not (isinstance(unwrap(ev_), ast.Call) and dotted(unwrap(ev_).func) == "self._next_expire_time"):
                        inline_stamps.append((sib, x, ev_))
        if inline_stamps and not ci.attr_val.get("_next_expire_time") and not ci.methods.get("_next_expire_time"):
            from ..kinds import eval_expr as _ev12
            from ..kinds import reduce_ifexp as _rif12

            for sib, x, ev_ in inline_stamps:
                ob.inst(sib, x, "stamp written at the store")
                for has in (True, False):

                    def kept(e: ast.AST, has=has):
                        # value of `self.<attr>` as stored by __init__ when expiration is 10.0 / None
                        if isinstance(e, ast.Attribute) and is_name(e.value, "self") and (vv_ := ci.attr_val.get(e.attr, [])) and len(vv_) == 1 and any(is_name(y, "expiration") for y in ast.walk(vv_[0])):
                            return _ev12(vv_[0], lambda y, has=has: (10.0 if has else None) if is_name(y, "expiration") else NOVALUE)
                        return NOVALUE

                    red = unwrap(_rif12(ev_, kept))
                    none_ = red is None or (isinstance(red, ast.Constant) and red.value is None)
                    if not has:
                        if not none_:
                            ob.fail(sib, x, "without expiration entries get an expiry stamp")
                        continue
                    if none_:
                        ob.fail(sib, x, "with an expiration configured entries never expire")
                        continue
                    dsib = Deps(prog, sib)
                    lf = linear_form(dsib, red, atom_of=lambda y: "EXP" if kept(y) == 10.0 and isinstance(kept(y), float) else None)
                    if lf is None or {k: int(v_) for k, v_ in lf.items()} != {"call:time.monotonic": 1, "EXP": 1}:
                        ob.fail(sib, x, f"expiry stamp is {fmt_linear(lf)}, required +call:time.monotonic +<expiration>")
            variants_done = True
        else:
            variants_done = False
        for has in (True, False) if not variants_done else ():
            variants = _stamp_functions(an, ci, init, gi, dinit, has)
            label = "with an expiration configured" if has else "without expiration"
            if variants is None:
                raise AnalysisError(f"C12.5: cannot tell what {cname}._next_expire_time is {label}")
            ob.inst(init, None, f"{label}: {[f.short for f, _ in variants]}")
            if not variants:
                ob.fail(init, None, f"{label} no expiry-stamp function is installed")
            for fn, bound in variants:
                # evaluate the function's returns in this situation
                gfn = an.cfg(fn)
                dfn = Deps(prog, fn)

                def denotes_expiration(e: ast.AST, bound=bound, fn=fn) -> bool:
                    e = unwrap(e)
                    if isinstance(e, ast.Name) and e.id in bound:
                        return True
                    if isinstance(e, ast.Name) and fn.outer is init and e.id == "expiration" and e.id not in fn.param_names() and not any(isinstance(x, ast.Name) and x.id == e.id and isinstance(x.ctx, ast.Store) for x in fn.own_nodes()):
                        return True  # closure over __init__'s parameter
                    if isinstance(e, ast.Attribute) and is_name(e.value, "self") and (vv_ := ci.attr_val.get(e.attr, [])) and all(_stored_expiration(v) for v in vv_):
                        return True  # self._expiration stored from the parameter (as it is, or `expiration or None`: falsy = never)
                    return False

                def env_fn(e: ast.AST, has=has):
                    if denotes_expiration(e):
                        return 10.0 if has else None
                    return NOVALUE

                scf = _ScnE(gfn, dfn, env_fn)
                live = [n for n in gfn.nodes if n.kind == "return" and n.id in scf.reach]
                if not live:
                    ob.fail(fn, None, f"{label} the stamp function returns nothing")
                for r in live:
                    ob.inst(fn, r.ast)
                    v = r.ast.value  # type: ignore[union-attr]
                    is_none = v is None or (isinstance(v, ast.Constant) and v.value is None)
                    if has:
                        lf = None if is_none else linear_form(dfn, v, atom_of=lambda x: "EXP" if denotes_expiration(x) or (isinstance(x, ast.Name) and (sv_ := dfn.single_value(x.id)) is not None and denotes_expiration(sv_)) else None)
                        want = {"call:time.monotonic": 1, "EXP": 1}
                        if is_none:
                            ob.fail(fn, r.ast, "with an expiration configured entries never expire")
                        elif lf is None or {k: int(v_) for k, v_ in lf.items()} != want:
                            ob.fail(fn, r.ast, f"expiry stamp is {fmt_linear(lf)}, required +call:time.monotonic +<expiration>")
                        elif not any(isinstance(x, ast.Call) and an.callee(fn, x) == "time.monotonic" for x in fn.own_nodes()):
                            ob.fail(fn, r.ast, "the clock is not read when the entry is stored: the stamp function hands out a deadline computed earlier (when the cache was created), so after one expiration period every entry is stored already expired")
                    elif not is_none:
                        ob.fail(fn, r.ast, "without expiration entries get an expiry stamp")
        for attr, param in (("_limit", "limit"), ("_function", "function")):
            vv = ci.attr_val.get(attr, [])
            if not (len(vv) == 1 and is_name(vv[0], param)):
                ob.fail(init, None, f"{cname.rsplit('.', 1)[1]}.{attr} does not hold `{param}`")
            else:
                ob.inst(init, vv[0], attr)
    wrap = prog.fn("helpers.caching.cache._wrap")
    dw = Deps(prog, wrap)
    for c in [c for c in wrap.own_nodes() if isinstance(c, ast.Call) and an.callee(wrap, c) in (prog.cls("helpers.caching._SyncCache").qualname, prog.cls("helpers.caching._AsyncCache").qualname)]:
        ob.inst(wrap, c)
        kws = {k.arg: k.value for k in c.keywords}
        if not (is_name(kws.get("limit"), "limit") and is_name(kws.get("expiration"), "expiration") and c.args and is_name(c.args[0], "function")):
            ob.fail(wrap, c, "cache() does not pass function/limit/expiration on to the cache object")

    # method access: instance given -> bound form through __method_call__; class access -> the cache object itself
    from ..kinds import Abs, Scenario

    for cname in ("helpers.caching._SyncCache", "helpers.caching._AsyncCache"):
        get = prog.fn(f"{cname}.__get__")
        gg = an.cfg(get)
        dget = Deps(prog, get)
        gp = get.param_names()
        for label, inst, own in (("through an instance", Abs("object", tag="instance"), Abs("type", "object", tag="owner")), ("through an instance whose truth value is False", Abs("object", truthy=False, tag="instance"), Abs("type", "object", tag="owner")), ("through the class", None, Abs("type", "object", tag="owner"))):

            def base(e: ast.AST, inst=inst, own=own):
                if is_name(e, gp[1]):
                    return inst
                if len(gp) > 2 and is_name(e, gp[2]):
                    return own
                return NOVALUE

            sc = Scenario(gg, dget, base)
            live = [n for n in gg.nodes if n.kind == "return" and n.id in sc.reach]
            ob1.inst(get, None, f"__get__ {label}: {len(live)} return(s)")
            if not live:
                ob1.fail(get, None, f"{cname.rsplit('.', 1)[1]}.__get__ has no return for access {label}")
            for r in live:
                v = unwrap(dget.inline(r.ast.value))  # type: ignore[union-attr]
                if inst is None:
                    if not is_name(v, gp[0]):
                        ob1.fail(get, r.ast, "class-level access to a cached method does not return the cache object itself")
                else:
                    ok = isinstance(v, ast.Call) and any(isinstance(x, ast.Attribute) and x.attr == "__method_call__" for x in ast.walk(v)) and any(is_name(x, gp[1]) for x in ast.walk(v))
                    if not ok:
                        ob1.fail(get, r.ast, "a cached method accessed through an instance is not bound to that instance (the receiver is lost: wrong arguments / shared entries)")

    # ------------------------------------------------------------------ C12.7 operations on the store
    ob = an.ob("C12.7", "K3", "the entry store `_cached` is touched only by get / move_to_end / item store / item delete / popitem / len inside the four call siblings")
    n = 0
    for fi, node, what, ok in cached_ops_elsewhere(an):
        n += 1
        ob.inst(fi, parent(node), what)
        if not ok:
            ob.fail(fi, parent(node), f"unexpected operation on the cache store ({what})")
    # entries kept anywhere else than in that one store: the limit (and the eviction order) is per store, so every further store
    # adds up to `limit` live entries of its own (one store per receiver, per key kind, ...)
    entry_q = prog.cls("helpers.caching._CacheEntry").qualname
    cache_classes_ = {prog.cls("helpers.caching._SyncCache").qualname, prog.cls("helpers.caching._AsyncCache").qualname}
    elsewhere = 0
    for fi in prog.scan_functions():
        if fi.cls is None or fi.cls.qualname not in cache_classes_:
            continue
        dfi = Deps(prog, fi)
        for st in fi.own_nodes():
            if isinstance(st, ast.Assign) and isinstance(unwrap(dfi.inline(st.value)), ast.Call) and an.callee(fi, unwrap(dfi.inline(st.value))) == entry_q:
                for t in st.targets:
                    if isinstance(t, ast.Subscript):
                        ob.inst(fi, st, "entry store")
                        if dotted(t.value) != "self._cached":
                            elsewhere += 1
                            ob.fail(fi, st, f"an entry is kept in `{stmt_text(t.value)}`, not in the cache object's single `_cached` store: `limit` bounds each store on its own, so with several stores (one per receiver ...) more than `limit` entries stay alive and hits are answered outside the `limit` most recently used keys")
    if n < 20 and not elsewhere:
        raise AnalysisError(f"only {n} uses of _cached found (confirmed: 28)")
    from ..engine import borrow
    from . import c18

    # C18.7: mimic_function never overwrites what the wrapper object already holds (its own _function, its store / lock / window /
    # timeout): stacked wrappers would otherwise adopt each other's state and the inner function would be called directly
    borrow(an, c18.check, {"C18.7": "C12.8"})
