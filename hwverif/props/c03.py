"""C03 - tasks inherit a context snapshot and never observe each other's scopes."""

from __future__ import annotations

import ast

from .. import AnalysisError
from ..astutil import Deps, is_name, unwrap
from ..cfg import CFG
from ..engine import Analysis
from ..kinds import NOVALUE, scenario
from ..loader import FunctionInfo, dotted, parent, stmt_text, ancestors
from . import c01, c02

ASSUMPTIONS = [
    "contextvars: every asyncio task runs in its own copy of the creating context; ContextVar.set in one context is invisible in any other (non-interference by construction)",
    "API_FACT 11: loop.create_task / TaskGroup.create_task without context= copy the current context themselves",
    "ScopeMetrics is intentionally shared and mutated (metrics, not state) - see C10",
]

CTX_PKG = "haiway.context"


def contextvar_attr_uses(an: Analysis):
    """Every syntactic use of a class-level ContextVar attribute of the three context classes."""
    prog = an.prog
    owners = {prog.cls(c[0]).qualname for c in c02.CTX_CLASSES.values()}
    out = []
    for fi in prog.scan_functions():
        for n in fi.own_nodes():
            if isinstance(n, ast.Attribute):
                o = c02.contextvar_owner(an, fi, n)
                if o in owners and n.attr in prog.classes[o].class_assign and _is_contextvar(an, prog.classes[o], n.attr):
                    out.append((fi, n, o))
    return out


def _is_contextvar(an: Analysis, ci, attr: str) -> bool:
    v = ci.class_assign.get(attr)
    if isinstance(v, ast.Call):
        f = v.func.value if isinstance(v.func, ast.Subscript) else v.func
        return an.prog.resolve_dotted(ci.module, f) == "contextvars.ContextVar"
    return False


def global_writes(an: Analysis, module_prefix: str):
    """`global x` / `nonlocal`-free module state, `cls.x = ...` and `ClassName.x = ...` stores in functions."""
    out = []
    for fi in an.prog.scan_functions():
        if not (fi.module.name == module_prefix or fi.module.name.startswith(module_prefix + ".")):
            continue
        sn = an.prog.self_name(fi)
        for n in fi.own_nodes():
            if isinstance(n, ast.Global):
                out.append((fi, n, "global statement"))
            elif isinstance(n, (ast.Assign, ast.AugAssign, ast.AnnAssign, ast.Delete)):
                tg = n.targets if isinstance(n, (ast.Assign, ast.Delete)) else [n.target]
                for t in tg:
                    base = t
                    while isinstance(base, ast.Subscript):
                        base = base.value
                    if isinstance(base, ast.Attribute):
                        ty = an.prog.expr_type(fi, base.value)
                        if ty is not None and ty.is_class:
                            out.append((fi, n, "class attribute store"))
                    elif isinstance(base, ast.Name) and base is not t and not an.prog.is_local(fi, base.id) and an.prog.resolve_global(fi.module, base.id):
                        out.append((fi, n, "module-level container mutated"))
            elif isinstance(n, ast.Call) and isinstance(n.func, ast.Attribute) and n.func.attr in c01.WRITE_METHODS | {"append", "add", "extend", "insert", "remove"}:
                base = n.func.value
                if isinstance(base, ast.Name) and not an.prog.is_local(fi, base.id):
                    r = an.prog.resolve_global(fi.module, base.id)
                    if r and r.startswith(CTX_PKG) and r not in an.prog.classes and r not in an.prog.functions:
                        out.append((fi, n, "module-level container mutated"))
    return out


def check(an: Analysis) -> None:
    prog = an.prog

    # ------------------------------------------------------------------ C03.1 ContextVar discipline
    ob = an.ob("C03.1", "K3", "the three context variables are touched only as receiver of .get/.set/.reset inside methods of their owning class - the only channel for 'current' state")
    uses = contextvar_attr_uses(an)
    for fi, n, owner in uses:
        ob.inst(fi, n)
        p = parent(n)
        ok_form = isinstance(p, ast.Attribute) and p.attr in ("get", "set", "reset") and isinstance(parent(p), ast.Call) and parent(p).func is p
        if not ok_form:
            ob.fail(fi, n, "a context variable object escapes (used other than as receiver of get/set/reset)")
        if not (fi.cls is not None and fi.cls.qualname == owner):
            ob.fail(fi, n, f"context variable of {owner.rsplit('.', 1)[1]} is accessed from outside its class")
    if len(uses) < 12:
        raise AnalysisError(f"only {len(uses)} context variable operations found (confirmed: 15)")
    # no other ContextVar objects in the package
    for ci in prog.classes.values():
        for attr in ci.class_assign:
            if _is_contextvar(an, ci, attr) and ci.qualname not in {prog.cls(c[0]).qualname for c in c02.CTX_CLASSES.values()}:
                ob.fail(None, ci.class_assign[attr], "an additional ContextVar carries scope state outside the analysed classes", mod=ci.module, at=ci.qualname)
    for m in prog.modules.values():
        for name, v in m.assigns.items():
            if isinstance(v, ast.Call):
                f = v.func.value if isinstance(v.func, ast.Subscript) else v.func
                if prog.resolve_dotted(m, f) == "contextvars.ContextVar":
                    ob.fail(None, v, "a module-level ContextVar carries state outside the analysed classes", mod=m, at=m.name)

    # ------------------------------------------------------------------ C03.2 ScopeState immutable after construction
    ob = an.ob("C03.2", "K3", "= C01.5: ScopeState (shared by every task that inherited the context) is never written after construction")
    ws = c01.scope_state_writes(an)
    ob.inst(prog.fn("context.state.ScopeState.__init__"), None, "only allowed store")
    for fi, n, what in ws:
        ob.inst(fi, n, what)
        ob.fail(fi, n, f"ScopeState is mutated in place ({what}): a lookup in one task changes what another task (sharing the inherited state) observes")

    # ------------------------------------------------------------------ C03.3 task creation copies the context
    ob = an.ob("C03.3", "K5/K10", "every create_task in the package either passes no context= (the loop copies the current one) or context=copy_context() evaluated at the call; never a stored/shared Context (API_FACT 11)")
    n_sites = 0
    for fi in prog.scan_functions():
        for n in fi.own_nodes():
            if isinstance(n, ast.Call) and isinstance(n.func, ast.Attribute) and n.func.attr == "create_task":
                n_sites += 1
                ob.inst(fi, n)
                cv = next((k.value for k in n.keywords if k.arg == "context"), None)
                if cv is None:
                    if any(k.arg is None for k in n.keywords):
                        ob.fail(fi, n, "create_task receives **kwargs that may carry a shared context")
                    continue
                if isinstance(cv, ast.Name):
                    # `snapshot = copy_context()` taken for this very call: a local with one definition and this single use
                    dd_ = Deps(prog, fi)
                    sv_ = dd_.single_value(cv.id)
                    uses_ = [x for x in fi.own_nodes() if isinstance(x, ast.Name) and x.id == cv.id and isinstance(x.ctx, ast.Load)]
                    in_loop_ = any(isinstance(p_, (ast.For, ast.AsyncFor, ast.While)) for p_ in _ancestors(n)) and not any(isinstance(p_, (ast.For, ast.AsyncFor, ast.While)) for p_ in _ancestors(sv_) if sv_ is not None)
                    if sv_ is not None and dd_.owner(cv.id) is fi and len(uses_) == 1 and not in_loop_:
                        cv = unwrap(sv_)
                if not (isinstance(cv, ast.Call) and an.callee(fi, cv) == "contextvars.copy_context" and not cv.args):
                    ob.fail(fi, n, f"task is started in `{stmt_text(cv)}` - a stored/shared Context - instead of a fresh copy: its scope changes leak to whoever else uses that context")
            elif isinstance(n, ast.Call) and an.callee(fi, n) in ("asyncio.ensure_future", "asyncio.create_task"):
                n_sites += 1
                ob.inst(fi, n)
    if n_sites < 2:
        raise AnalysisError(f"only {n_sites} task creation sites found (confirmed: 2 in haiway.context)")

    # ------------------------------------------------------------------ C03.4 no global / class-level mutable channel
    ob = an.ob("C03.4", "K3", "no function in haiway.context assigns module globals or class attributes, or mutates a module-level container: 'current' state lives only in ContextVars and per-scope instances")
    gw = global_writes(an, CTX_PKG)
    ob.inst(None, None, f"{len(prog.functions_in(CTX_PKG))} functions of haiway.context scanned")
    for fi, n, what in gw:
        ob.inst(fi, n, what)
        ob.fail(fi, n, f"{what}: state shared by all tasks outside the context-variable discipline")

    # ------------------------------------------------------------------ C03.6 state is derived where the scope is entered
    ob = an.ob("C03.6", "K3", "StateContext.updated (derivation from the *current* scope state) is called only when a scope / update is entered (ScopeContext.__enter__/__aenter__, ctx.updated), never at construction time")
    _derivation_sites(an, ob)

    # ------------------------------------------------------------------ C03.5 copy on write
    upd = prog.fn("context.state.ScopeState.updated")
    g = an.cfg(upd)
    ob = an.ob("C03.5", "K7", "ScopeState.updated returns a *new* ScopeState whenever the update is non-empty (`return self` only for an empty update)", ["context.state.ScopeState.updated"])
    p = upd.param_names()[1]

    def env(e: ast.AST):
        if is_name(e, p):
            return [0]  # non-empty update
        return NOVALUE

    reach = g.reachable([g.entry], skip_edge=scenario(g, env))
    rets = [n for n in g.nodes if n.kind == "return" and n.id in reach]
    if not rets:
        ob.fail(upd, None, "no return for a non-empty update")
    for r in rets:
        ob.inst(upd, r.ast)
        v = r.ast.value  # type: ignore[union-attr]
        if not (isinstance(v, ast.Call) and an.callee(upd, v) == prog.cls("context.state.ScopeState").qualname):
            ob.fail(upd, r.ast, "a non-empty update does not produce a new ScopeState object (the shared one is reused)")

    # ------------------------------------------------------------------ C03.7 the variables a task inherits are only ever re-bound (set/reset with tokens), never mutated in place
    _borrowed_c02(an)



def _derivation_sites(an: Analysis, ob) -> None:
    prog = an.prog
    upd_q = prog.fn("context.state.StateContext.updated").qualname
    allowed = {
        prog.fn("context.access.ScopeContext.__enter__").qualname,
        prog.fn("context.access.ScopeContext.__aenter__").qualname,
        prog.fn("context.access.ctx.updated").qualname,
    }
    n = 0
    for fi in prog.scan_functions():
        for c in fi.own_nodes():
            if isinstance(c, ast.Call) and an.callee(fi, c) == upd_q:
                n += 1
                ob.inst(fi, c)
                if fi.qualname not in allowed:
                    ob.fail(fi, c, "the scope's state is resolved against the *constructing* task's current state (at construction time) instead of the entering task's: a scope or stream object prepared in one task and entered in another installs foreign state there")
    if n < 3:
        raise AnalysisError(f"C03.6: only {n} StateContext.updated call sites found (confirmed: 4)")


def liveness(fixtures: str) -> list[dict]:
    import os

    an = Analysis(os.path.join(fixtures, "c03_globals"), floors=False)
    gw = global_writes(an, "haiway")
    if len(gw) < 3:
        raise AnalysisError(f"rule C03.4 fires {len(gw)} times on its fixture, expected >= 3")
    return [{"rule": "C03.4", "fixture": "fixtures/c03_globals", "matches": len(gw)}, *c01.liveness(fixtures)]


def _borrowed_c02(an: Analysis) -> None:
    from ..engine import borrow
    from . import c02

    # C02.3: the state context is left on every path out of a scope exit (a cancelled exit that skips it leaves the task - and the
    # tasks it starts afterwards - looking at a scope it has left)
    borrow(an, c02.check, {"C02.1": "C03.7", "C02.3": "C03.8"})
    from . import c01

    # C01.2: what a task (and the tasks it spawns) sees for a type is the entered instance whenever one is present - also one
    # whose truth value is False
    borrow(an, c01.check, {"C01.2": "C03.9"})


def _ancestors(n: ast.AST | None):
    from ..loader import ancestors

    return ancestors(n) if n is not None else []
