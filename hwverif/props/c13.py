"""C13 - async cache shares one in-flight call; cancelling a waiter harms no one else."""

from __future__ import annotations

import ast

from .. import AnalysisError
from ..astutil import Deps, unwrap
from ..cfg import CFG
from ..engine import Analysis
from ..kinds import both, normal_only, scenario
from ..loader import dotted, parent, stmt_text
from .c12 import SIBLINGS, CacheFn

ASSUMPTIONS = [
    "an asyncio task is descheduled only at await / async for / async with: code between two suspension points is atomic on the single-threaded loop, hence for every schedule",
    "asyncio.shield(task): cancelling the awaiting caller does not cancel `task`; every awaiter of the task receives its outcome",
    "a Task keeps running after its cache entry is deleted or evicted (nothing else references it for cancellation)",
]

ASYNC = [s for s in SIBLINGS if s[2]]


def cancel_calls(an: Analysis, module: str):
    out = []
    for fi in an.prog.scan_functions():
        if fi.module.name != module:
            continue
        for n in fi.own_nodes():
            if isinstance(n, ast.Call) and isinstance(n.func, ast.Attribute) and n.func.attr == "cancel":
                out.append((fi, n))
    return out


def check(an: Analysis) -> None:
    prog = an.prog
    sibs = [CacheFn(an, *s) for s in ASYNC]
    ob1 = an.ob("C13.1", "K6", "no suspension point on any path from the cache lookup to the store of the new entry: check-then-insert is atomic, so under every schedule a second caller with the same key finds the in-flight entry", [s[0] for s in ASYNC])
    ob2 = an.ob("C13.2", "K5", "the stored entry's value is the Task returned by loop.create_task(self._function(...)) - created exactly once per miss - not an awaited result", [s[0] for s in ASYNC])
    ob3 = an.ob("C13.3", "K5", "every await in the call siblings is `await shield(<cached or just created task>)`", [s[0] for s in ASYNC])
    for s in sibs:
        fi, g, d = s.fi, s.g, s.d
        # ---------------- C13.1
        if not s.lookups or not s.stores:
            ob1.fail(fi, None, "lookup or store of the cache entry not found")
        else:
            ob1.inst(fi, s.lookups[0].ast)
            ob1.inst(fi, s.stores[0].ast)
            w = g.suspension_between(lambda n: n in s.lookups, lambda n: n in s.stores)
            if w is not None:
                sus = next((n for n in w if n.suspends and n not in s.stores), w[0])
                ob1.fail(fi, sus.ast or sus.stmt, "a suspension point between looking the key up and storing the in-flight task lets a second caller with the same key miss and start a second invocation", CFG.show_path(w))
            # the key itself must be computed before (no await between key computation and lookup matters not)
        # ---------------- C13.2
        tasks = [n for n in g.nodes if n.kind == "call" and an.callee(fi, n.ast) == "asyncio.AbstractEventLoop.create_task"]
        if not tasks:
            ob2.fail(fi, None, "the invocation is not started as its own task: waiters cannot share it and cancelling the first caller cancels the call")
        else:
            ob2.inst(fi, tasks[0].ast)
            coro = tasks[0].ast.args[0] if tasks[0].ast.args else None  # type: ignore[union-attr]
            if not (isinstance(coro, ast.Call) and dotted(coro.func) == "self._function"):
                ob2.fail(fi, tasks[0].ast, "the task does not run the wrapped function")
            miss = s.sc(present=False).skip
            lo, hi = g.count_range(lambda n: n in tasks, g.entry, lambda n: n.kind == "exit-return", skip_edge=both(miss, normal_only))
            if (lo, hi) != (1, 1):
                ob2.fail(fi, tasks[0].ast, f"a miss starts {lo}..{hi} invocations (must be exactly one)")
            hit = s.sc(present=True, expire=None).skip
            w = g.search([g.entry], lambda n: n in tasks, skip_edge=hit)
            if w is not None:
                ob2.fail(fi, tasks[0].ast, "a hit on an unexpired (possibly in-flight) entry starts another invocation", CFG.show_path(w))
        for st in s.stores:
            ob2.inst(fi, st.ast)
            v = st.ast.value  # type: ignore[union-attr]
            val = None
            if isinstance(v, ast.Call):
                val = v.args[0] if v.args else next((k.value for k in v.keywords if k.arg == "value"), None)
            oo = d.origins(val) if val is not None else frozenset()
            if "call:asyncio.AbstractEventLoop.create_task" not in oo or isinstance(unwrap(val), ast.Await):
                ob2.fail(fi, st.ast, "what is cached is not the in-flight Task itself (a result can only be stored after the call finished: concurrent callers would all miss)")
        # ---------------- C13.3
        for n in g.nodes:
            if n.kind != "await":
                continue
            ob3.inst(fi, n.ast)
            v = unwrap(n.ast.value)  # type: ignore[union-attr]
            ok = False
            if isinstance(v, ast.Call) and an.callee(fi, v) == "asyncio.shield" and len(v.args) == 1:
                a = v.args[0]
                oo = d.origins(a)
                ok = s.entry_field(a) == 0 or "call:asyncio.AbstractEventLoop.create_task" in oo
            if not ok:
                ob3.fail(fi, n.ast, "awaits without shield (or something else than the shared task): cancelling this caller cancels the shared invocation / other waiters")
        for n in g.nodes:
            if n.kind in ("for-iter", "with-enter") and n.suspends:
                ob3.fail(fi, n.ast, "unexpected suspension construct in the cache call path")

    # ------------------------------------------------------------------ C13.8 the store is only touched before the wait
    ob8 = an.ob("C13.8", "K6", "every operation on the entry store (lookup, move_to_end, item store / delete, popitem) of a call happens before its first suspension point: after the wait other callers have changed the store (an evicted key makes move_to_end raise KeyError for a waiter whose invocation succeeded)", [s[0] for s in ASYNC])
    for s in sibs:
        ops_ = s.lookups + s.moves + s.stores + s.dels + s.pops
        sus = [n for n in s.g.nodes if n.suspends]
        for n in ops_[:1]:
            ob8.inst(s.fi, n.ast)
        w = s.g.search([t for a in sus for t, lab in a.succ], lambda n: n in ops_, include_start=True) if sus and ops_ else None
        if w is not None:
            ob8.fail(s.fi, w[-1].ast, "the entry store is touched after the call waited: the bookkeeping runs against a store that other callers changed in the meantime", CFG.show_path(w))

    # ------------------------------------------------------------------ C13.4 nothing cancels
    ob = an.ob("C13.4", "K3", "no .cancel() call anywhere in helpers/caching.py: expiry and eviction only drop the entry (del / popitem), the invocation finishes and delivers to everyone already waiting")
    mod = prog.module("helpers.caching")
    ob.inst(None, None, f"{len([f for f in prog.scan_functions() if f.module is mod])} functions of helpers.caching scanned")
    for fi, n in cancel_calls(an, mod.name):
        ob.inst(fi, n)
        ob.fail(fi, n, "the cache cancels something: an in-flight invocation must never be cancelled by expiry, eviction or a leaving waiter")

    # ------------------------------------------------------------------ C13.5 entries leave the store only by expiry / eviction
    _borrowed_c12(an)



def liveness(fixtures: str) -> list[dict]:
    import os

    an = Analysis(os.path.join(fixtures, "c13_cancel"), floors=False)
    hits = cancel_calls(an, "haiway.fixture")
    if not hits:
        raise AnalysisError("rule C13.4 (.cancel() in the caching module) no longer fires on its fixture")
    return [{"rule": "C13.4", "fixture": "fixtures/c13_cancel", "matches": len(hits)}]


def _borrowed_c12(an: Analysis) -> None:
    from ..engine import borrow
    from . import c12

    # C12.5: an entry stored already expired is deleted by the next caller, who starts a second invocation while the first is in flight
    borrow(an, c12.check, {"C12.7": "C13.5", "C12.5": "C13.6", "C12.4": "C13.7", "C12.1": "C13.9"}, keep=lambda f: "_AsyncCache" in f.at)
    from . import c18

    # C18.7: mimic_function never overwrites what the wrapper object already holds - the cache object's own _function / _cached
    # would otherwise be replaced by those of a wrapper it decorates (or that decorates it): calls bypass the shared invocation
    borrow(an, c18.check, {"C18.7": "C13.10"})
