"""C07 - cancellation is never swallowed by scopes; the cancellation check reports it."""

from __future__ import annotations

import ast

from .. import AnalysisError
from ..astutil import Deps, is_name
from ..cfg import CFG
from ..engine import Analysis
from ..kinds import NOVALUE, call_nodes, catches_cancellation, classify_handler, normal_only, scenario, both
from ..loader import FunctionInfo, dotted, parent, stmt_text
from . import c06

ASSUMPTIONS = [
    "API_FACT 1: for the running task Task.cancelled()/done() are always False; pending requests are Task.cancelling() > 0",
    "a CancelledError that propagates out of every library frame ends the task cancelled (asyncio semantics)",
]

FORWARDERS = {"set_exception", "finish"}


def forwards_bound(h: ast.ExceptHandler) -> bool:
    """handler passes the bound exception into a future/queue: x.set_exception(exc) / x.finish(exception=exc)."""
    if not h.name:
        return False
    for n in ast.walk(h):
        if isinstance(n, ast.Call) and isinstance(n.func, ast.Attribute) and n.func.attr in FORWARDERS:
            vals = list(n.args) + [k.value for k in n.keywords]
            if any(is_name(v, h.name) for v in vals):
                return True
    return False


def cancellation_handlers(an: Analysis, functions=None) -> list[tuple[FunctionInfo, ast.ExceptHandler]]:
    out = []
    for fi in functions if functions is not None else an.prog.scan_functions():
        hs = [n for n in fi.own_nodes() if isinstance(n, ast.ExceptHandler)]
        if not hs:
            continue
        g = an.cfg(fi)
        for h in hs:
            if catches_cancellation(g, h):
                out.append((fi, h))
    return out


def _try_of(h: ast.ExceptHandler) -> ast.Try:
    p = parent(h)
    return p if isinstance(p, ast.Try) else ast.Try(body=[], handlers=[], orelse=[], finalbody=[])


def swallowing(an: Analysis, fi: FunctionInfo, h: ast.ExceptHandler) -> list[tuple[str, object, list]]:
    g = an.cfg(fi)
    bad = []
    from ..kinds import classify_handler_for

    # a synchronous callback is never what a task's cancellation is delivered to (that happens at an await): a CancelledError
    # it catches is the *outcome* it read from a finished task / future; passing it on with <other future>.cancel() forwards it
    relays = not fi.is_async and any(isinstance(n, ast.Call) and isinstance(n.func, ast.Attribute) and n.func.attr == "cancel" and not n.args for st in h.body for n in ast.walk(st)) and any(isinstance(n, ast.Call) and isinstance(n.func, ast.Attribute) and n.func.attr in ("result", "exception") for st in _try_of(h).body for n in ast.walk(st))
    for kind, node, path in classify_handler_for(g, h, "CancelledError"):
        if kind in ("reraise-same", "raise-from-cleanup"):
            continue
        if kind == "swallow" and (forwards_bound(h) or relays):
            continue
        if kind == "return" and (forwards_bound(h) or relays):
            continue
        bad.append((kind, node, path))
    return bad


def suppress_calls(an: Analysis, functions=None):
    out = []
    for fi in functions if functions is not None else an.prog.scan_functions():
        for n in fi.own_nodes():
            if isinstance(n, ast.Call) and an.callee(fi, n) == "contextlib.suppress":
                names = {(dotted(a) or "").rsplit(".", 1)[-1] for a in n.args}
                if names & {"BaseException", "CancelledError"} or not n.args:
                    out.append((fi, n))
    return out


def uncancel_calls(an: Analysis, functions=None):
    out = []
    for fi in functions if functions is not None else an.prog.scan_functions():
        for n in fi.own_nodes():
            if isinstance(n, ast.Call) and isinstance(n.func, ast.Attribute) and n.func.attr == "uncancel":
                out.append((fi, n))
    return out


def check(an: Analysis) -> None:
    prog = an.prog

    # ------------------------------------------------------------------ C07.1 handler discipline
    ob = an.ob(
        "C07.1",
        "K4",
        "every except handler in src/haiway whose effective caught set includes asyncio.CancelledError re-raises the same exception on "
        "all its paths, or forwards the bound exception into a future/queue; no contextlib.suppress(BaseException/CancelledError); no Task.uncancel()",
    )
    total = sum(1 for fi in prog.scan_functions() for n in fi.own_nodes() if isinstance(n, ast.ExceptHandler))
    hs = cancellation_handlers(an)
    ob.note(f"{total} except handlers in the package, {len(hs)} can catch CancelledError")
    if total < 10:
        raise AnalysisError(f"only {total} except handlers found in the package (confirmed: 25)")
    for fi, h in hs:
        ob.inst(fi, h, "catches CancelledError")
        for kind, node, path in swallowing(an, fi, h):
            what = {
                "swallow": "completes normally - the cancellation is swallowed",
                "return": "returns - the cancellation is swallowed",
                "continue": "continues a loop - the cancellation is swallowed",
                "break": "breaks out of a loop - the cancellation is swallowed",
                "raise-other": "raises a different exception - the cancellation is masked",
            }[kind]
            ob.fail(fi, h, f"handler that can catch CancelledError {what}", CFG.show_path(path + [node] if path and path[-1] is not node else path))
    # a `finally` block through which a CancelledError may be propagating must let it continue: a `raise <other>` / `return` /
    # loop jump written in the block replaces or drops it (errors *raised by* the cleanup code are a different matter)
    from ..cfg import ANY, exc_is_sub

    n_fin = 0
    for fi in prog.scan_functions():
        if not any(isinstance(n, ast.Try) and n.finalbody for n in fi.own_nodes()):
            continue
        gf = an.cfg(fi)
        for entry in [n for n in gf.nodes if n.kind == "finally" and n.meta.get("continuation") == "exc"]:
            pend = entry.meta.get("pending", frozenset())
            if not (ANY in pend or any(exc_is_sub("CancelledError", c) or exc_is_sub(c, "CancelledError") for c in pend)):
                continue
            suspends = any(isinstance(x, (ast.Await, ast.AsyncFor, ast.AsyncWith, ast.Yield)) for st in entry.ast.body for x in ast.walk(st)) if isinstance(entry.ast, ast.Try) else True
            if not suspends:
                continue  # no suspension point in the protected body: a cancellation cannot be what propagates
            n_fin += 1
            ob.inst(fi, entry.ast, "finally with a cancellation possibly propagating")
            w = gf.search([entry], lambda n: n.kind in ("raise", "return", "exit-return") or (n.kind == "stmt" and isinstance(n.ast, (ast.Break, ast.Continue))), skip_node=lambda n: n.kind == "reraise", skip_edge=lambda a, b, lab: lab in ("exc", "reraise"))
            if w is not None and all(x.kind != "reraise" for x in w) and (w[-1].kind != "exit-return" or True):
                end = w[-1]
                inside = isinstance(entry.ast, ast.Try) and end.ast is not None and any(end.ast is x or end.stmt is x for st in entry.ast.finalbody for x in ast.walk(st))
                if inside:
                    ob.fail(fi, end.ast, "a `finally` block replaces / drops the exception propagating through it: a cancellation delivered inside the protected block is lost (the task does not end cancelled)", CFG.show_path(w))
    ob.note(f"{n_fin} finally blocks a cancellation can propagate through")
    for fi, c in suppress_calls(an):
        ob.fail(fi, c, "contextlib.suppress of BaseException/CancelledError swallows cancellation")
    for fi, c in uncancel_calls(an):
        ob.fail(fi, c, "Task.uncancel() clears a pending cancellation request")

    # ------------------------------------------------------------------ C07.2 check_cancellation
    f = prog.fn("context.access.ctx.check_cancellation")
    g = an.cfg(f)
    deps = Deps(prog, f)
    ob = an.ob(
        "C07.2",
        "K10",
        "ctx.check_cancellation raises CancelledError exactly when the current task has pending cancellation requests "
        "(abstract evaluation of its guards for cancelling() in {0,1,2}; Task.cancelled()/done() are constant False for the running task - API_FACT 1)",
        ["context.access.ctx.check_cancellation"],
    )
    raises = [n for n in g.nodes if n.kind == "raise" and "CancelledError" in n.raises]
    if not raises:
        ob.fail(f, None, "check_cancellation never raises CancelledError")
    else:
        for r in raises:
            ob.inst(f, r.ast)

        def env_for(task_present: bool, cancelling: int):
            def env(e: ast.AST):
                if isinstance(e, ast.Call):
                    c = an.callee(f, e)
                    if c == "asyncio.current_task":
                        return object() if task_present else None
                    if isinstance(e.func, ast.Attribute) and "call:asyncio.current_task" in deps.origins(e.func.value):
                        if e.func.attr == "cancelling":
                            return cancelling
                        if e.func.attr in ("cancelled", "done"):
                            return False  # API_FACT 1
                if isinstance(e, ast.Name) and deps.origins(e) == {"call:asyncio.current_task"}:
                    return object() if task_present else None
                return NOVALUE

            return env

        for n_req in (1, 2):
            w = g.search([g.entry], lambda n: n.kind == "exit-return", skip_edge=scenario(g, env_for(True, n_req)))
            if w is not None:
                stale = [c for c in ast.walk(f.node) if isinstance(c, ast.Call) and isinstance(c.func, ast.Attribute) and c.func.attr in ("cancelled", "done")]
                culprit = stale[0] if stale else raises[0].ast
                ob.fail(
                    f,
                    culprit,
                    f"with {n_req} pending cancellation request(s) on the current task the check returns without raising"
                    + (" (Task.cancelled()/done() is always False for the running task)" if stale else ""),
                    CFG.show_path(w),
                )
                break
        for present, c in ((True, 0), (False, 0)):
            w = g.search([g.entry], lambda n: n in raises, skip_edge=scenario(g, env_for(present, c)))
            if w is not None:
                ob.fail(f, raises[0].ast, "the check raises although no cancellation was requested" + ("" if present else " (no current task)"), CFG.show_path(w))

    # ------------------------------------------------------------------ C07.3 ctx.cancel
    f = prog.fn("context.access.ctx.cancel")
    g = an.cfg(f)
    deps3 = Deps(prog, f)
    ob = an.ob("C07.3", "K1", "ctx.cancel calls .cancel() on asyncio.current_task() when there is one and raises otherwise", ["context.access.ctx.cancel"])
    cancels = [n for n in g.nodes if n.kind == "call" and isinstance(n.ast.func, ast.Attribute) and n.ast.func.attr == "cancel" and "call:asyncio.current_task" in deps3.origins(n.ast.func.value)]  # type: ignore[union-attr]
    if not cancels:
        ob.fail(f, None, "ctx.cancel never cancels the current task")
    else:
        for n in cancels:
            ob.inst(f, n.ast)

        def env3(present: bool):
            def env(e: ast.AST):
                if isinstance(e, ast.Call) and an.callee(f, e) == "asyncio.current_task":
                    return object() if present else None
                if isinstance(e, ast.Name) and deps3.origins(e) == {"call:asyncio.current_task"}:
                    return object() if present else None
                if present and isinstance(e, ast.Call) and isinstance(e.func, ast.Attribute) and e.func.attr in ("done", "cancelled") and not e.args and deps3.origins(e.func.value) == {"call:asyncio.current_task"}:
                    return False  # the task that is running this very code is neither done nor cancelled
                return NOVALUE

            return env

        w = g.must_pass(lambda n: n in cancels, skip_edge=both(scenario(g, env3(True)), normal_only))
        if w is not None:
            ob.fail(f, cancels[0].ast, "with a current task present a path leaves ctx.cancel without requesting cancellation", CFG.show_path(w))
        w = g.search([g.entry], lambda n: n.kind == "exit-return", skip_edge=scenario(g, env3(False)))
        if w is not None:
            ob.fail(f, cancels[0].ast, "outside any task ctx.cancel returns silently instead of raising", CFG.show_path(w))

    # ------------------------------------------------------------------ C07.5-7 cancellation while entering; spawns stay inside the group
    _borrowed(an)

    # ------------------------------------------------------------------ C07.4 children cancelled with the body
    ob = an.ob("C07.4", "K5", "= C06.3: the body's exception (incl. CancelledError) is forwarded to asyncio.TaskGroup.__aexit__, which cancels the spawned tasks")
    sub = Analysis.__new__(Analysis)  # reuse the same program, separate obligation list
    sub.__dict__.update(an.__dict__)
    sub.obligations = []
    c06.check(sub)
    for o in sub.obligations:
        if o.id == "C06.3":
            ob.instances.extend(o.instances)
            for fnd in o.findings:
                fnd.prop, fnd.rule = "C07", "C07.4"
                ob.findings.append(fnd)


    # ------------------------------------------------------------------ C07.10 a cancellation absorbed by the task group is not silenced with the group's errors
    ob = an.ob(
        "C07.10",
        "K10+K4",
        "API_FACT 12: asyncio.TaskGroup.__aexit__ (3.12) raises BaseExceptionGroup - not CancelledError - when the parent is cancelled while it waits and a member then fails during the abort. "
        "The handler in TaskGroupContext.__aexit__ that silences group errors therefore has to look at the pending cancellation (Task.cancelling()) before swallowing",
        ["context.tasks.TaskGroupContext.__aexit__"],
    )
    tg = an.prog.fn("context.tasks.TaskGroupContext.__aexit__")
    gtg = an.cfg(tg)
    gx_aw = [n for n in gtg.nodes if n.kind == "await" and isinstance(n.ast.value, ast.Call) and an.callee(tg, n.ast.value) == c06.GROUP_EXIT]  # type: ignore[union-attr]
    if not gx_aw:
        raise AnalysisError("C07.10: the await of asyncio.TaskGroup.__aexit__ was not found in TaskGroupContext.__aexit__")
    ob.inst(tg, gx_aw[0].ast)
    from ..kinds import classify_handler_for
    from ..loader import within

    for h in [h for h in tg.own_nodes() if isinstance(h, ast.ExceptHandler)]:
        tr = parent(h)
        if not (isinstance(tr, ast.Try) and any(within(gx_aw[0].ast, st) for st in tr.body)):
            continue
        kinds = classify_handler_for(gtg, h, "BaseExceptionGroup")
        if not any(k[0] in ("swallow", "return", "continue") for k in kinds):
            continue
        ob.inst(tg, h)
        looks = any(isinstance(x, ast.Call) and isinstance(x.func, ast.Attribute) and x.func.attr == "cancelling" for x in ast.walk(h)) or any(isinstance(x, ast.Call) and isinstance(x.func, ast.Attribute) and x.func.attr == "cancelling" for x in tg.own_nodes() if not within(x, h) and gtg.search([n for n in gtg.nodes if n.kind == "handler" and n.ast is h], lambda n, x=x: n.ast is x) is not None)
        if not looks:
            ob.fail(tg, h, "group errors are silenced without checking for a cancellation that the task group absorbed: the task carries on (Task.cancelling() stays > 0) instead of ending cancelled", construct="<silencer of task-group errors> without Task.cancelling()")


def _borrowed(an: Analysis) -> None:
    from ..engine import borrow
    from . import c02

    borrow(an, c02.check, {"C02.4": "C07.5"})
    borrow(an, c06.check, {"C06.1": "C07.6", "C06.2": "C07.7", "C06.8": "C07.8", "C06.6": "C07.9"})


def liveness(fixtures: str) -> list[dict]:
    import os

    an = Analysis(os.path.join(fixtures, "c07_swallow"), floors=False)
    hs = cancellation_handlers(an)
    bad = [(fi, h) for fi, h in hs if swallowing(an, fi, h)]
    sup = suppress_calls(an)
    unc = uncancel_calls(an)
    good = [(fi, h) for fi, h in hs if not swallowing(an, fi, h)]
    if len(bad) < 3 or not sup or not unc or len(good) < 2:
        raise AnalysisError(f"C07.1 liveness: fixture expectations not met (bad={len(bad)} suppress={len(sup)} uncancel={len(unc)} good={len(good)})")
    return [{"rule": "C07.1", "fixture": "fixtures/c07_swallow", "swallowing_handlers": len(bad), "compliant_handlers": len(good), "suppress": len(sup), "uncancel": len(unc)}]
