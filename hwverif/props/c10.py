"""C10 - recorded metrics land in the innermost active scope and fold deterministically."""

from __future__ import annotations

import ast

from .. import AnalysisError
from ..astutil import Deps, is_name, norm_cond, plain_body, unwrap
from ..cfg import CFG
from ..engine import Analysis
from ..kinds import NOVALUE, both, call_nodes, calls_to, catches_cancellation, normal_only, scenario, with_locals
from ..loader import FunctionInfo, dotted, parent, stmt_text
from . import c02

ASSUMPTIONS = [
    "MetricsContext._context.get() is the innermost scope of the recording task (C02/C03 give pairing and task isolation)",
    "logging.Logger.log does not raise into the caller (logging.raiseExceptions only prints)",
    "user merge functions may raise anything",
]

SM = "context.metrics.ScopeMetrics"
MC = "context.metrics.MetricsContext"


def nested_uses(an: Analysis):
    smq = an.prog.cls(SM).qualname
    out = []
    for fi in an.prog.scan_functions():
        for n in fi.own_nodes():
            if isinstance(n, ast.Attribute) and n.attr == "_nested":
                t = an.prog.expr_type(fi, n.value)
                if t is not None and t.name == smq:
                    out.append((fi, n))
    return out


def check(an: Analysis) -> None:
    prog = an.prog
    rec = prog.fn(f"{MC}.record")
    srec = prog.fn(f"{SM}.record")

    # ------------------------------------------------------------------ C10.1 recording never raises into user code
    ob = an.ob("C10.1", "K4", "MetricsContext.record: the whole body is inside one try with an Exception handler; the handler (and the context logging it uses) cannot raise; nothing is re-raised", [f"{MC}.record"])
    g = an.cfg(rec)
    body = [s for s in rec.node.body if not (isinstance(s, ast.Expr) and isinstance(s.value, ast.Constant))]
    if not (len(body) == 1 and isinstance(body[0], ast.Try)):
        ob.fail(rec, body[0] if body else None, "code of MetricsContext.record runs outside the protecting try: it can raise into user code")
    else:
        tr = body[0]
        ob.inst(rec, tr)
        classes = [c for h in tr.handlers for c in g.handler_classes(h)]
        if not any(c in ("Exception", "BaseException") for c in classes):
            ob.fail(rec, tr, f"recording failures of class Exception are not all caught (handlers: {classes}): a failing merge function or a missing/complete scope raises into user code")
        if tr.finalbody or tr.orelse:
            for n in g.nodes:
                if n.raises and (any(n.stmt is s or _within(n.stmt, s) for s in tr.finalbody + tr.orelse)):
                    ob.fail(rec, n.ast, "a raising call in the else/finally part of record escapes the handler")
        from ..kinds import classify_handler_for

        for h in tr.handlers:
            ob.inst(rec, h)
            # the nodes of the handler an *Exception* can reach (a wider handler may pass everything else on untouched)
            hn = next((n for n in g.nodes if n.kind == "handler" and n.ast is h), None)
            on_exception = {n.id for n in g.nodes}
            if hn is not None and h.name:
                from ..kinds import Abs as _AbsX
                from ..kinds import Scenario as _ScnX

                def env_x(e: ast.AST, h=h):
                    if isinstance(e, ast.Name) and e.id == h.name:
                        return _AbsX("TypeError", "Exception", "BaseException", "object")
                    return NOVALUE

                scx = _ScnX(g, Deps(prog, rec), env_x)
                on_exception = g.reachable([hn], skip_edge=scx.skip)
            for n in g.nodes:
                if n.meta.get("handler") is h and n.id in on_exception and n.raises and n.kind != "raise":
                    ob.fail(rec, n.ast or n.stmt, f"the error handler of record can itself raise ({stmt_text(n.ast)})")
                if n.meta.get("handler") is h and n.id in on_exception and n.kind == "raise":
                    ob.fail(rec, n.ast, "record re-raises a recording failure into user code")
    for name in ("log_error", "log_warning", "log_info", "log_debug"):
        lf = prog.fn(f"{MC}.{name}")
        esc = an.cfg(lf).escapes
        ob.inst(lf, None, f"escaping exceptions: {sorted(esc) or 'none'}")
        if esc:
            ob.fail(lf, None, f"context logging can raise {sorted(esc)} (it is used by the error handler of record and promised never to raise)")

    # ------------------------------------------------------------------ C10.2 innermost scope, arguments forwarded
    ob = an.ob("C10.2", "K5", "ctx.record -> MetricsContext.record -> <MetricsContext._context.get()>.record(metric, merge=merge): innermost scope only, no walk to a parent", ["context.access.ctx.record", f"{MC}.record"])
    d = Deps(prog, rec)
    pp = rec.param_names()
    cs = calls_to(an, rec, srec.qualname)
    if len(cs) != 1:
        ob.fail(rec, None, f"the metric is recorded into {len(cs)} scopes (must be exactly the innermost one)")
    for c in cs:
        ob.inst(rec, c)
        recv = unwrap(d.inline(c.func.value))  # type: ignore[union-attr]
        if isinstance(recv, ast.Call):
            from ..loader import set_parents

            set_parents(recv)
        if not (isinstance(recv, ast.Call) and an.callee(rec, recv) == "contextvars.ContextVar.get" and c02.contextvar_owner(an, rec, recv.func.value) == prog.cls(MC).qualname and not recv.args):  # type: ignore[union-attr]
            ob.fail(rec, c, "the target is not the scope current in the recording task (MetricsContext._context.get())")
        mk = next((k.value for k in c.keywords if k.arg == "merge"), None)
        if not (c.args and is_name(c.args[0], pp[1]) and is_name(mk, "merge")):
            ob.fail(rec, c, "metric / merge are not forwarded unchanged")
    for fi in (rec, srec):
        for n in fi.own_nodes():
            if isinstance(n, ast.Attribute) and n.attr in ("_parent", "_nested"):
                ob.fail(fi, n, "recording touches parent/nested scopes: a metric must land in the innermost scope and in no other")
    cr = prog.fn("context.access.ctx.record")
    cc = calls_to(an, cr, rec.qualname)
    if len(cc) != 1:
        ob.fail(cr, None, "ctx.record does not delegate to MetricsContext.record exactly once")
    for c in cc:
        ob.inst(cr, c)
        mk = next((k.value for k in c.keywords if k.arg == "merge"), None)
        if not (c.args and is_name(c.args[0], cr.param_names()[0]) and is_name(mk, "merge")):
            ob.fail(cr, c, "ctx.record does not forward metric / merge")
        # every metric handed to ctx.record is recorded: no path returns in front of the delegation (a metric is a State - its truth
        # value, length or equality says nothing about whether it is a record)
        gcr = an.cfg(cr)
        dn_ = [n for n in gcr.nodes if n.kind == "call" and n.ast is c]
        w = gcr.must_pass(lambda n: n in dn_, exits=("exit-return",), skip_edge=normal_only)
        if w is not None:
            ob.fail(cr, w[-2].ast if len(w) > 1 and w[-2].ast is not None else c, "a path through ctx.record returns without recording the metric (a metric whose truth value is False - a State defining __len__ / __bool__ - is a record like any other)", CFG.show_path(w))

    # ------------------------------------------------------------------ C10.3 left fold in recording order
    gs = an.cfg(srec)
    ds = Deps(prog, srec)
    ob = an.ob("C10.3", "K5", "ScopeMetrics.record: first record stored as is, later ones as merge(<stored value>, <new metric>) in that order, under type(metric)", [f"{SM}.record"])
    mp = srec.param_names()[1]

    def is_stored(e: ast.AST) -> bool:
        oo = ds.origins(e)
        return any(o.startswith("call:builtins.dict.get") or o.startswith("item:attr:self._metrics") for o in oo) and f"param:{mp}" not in oo

    def key_ok(e: ast.AST) -> bool:
        e = unwrap(e)
        if isinstance(e, ast.Call) and is_name(e.func, "type") and len(e.args) == 1 and is_name(e.args[0], mp):
            return True
        if isinstance(e, ast.Name):
            sv = ds.single_value(e.id)
            return sv is not None and key_ok(sv)
        return False

    stores = [n for n in gs.nodes if n.kind == "stmt" and isinstance(n.ast, ast.Assign) and any(isinstance(t, ast.Subscript) and dotted(t.value) == "self._metrics" for t in n.ast.targets)]
    if not stores:
        ob.fail(srec, None, "record never stores the metric")
    for st in stores:
        ob.inst(srec, st.ast)
        t = st.ast.targets[0]  # type: ignore[union-attr]
        if not key_ok(t.slice):
            ob.fail(srec, st.ast, "the metric is not stored under its own exact type")

    def env(present: bool):
        def f(e: ast.AST):
            if isinstance(e, ast.Call) and isinstance(e.func, ast.Attribute) and e.func.attr == "get" and dotted(e.func.value) == "self._metrics":
                return _OBJ if present else (None if len(e.args) < 2 else NOVALUE)
            if isinstance(e, ast.Compare) and len(e.ops) == 1 and isinstance(e.ops[0], (ast.In, ast.NotIn)) and dotted(e.comparators[0]) == "self._metrics":
                return present if isinstance(e.ops[0], ast.In) else not present
            return NOVALUE

        return with_locals(ds, f)

    from ..kinds import Scenario

    for present in (True, False):
        sc = Scenario(gs, ds, env(present))
        reach = gs.reachable([gs.entry], skip_edge=both(sc.skip, normal_only))
        live = [s for s in stores if s.id in reach]
        if not live:
            ob.fail(srec, None, f"no store reachable when a previous value is {'present' if present else 'absent'}")
        reach_exc = gs.reachable([gs.entry], skip_edge=sc.skip)
        for st in [s for s in stores if s.id in reach_exc and s.id not in reach]:
            ob.fail(srec, st.ast, "a store that is reached only after something failed (e.g. a raising merge function): the value recorded so far must stay what the fold of the successful merges produced, a failing record leaves it untouched")
        for st in live:
            v = unwrap(sc.reduced_at(st, st.ast.value))  # type: ignore[union-attr]
            alts = [v]
            if isinstance(v, ast.Name) and v.id != mp and ds.single_value(v.id) is None:
                alts = [unwrap(x) for x in sc.values_of(v.id)] or [v]
            elif isinstance(v, ast.Name) and v.id != mp:
                alts = [unwrap(ds.single_value(v.id))]
            elif isinstance(v, ast.Name):
                # the parameter re-bound on the way (`metric = merge(current, metric)` in front of an unconditional store)
                from ..kinds import param_values_at

                unbound_, rebound_ = param_values_at(gs, sc, st, mp)
                if rebound_:
                    alts = [unwrap(x) for x in rebound_] + ([v] if unbound_ else [])
            for v in alts:
                if present:
                    ok = isinstance(v, ast.Call) and is_name(v.func, "merge") and len(v.args) == 2 and is_stored(v.args[0]) and is_name(unwrap(v.args[1]), mp)
                    if not ok:
                        ob.fail(srec, st.ast, "with a previous value present the stored value is not merge(<previous>, <new>) in that order (the fold over records is broken)")
                else:
                    if not is_name(v, mp):
                        ob.fail(srec, st.ast, "the first record of a type is not stored as is")

    # ------------------------------------------------------------------ C10.4 presence not by truthiness
    ob = an.ob("C10.4", "K10", "presence of a previously stored metric is tested by `is None` / `in`, never by the truthiness of a (user-subclassable) State value", [f"{SM}.record"])
    n_tests = 0
    for n in gs.nodes:
        if n.kind == "match-case":
            m = parent(n.ast)
            pat = n.ast.pattern  # type: ignore[union-attr]
            if isinstance(m, ast.Match) and is_stored(m.subject) and isinstance(pat, ast.MatchSingleton) and pat.value is None:
                n_tests += 1  # `case None:` is an identity test
                ob.inst(srec, m.subject)
            continue
        if n.kind != "test" or n.meta.get("assert") is not None:
            continue
        nc = norm_cond(n.ast)
        inner = n.ast.value if isinstance(n.ast, ast.NamedExpr) else n.ast
        if nc[0] == "truthy" and is_stored(inner):
            n_tests += 1
            ob.inst(srec, n.ast)
            ob.fail(srec, n.ast, "a stored metric that is falsy (__bool__/__len__) is treated as absent: it is replaced instead of merged")
        elif nc[0] in ("is_none", "in"):
            n_tests += 1
            ob.inst(srec, n.ast)
    if n_tests == 0:
        ob.fail(srec, None, "record has no presence test for a previous value")

    # ------------------------------------------------------------------ C10.5 nested scopes in creation order
    ob = an.ob("C10.5", "K3", "ScopeMetrics._nested is only appended to (creation order) and iterated directly; metrics(merge=...) folds own values then nested values through merge(current, received)", [SM])
    uses = nested_uses(an)
    for fi, n in uses:
        p = parent(n)
        ob.inst(fi, p)
        if isinstance(p, ast.Attribute) and isinstance(parent(p), ast.Call) and parent(p).func is p:
            if not (p.attr == "append" and fi.name == "__init__"):
                ob.fail(fi, parent(p), f"`_nested.{p.attr}()` disturbs the creation order of nested scopes")
        elif isinstance(p, (ast.comprehension, ast.For)) and p.iter is n:
            pass
        elif isinstance(p, (ast.Assign, ast.AnnAssign)) and fi.name == "__init__":
            pass
        elif isinstance(p, ast.Starred):
            pass
        elif isinstance(p, (ast.UnaryOp, ast.BoolOp, ast.If, ast.While, ast.IfExp, ast.Assert)) or (isinstance(p, ast.Call) and isinstance(p.func, ast.Name) and p.func.id in ("len", "bool")):
            pass  # emptiness / size tests read nothing but the length
        elif isinstance(p, ast.Call) and isinstance(p.func, ast.Name) and p.func.id in ("tuple", "list", "iter", "enumerate") and len(p.args) == 1 and p.args[0] is n:
            pass  # order-preserving snapshot / iteration
        elif isinstance(p, ast.Call) and isinstance(p.func, ast.Name) and p.func.id in ("map", "zip") and n in p.args[(1 if p.func.id == "map" else 0):]:
            pass  # map(f, self._nested): iterated in order
        else:
            ob.fail(fi, p, "nested scopes are not iterated directly in creation order (re-ordered, sliced, sorted or written)")
    if len(uses) < 4:
        raise AnalysisError(f"only {len(uses)} uses of ScopeMetrics._nested found (confirmed: 6)")
    mf = prog.fn(f"{SM}.metrics")
    dm = Deps(prog, mf)
    # every path of metrics() hands back a list of values: the scope's own ones when no merge function is given
    from ..kinds import Scenario as _ScnM

    gm_ = an.cfg(mf)

    def env_nomerge(e: ast.AST):
        if is_name(e, "merge"):
            return None
        return NOVALUE

    scm = _ScnM(gm_, dm, env_nomerge)
    live_m = [n for n in gm_.nodes if n.kind == "return" and n.id in scm.reach]
    ob.inst(mf, None, f"metrics() without merge: {len(live_m)} return(s)")
    if not live_m:
        ob.fail(mf, None, "metrics() without a merge function returns nothing")
    for r in live_m:
        oo_ = dm.of(r.ast.value) if r.ast.value is not None else frozenset()  # type: ignore[union-attr]
        if "attr:self._metrics" not in oo_:
            ob.fail(mf, r.ast, "metrics() without a merge function does not return the scope's own recorded values")
    for r in [n for n in gm_.nodes if n.kind == "return" and n.id not in scm.reach]:
        if r.ast.value is None or (isinstance(r.ast.value, ast.Constant) and r.ast.value.value is None):  # type: ignore[union-attr]
            ob.fail(mf, r.ast, "the merged view is not returned")
    # the merged view depends on the merge function: nothing computed with it may be kept on the scope without being keyed by it
    for n in mf.own_nodes():
        if isinstance(n, (ast.Assign, ast.AnnAssign)) and getattr(n, "value", None) is not None:
            for t in n.targets if isinstance(n, ast.Assign) else [n.target]:
                root = t.value if isinstance(t, ast.Subscript) else t
                if isinstance(root, ast.Attribute) and "param:self" in dm.origins(root.value) | ({"param:self"} if is_name(root.value, "self") else set()):
                    uses_merge = "param:merge" in dm.of(n.value)
                    keyed = isinstance(t, ast.Subscript) and "param:merge" in dm.of(t.slice)
                    if uses_merge and not keyed:
                        ob.fail(mf, n, "a merged view is kept on the scope without being keyed by the merge function it was computed with: later views with another merge function (of this scope and of its ancestors) silently reuse it")
    merges = [c for c in mf.own_nodes() if isinstance(c, ast.Call) and is_name(c.func, "merge")]
    if not merges and any(isinstance(c, ast.Call) and an.callee(mf, c) == "functools.reduce" for f_ in (mf, *mf.nested) for c in f_.own_nodes()):
        # the fold handed to functools.reduce with a step function: a different spelling of the algorithm, not a rearrangement of
        # the loop - not judged (DESIGN section 6)
        raise AnalysisError("C10.5: the merged view is folded with functools.reduce over a step function; this spelling of the fold is not modelled (unrecognised idiom)")
    if len(merges) != 1:
        ob.fail(mf, None, f"metrics() applies the merge function at {len(merges)} sites (expected one)")
    for c in merges:
        ob.inst(mf, c)
        a0 = unwrap(dm.inline(c.args[0])) if c.args else None
        a1 = unwrap(c.args[1]) if len(c.args) > 1 else None
        cur_ok = isinstance(a0, ast.Call) and isinstance(a0.func, ast.Attribute) and a0.func.attr == "get" and len(a0.args) == 2 and "MISSING" in (dotted(a0.args[1]) or "")
        rec_ok = a1 is not None and any(o.startswith("iter:") for o in dm.origins(a1))
        if not (cur_ok and rec_ok):
            ob.fail(mf, c, "nested values are not folded as merge(<current or MISSING>, <received>)")
    for c in merges:
        pass
    loops = [n for n in mf.own_nodes() if isinstance(n, ast.For)]
    outer_ok = False
    for lp in loops:
        it = unwrap(lp.iter)
        ob.inst(mf, lp)
        if isinstance(it, ast.Call) and an.callee(mf, it) == "itertools.chain.from_iterable" and it.args:
            gen = unwrap(it.args[0])
            mc_ = gen.args[0] if isinstance(gen, ast.Call) and is_name(gen.func, "map") and len(gen.args) == 2 else None
            if isinstance(mc_, ast.Call) and (dotted(mc_.func) or "").endswith("methodcaller") and mc_.args and isinstance(mc_.args[0], ast.Constant) and mc_.args[0].value == "metrics" and any(k.arg == "merge" and is_name(k.value, "merge") for k in mc_.keywords) and dotted(gen.args[1]) == "self._nested":
                outer_ok = True  # map(methodcaller("metrics", merge=merge), self._nested): nested.metrics(merge=merge) for every nested scope in order
            elif isinstance(gen, (ast.GeneratorExp, ast.ListComp)) and len(gen.generators) == 1 and not gen.generators[0].ifs:
                el = unwrap(gen.elt)
                if not (isinstance(el, ast.Call) and isinstance(el.func, ast.Attribute) and el.func.attr == "metrics" and any(k.arg == "merge" and is_name(k.value, "merge") for k in el.keywords)):
                    ob.fail(mf, lp, "nested scopes' values are not obtained through nested.metrics(merge=merge) (depth-first fold)")
                if dotted(gen.generators[0].iter) == "self._nested":
                    outer_ok = True
                else:
                    ob.fail(mf, lp, "the fold does not run over self._nested in creation order")
            else:
                ob.fail(mf, lp, "nested scopes are filtered while folding")
        elif dotted(it) == "self._nested":
            # explicit nesting: for nested in self._nested: for metric in nested.metrics(merge=merge): ...
            lbody = plain_body(lp.body)
            inner = [x for x in lbody if isinstance(x, ast.For)]
            var = lp.target.id if isinstance(lp.target, ast.Name) else None
            good = len(lbody) == 1 and len(inner) == 1
            if good:
                el = unwrap(inner[0].iter)
                good = isinstance(el, ast.Call) and isinstance(el.func, ast.Attribute) and el.func.attr == "metrics" and is_name(el.func.value, var or "") and any(k.arg == "merge" and is_name(k.value, "merge") for k in el.keywords)
            if good:
                outer_ok = True
            else:
                ob.fail(mf, lp, "nested scopes' values are not obtained through nested.metrics(merge=merge) for every nested scope in order")
        elif isinstance(it, ast.Call) and isinstance(it.func, ast.Attribute) and it.func.attr == "metrics":
            continue  # the inner loop of the explicit nesting, checked with its outer loop
        else:
            ob.fail(mf, lp, "the fold does not run over self._nested in creation order")
    if loops and not outer_ok and not any(f.rule == "C10.5" for f in ob.findings):
        ob.fail(mf, loops[0], "the fold does not run over self._nested in creation order")
    base = [n for n in mf.own_nodes() if isinstance(n, (ast.Assign, ast.AnnAssign)) and isinstance(n.targets[0] if isinstance(n, ast.Assign) else n.target, ast.Name) and n.value is not None and any(dotted(x) == "self._metrics" for x in ast.walk(n.value))]
    if not base:
        ob.fail(mf, None, "the merged view does not start from the scope's own recorded values")
    for b in base:
        v = unwrap(b.value)
        fresh = (
            (isinstance(v, ast.Call) and an.callee(mf, v) in ("copy.copy", "builtins.dict", "copy.deepcopy") and len(v.args) == 1)
            or (isinstance(v, ast.Call) and isinstance(v.func, ast.Attribute) and v.func.attr == "copy" and dotted(v.func.value) == "self._metrics")
            or (isinstance(v, ast.Dict) and any(k is None for k in v.keys))
            or isinstance(v, ast.DictComp)
        )
        if not fresh:
            # an alias of the own store is harmless on a path that never writes through it (`else: metrics = self._metrics`
            # for the unmerged view): judged by what is reachable from the assignment
            bname = (b.targets[0] if isinstance(b, ast.Assign) else b.target).id  # type: ignore[union-attr]
            gmv = an.cfg(mf)
            at_b = [n_ for n_ in gmv.nodes if n_.kind == "stmt" and n_.ast is b]

            def writes_through(n_, bname=bname) -> bool:
                a_ = n_.ast
                if n_.kind == "stmt" and isinstance(a_, (ast.Assign, ast.AugAssign, ast.Delete)):
                    tg_ = a_.targets if isinstance(a_, (ast.Assign, ast.Delete)) else [a_.target]
                    return any(isinstance(t_, ast.Subscript) and is_name(t_.value, bname) for t_ in tg_) or (isinstance(a_, ast.AugAssign) and is_name(a_.target, bname))
                if n_.kind == "call" and isinstance(a_.func, ast.Attribute) and is_name(a_.func.value, bname):  # type: ignore[union-attr]
                    return a_.func.attr in ("update", "setdefault", "pop", "popitem", "clear", "__setitem__", "__delitem__")  # type: ignore[union-attr]
                return False

            def rebinds(n_, bname=bname) -> bool:
                a_ = n_.ast
                return n_.kind == "stmt" and a_ is not b and isinstance(a_, (ast.Assign, ast.AnnAssign)) and getattr(a_, "value", None) is not None and is_name(a_.targets[0] if isinstance(a_, ast.Assign) else a_.target, bname)

            if at_b and gmv.search(at_b, writes_through, skip_node=rebinds) is None:
                ob.inst(mf, b, "alias of the own store, never written through")
                continue
            ob.fail(mf, b, "the merged view is computed in the scope's own store: nested values are folded into self._metrics (read()/metrics() then report nested records, repeated views fold them again)")
    smq = prog.cls(SM).qualname
    for fi in prog.scan_functions():
        for n in fi.own_nodes():
            tg = []
            if isinstance(n, (ast.Assign, ast.AugAssign, ast.Delete)):
                tg = n.targets if isinstance(n, (ast.Assign, ast.Delete)) else [n.target]
            for t in tg:
                base_ = t.value if isinstance(t, ast.Subscript) else None
                if isinstance(base_, ast.Attribute) and base_.attr == "_metrics":
                    ty = prog.expr_type(fi, base_.value)
                    if ty is not None and ty.name == smq and fi is not srec:
                        ob.fail(fi, n, "ScopeMetrics._metrics is written outside ScopeMetrics.record")
            if isinstance(n, ast.Call) and isinstance(n.func, ast.Attribute) and n.func.attr in ("update", "pop", "clear", "setdefault", "popitem") and isinstance(n.func.value, ast.Attribute) and n.func.value.attr == "_metrics":
                ty = prog.expr_type(fi, n.func.value.value)
                if ty is not None and ty.name == smq:
                    ob.fail(fi, n, f"ScopeMetrics._metrics.{n.func.attr}() removes or rewrites recorded values outside the record fold")

    # ------------------------------------------------------------------ C10.6 tasks finished before metrics are finished
    sa = prog.fn("context.access.ScopeContext.__aexit__")
    ga = an.cfg(sa)
    ob = an.ob("C10.6", "K1 order", "in ScopeContext.__aexit__ the task-group exit is attempted before the metrics exit on every path: spawned tasks inherit the scope's metrics and must not record into a finished scope", ["context.access.ScopeContext.__aexit__"])
    gx = call_nodes(an, ga, c02.G_EXIT)
    mx = call_nodes(an, ga, c02.M_EXIT)
    if gx and mx:
        ob.inst(sa, gx[0].ast)
        ob.inst(sa, mx[0].ast)
        w = ga.ordered(lambda n: n in gx, lambda n: n in mx)
        if w is not None:
            ob.fail(sa, mx[0].ast, "the metrics scope can be finished while spawned tasks of the scope are still running", CFG.show_path(w))
    else:
        ob.fail(sa, None, "task group exit / metrics exit not found in ScopeContext.__aexit__")

    # ------------------------------------------------------------------ C10.7 the metrics variable is restored on every exit path (records land in the innermost *open* scope)
    _borrowed_c02(an)



def _within(a, b) -> bool:
    from ..loader import within

    return a is not None and within(a, b)


_OBJ = object()


def _borrowed_c02(an: Analysis) -> None:
    from ..engine import borrow
    from . import c02

    borrow(an, c02.check, {"C02.1": "C10.7"}, keep=lambda f: "MetricsContext" in f.at or "MetricsContext" in f.message)
    # a spawned task records into the scope it was spawned from: it runs in a copy of the spawner's context (C03.3)
    from . import c03

    borrow(an, c03.check, {"C03.3": "C10.8"})
    from . import c05

    # C05.10 / C05.14: metrics are kept per type(metric) - two specialisations of a generic metric State must be two classes
    # (a specialisation cache keyed by a rendering of the arguments hands the same class out for Counter[Literal["a"]] and
    # Counter[Literal["b"]]: their records fold into one value)
    borrow(an, c05.check, {"C05.10": "C10.9", "C05.14": "C10.10"}, keep=lambda f: "__class_getitem__" in f.at or "_types_cache" in f.construct)
