"""C09 - scope completion fires exactly once, after the whole subtree has been left."""

from __future__ import annotations

import ast

from .. import AnalysisError
from ..astutil import Deps, is_name, norm_cond, unwrap
from ..cfg import CFG, Node
from ..engine import Analysis
from ..kinds import NOVALUE, anything, both, call_nodes, calls_to, normal_only, q, scenario, strict_but, token_assert, token_assert_for
from ..loader import FunctionInfo, dotted, parent, stmt_text
from . import c02

ASSUMPTIONS = [
    "asyncio.Future can be resolved once; its done-callbacks are scheduled exactly once by the loop (scheduling liveness trusted)",
    "the event loop eventually runs scheduled callbacks",
]

SM = "context.metrics.ScopeMetrics"
MC = "context.metrics.MetricsContext"
RESOLVERS = ("set_result", "set_exception", "cancel")

# C09.6 exception table: call sites whose callee precondition is established by a protocol rather than a dominating test
PRECONDITION_TABLE = {
    # (caller qualname, callee short): reason
    ("haiway.context.metrics.MetricsContext.__exit__", "_finish"): "token protocol: __exit__ runs once per __enter__, which asserted `not _finished`; C09.1 shows _finish's own callers are the only ones that set it",
}


def completed_ops(an: Analysis, attr_names=("_completed",)):
    """Calls <x>._completed.<op>() anywhere in the package where x is a ScopeMetrics."""
    smq = an.prog.cls(SM).qualname
    out = []
    for fi in an.prog.scan_functions():
        for n in fi.own_nodes():
            if isinstance(n, ast.Call) and isinstance(n.func, ast.Attribute) and isinstance(n.func.value, ast.Attribute):
                recv = n.func.value
                if recv.attr in attr_names:
                    t = an.prog.expr_type(fi, recv.value)
                    if t is not None and t.name == smq:
                        out.append((fi, n, n.func.attr))
    return out


def nested_incomplete_value(test: ast.AST) -> object:
    """Value of a guard that talks about self._nested and child completion, in the scenario
    'some nested scope is not completed yet'."""
    mentions_nested = any(isinstance(x, ast.Attribute) and x.attr == "_nested" for x in ast.walk(test))
    mentions_done = any(isinstance(x, ast.Attribute) and x.attr in ("is_completed", "_completed") for x in ast.walk(test))
    if not (mentions_nested and mentions_done):
        return NOVALUE
    if isinstance(test, ast.Call) and isinstance(test.func, ast.Name) and test.func.id in ("any", "all") and test.args:
        gen = test.args[0]
        if isinstance(gen, (ast.GeneratorExp, ast.ListComp)):
            elt = gen.elt
            neg = False
            while isinstance(elt, ast.UnaryOp) and isinstance(elt.op, ast.Not):
                neg = not neg
                elt = elt.operand
            # elt is "child completed"
            if test.func.id == "any":
                return True if neg else NOVALUE  # any(not completed) -> True ; any(completed) unknown
            return NOVALUE if neg else False  # all(completed) -> False
    raise AnalysisError(f"C09.2: unrecognised nested-completion guard `{stmt_text(test)}`")


def leading_asserts(fi: FunctionInfo) -> list[ast.Assert]:
    out = []
    for s in fi.node.body:
        if isinstance(s, ast.Expr) and isinstance(s.value, ast.Constant):
            continue
        if isinstance(s, ast.Assert):
            out.append(s)
        else:
            break
    return out


def subst_self(e: ast.AST, selfname: str, recv: ast.AST) -> ast.AST:
    from ..astutil import clone

    class T(ast.NodeTransformer):
        def visit_Name(self, n):  # noqa: N802
            if n.id == selfname:
                return clone(recv)
            return n

    return T().visit(clone(e))


def atom_and_truth(pred: ast.AST) -> tuple[str, bool]:
    truth = True
    while isinstance(pred, ast.UnaryOp) and isinstance(pred.op, ast.Not):
        truth = not truth
        pred = pred.operand
    return ast.dump(pred), truth


def check(an: Analysis) -> None:
    prog = an.prog
    smq = prog.cls(SM).qualname
    cia = prog.fn(f"{SM}._complete_if_able")
    fin = prog.fn(f"{SM}._finish")
    init = prog.fn(f"{SM}.__init__")
    mexit = prog.fn(f"{MC}.__exit__")
    CIA = cia.qualname
    FIN = fin.qualname

    # ------------------------------------------------------------------ C09.1 single resolution / callback site
    ob = an.ob("C09.1", "K3", "ScopeMetrics._completed is resolved (set_result/set_exception/cancel) at exactly one site, inside _complete_if_able; the completion callback is attached at exactly one site, as its done-callback", [SM])
    ops = completed_ops(an)
    res = [(f, c) for f, c, op in ops if op in RESOLVERS]
    cbs = [(f, c) for f, c, op in ops if op == "add_done_callback"]
    for f, c in res:
        ob.inst(f, c, "resolution")
        if f is not cia:
            ob.fail(f, c, "the completion future is resolved outside ScopeMetrics._complete_if_able")
    if len([1 for f, c in res if f is cia]) != 1:
        ob.fail(cia, None, f"_complete_if_able resolves the completion future at {len(res)} sites (must be exactly one)")
    for f, c in cbs:
        ob.inst(f, c, "callback attach")
        if f is not init:
            ob.fail(f, c, "completion callback attached outside ScopeMetrics.__init__")
    if len(cbs) != 1:
        ob.fail(init, None, f"completion callback attached at {len(cbs)} sites (must be exactly one)")
    else:
        # the callback must invoke `completion(<the metrics>)` in every variant
        cbfuns = [nf for nf in init.nested]
        arg = cbs[0][1].args[0] if cbs[0][1].args else None
        dinit = Deps(prog, init)
        # `cb = <nested def>` / the value(s) returned by an inlined factory: every definition must be a local wrapper
        def wrappers_of(e: ast.AST | None, depth: int = 3) -> set[str] | None:
            if not isinstance(e, ast.Name):
                return None
            if any(nf.name == e.id for nf in cbfuns):
                return {e.id}
            if depth == 0:
                return None
            vals_ = [v for k, v in dinit.defs(init, e.id) if k == "value" and not getattr(parent(v), "_inline_init", False)]
            if not vals_ or len(vals_) != len([1 for k, v in dinit.defs(init, e.id) if not getattr(parent(v), "_inline_init", False)]):
                return None
            out_: set[str] = set()
            for v in vals_:
                sub = wrappers_of(v, depth - 1)
                if sub is None:
                    return None
                out_ |= sub
            return out_

        attached = wrappers_of(arg)
        # the wrappers as module-level functions bound with functools.partial(<wrapper>, completion, self) - the wrapper chosen by
        # a conditional expression or per branch
        bound_form = False
        parg = unwrap(dinit.inline(arg)) if arg is not None else None
        if not attached and isinstance(parg, ast.Call) and an.callee(init, parg) == "functools.partial" and parg.args and not parg.keywords and not any(isinstance(a_, ast.Starred) for a_ in parg.args):
            heads: list[ast.AST] = [unwrap(parg.args[0])]
            fns_: list[FunctionInfo] = []
            while heads:
                h_ = heads.pop()
                if isinstance(h_, ast.IfExp):
                    heads += [unwrap(h_.body), unwrap(h_.orelse)]
                elif isinstance(h_, ast.Name) and (t_ := prog.functions.get(prog.resolve_global(init.module, h_.id) or "")) is not None and t_.module is init.module:
                    fns_.append(t_)
                else:
                    fns_ = []
                    break
            if fns_:
                bound_form = True
                for t_ in fns_:
                    a_ = t_.node.args
                    pos_ = [p.arg for p in a_.posonlyargs + a_.args]
                    given_ = dict(zip(pos_, parg.args[1:]))
                    cparam = [p for p, v in given_.items() if dinit.of(v) == {"param:completion"} or "param:completion" in dinit.origins(v)]
                    mparam = [p for p, v in given_.items() if is_name(unwrap(v), "self")]
                    calls_ = [c for c in t_.own_nodes() if isinstance(c, ast.Call) and isinstance(c.func, ast.Name) and c.func.id in cparam]
                    ob.inst(t_, calls_[0] if calls_ else None, "callback body")
                    if len(pos_) != len(given_) + 1:
                        ob.fail(t_, None, "the bound completion wrapper cannot be called with the completed future as its only further argument")
                    if len(calls_) != 1:
                        ob.fail(t_, None, f"callback variant invokes the completion {len(calls_)} times (must be exactly once)")
                    elif not (len(calls_[0].args) == 1 and isinstance(calls_[0].args[0], ast.Name) and calls_[0].args[0].id in mparam):
                        ob.fail(t_, calls_[0], "completion is not called with the finished scope metrics")
        if not attached and not bound_form:
            ob.fail(init, cbs[0][1], "the done-callback is not one of the local completion wrappers")
        attached = attached or set()
        for nf in cbfuns:
            if nf.name in attached:
                d = Deps(prog, nf)
                calls = [c for c in nf.own_nodes() if isinstance(c, ast.Call) and "param:completion" in d.of(c.func)]
                ob.inst(nf, calls[0] if calls else None, "callback body")
                if len(calls) != 1:
                    ob.fail(nf, None, f"callback variant invokes the completion {len(calls)} times (must be exactly once)")
                elif not (len(calls[0].args) == 1 and {"param:self"} & d.of(calls[0].args[0]) or (calls and d.of(calls[0].args[0]) & {"param:self"})):
                    ob.fail(nf, calls[0], "completion is not called with the finished scope metrics")
        # attaching is guarded only by `completion` being given
        gi = an.cfg(init)
        att = [n for n in gi.nodes if n.kind == "call" and n.ast is cbs[0][1]]
        d0 = Deps(prog, init)

        def env_given(e: ast.AST):
            if isinstance(e, ast.Name) and d0.of(e) == {"param:completion"}:
                return True
            if isinstance(e, ast.Call) and an.callee(init, e) == "asyncio.iscoroutinefunction":
                return NOVALUE
            return NOVALUE

        w = gi.must_pass(lambda n: n in att, exits=("exit-return",), skip_edge=both(normal_only, scenario(gi, env_given)))
        if w is not None:
            ob.fail(init, cbs[0][1], "with a completion given, a normal path through __init__ does not attach it", CFG.show_path(w))

    # ------------------------------------------------------------------ C09.2 resolution guarded
    g = an.cfg(cia)
    ob = an.ob("C09.2", "K2", "in _complete_if_able the resolution is unreachable while the scope is not finished, and while any nested scope is not completed", [f"{SM}._complete_if_able"])
    rnodes = [n for n in g.nodes if n.kind == "call" and any(n.ast is c for f, c in res if f is cia)]
    if rnodes:
        ob.inst(cia, rnodes[0].ast)

        def env_unfinished(e: ast.AST):
            if dotted(e) == "self._finished":
                return False
            return NOVALUE

        w = g.search([g.entry], lambda n: n in rnodes, skip_edge=scenario(g, env_unfinished))
        if w is not None:
            ob.fail(cia, rnodes[0].ast, "the completion future can be resolved although the scope itself is not finished", CFG.show_path(w))

        def env_nested(e: ast.AST):
            return nested_incomplete_value(e)

        tests = [n for n in g.nodes if n.kind == "test" and nested_incomplete_value(n.ast) is not NOVALUE]
        # the same guard as a loop: `for nested in self._nested: if not nested.is_completed: return`
        loops_ = [n for n in g.nodes if n.kind == "for-iter" and isinstance(n.ast, ast.For) and dotted(n.ast.iter) == "self._nested" and isinstance(n.ast.target, ast.Name)]
        loop_vars = {n.ast.target.id for n in loops_}  # type: ignore[union-attr]
        loop_tests = [n for n in g.nodes if n.kind == "test" and any(isinstance(x, ast.Attribute) and x.attr in ("is_completed",) and isinstance(x.value, ast.Name) and x.value.id in loop_vars for x in ast.walk(n.ast))]
        if loop_tests and not tests:

            def env_loop(e: ast.AST):
                # scenario: there are nested scopes and the one at hand is not completed
                if isinstance(e, ast.Attribute) and e.attr == "is_completed" and isinstance(e.value, ast.Name) and e.value.id in loop_vars:
                    return False
                return NOVALUE

            ob.inst(cia, loop_tests[0].ast, "nested guard (loop form)")
            sc_loop = scenario(g, env_loop)
            w = g.search([g.entry], lambda n: n in rnodes, skip_edge=lambda a, b, lab: sc_loop(a, b, lab) or (a in loops_ and lab == "F"))
            if w is not None:
                ob.fail(cia, rnodes[0].ast, "the completion future can be resolved while a nested scope is not completed", CFG.show_path(w))
        elif not tests:
            ob.fail(cia, rnodes[0].ast, "no guard on the completion of nested scopes before resolving")
        else:
            ob.inst(cia, tests[0].ast, "nested guard")
            w = g.search([g.entry], lambda n: n in rnodes, skip_edge=scenario(g, env_nested))
            if w is not None:
                ob.fail(cia, rnodes[0].ast, "the completion future can be resolved while a nested scope is not completed", CFG.show_path(w))
        # result = elapsed time: monotonic() - self._timestamp
        val = rnodes[0].ast.args[0] if rnodes[0].ast.args else None  # type: ignore[union-attr]
        dd = Deps(prog, cia).of(val)
        if not ("call:time.monotonic" in dd and "attr:self._timestamp" in dd):
            ob.fail(cia, rnodes[0].ast, "the completion result is not the elapsed time (monotonic() - self._timestamp)")

    # ------------------------------------------------------------------ C09.3 finish -> complete
    ob = an.ob("C09.3", "K1", "_finish sets _finished and then calls _complete_if_able on every normal path; MetricsContext.__exit__ calls _finish on every path (token assert exempt)", [f"{SM}._finish", f"{MC}.__exit__"])
    gf = an.cfg(fin)
    stores = [n for n in gf.nodes if n.kind == "stmt" and isinstance(n.ast, (ast.Assign, ast.AnnAssign)) and any(dotted(t) == "self._finished" for t in (n.ast.targets if isinstance(n.ast, ast.Assign) else [n.ast.target])) and isinstance(n.ast.value, ast.Constant) and n.ast.value.value is True]
    calls = [n for n in call_nodes(an, gf, CIA) if dotted(n.ast.func.value) == "self"]  # type: ignore[union-attr]
    if not stores:
        ob.fail(fin, None, "_finish never sets self._finished = True")
    if not calls:
        ob.fail(fin, None, "_finish never calls self._complete_if_able()")
    if stores and calls:
        ob.inst(fin, stores[0].ast)
        ob.inst(fin, calls[0].ast)
        for what, nodes in (("set _finished", stores), ("call _complete_if_able", calls)):
            w = gf.must_pass(lambda n: n in nodes, exits=("exit-return",), skip_edge=normal_only)
            if w is not None:
                ob.fail(fin, nodes[0].ast, f"a normal path through _finish does not {what}", CFG.show_path(w))
        w = gf.ordered(lambda n: n in stores, lambda n: n in calls)
        if w is not None:
            ob.fail(fin, calls[0].ast, "_complete_if_able is called before the scope is marked finished", CFG.show_path(w))
    gx = an.cfg(mexit)
    fcalls = call_nodes(an, gx, FIN)
    if not fcalls:
        ob.fail(mexit, None, "MetricsContext.__exit__ never finishes its metrics scope")
    else:
        ob.inst(mexit, fcalls[0].ast)
        if dotted(fcalls[0].ast.func.value) != "self._metrics":  # type: ignore[union-attr]
            ob.fail(mexit, fcalls[0].ast, "finishes a different metrics scope than its own")
        w = gx.must_pass(lambda n: n in fcalls, raising=strict_but(token_assert_for(prog, mexit)))
        if w is not None:
            ob.fail(mexit, fcalls[0].ast, "a path leaves MetricsContext.__exit__ without finishing the metrics scope", CFG.show_path(w))

    for name in ("context.access.ScopeContext.__exit__", "context.access.ScopeContext.__aexit__"):
        c02._must_attempt(an, ob, prog.fn(name), {"metrics exit": c02.M_EXIT})

    # ------------------------------------------------------------------ C09.4 upward notification
    ob = an.ob("C09.4", "K1", "after resolving, _complete_if_able notifies the (not yet completed) parent on every normal path", [f"{SM}._complete_if_able"])
    dcia = Deps(prog, cia)
    ups = [n for n in call_nodes(an, g, CIA) if "attr:self._parent" in dcia.origins(n.ast.func.value)]  # type: ignore[union-attr]
    if not ups:
        ob.fail(cia, None, "the parent scope is never notified about the completion of a nested scope")
    elif rnodes:
        ob.inst(cia, ups[0].ast)

        def env_parent(e: ast.AST):
            dd = dcia.origins(e)
            if isinstance(e, (ast.Name, ast.Attribute)) and dd == {"attr:self._parent"}:
                return True
            if isinstance(e, ast.Call) and isinstance(e.func, ast.Attribute) and e.func.attr == "done" and "attr:self._parent" in dcia.root_origins(e.func.value):
                return False
            if isinstance(e, ast.Attribute) and e.attr == "is_completed" and "attr:self._parent" in dcia.root_origins(e.value):
                return False
            return NOVALUE

        starts = [t for t, lab in rnodes[0].succ if lab not in ("exc", "reraise")]
        w = g.must_pass(lambda n: n in ups, starts=starts, exits=("exit-return",), skip_edge=both(normal_only, scenario(g, env_parent)))
        if w is not None:
            ob.fail(cia, ups[0].ast, "after completing, a path returns without notifying a live parent", CFG.show_path(w))

    # ------------------------------------------------------------------ C09.5 registration under the current scope
    ob = an.ob("C09.5", "K1", "a scope created while another is current gets it as _parent and is appended to its _nested", [f"{SM}.__init__", f"{MC}.scope"])
    gi = an.cfg(init)
    di = Deps(prog, init)
    apps = [n for n in gi.nodes if n.kind == "call" and isinstance(n.ast.func, ast.Attribute) and n.ast.func.attr == "append" and isinstance(n.ast.func.value, ast.Attribute) and n.ast.func.value.attr == "_nested" and "param:parent" in di.origins(n.ast.func.value.value)]  # type: ignore[union-attr]
    if not apps:
        ob.fail(init, None, "a nested scope is never registered in its parent's _nested")
    else:
        ob.inst(init, apps[0].ast)
        if not (len(apps[0].ast.args) == 1 and is_name(apps[0].ast.args[0], "self")):  # type: ignore[union-attr]
            ob.fail(init, apps[0].ast, "registers something else than the new scope")

        def env_reg(e: ast.AST):
            dd = di.origins(e)
            if isinstance(e, ast.Name) and dd == {"param:parent"}:
                return True
            if isinstance(e, ast.Call) and isinstance(e.func, ast.Attribute) and e.func.attr == "done" and "param:parent" in di.root_origins(e.func.value):
                return False
            if isinstance(e, ast.Attribute) and e.attr == "is_completed" and "param:parent" in di.root_origins(e.value):
                return False
            return NOVALUE

        w = gi.must_pass(lambda n: n in apps, exits=("exit-return",), skip_edge=both(normal_only, scenario(gi, env_reg)))
        if w is not None:
            ob.fail(init, apps[0].ast, "with a live parent given, a normal path through __init__ skips the registration", CFG.show_path(w))
    pv = prog.cls(SM).attr_val.get("_parent", [])
    if not pv or not all("param:parent" in di.origins(v) for v in pv):
        ob.fail(init, None, "self._parent does not hold the given parent")
    else:
        ob.inst(init, pv[0], "_parent")
    scope = prog.fn(f"{MC}.scope")
    ds = Deps(prog, scope)
    ctor = calls_to(an, scope, smq)
    nested_ok = False
    for c in ctor:
        pa = next((k.value for k in c.keywords if k.arg == "parent"), None)
        if pa is not None and "call:contextvars.ContextVar.get" in ds.origins(pa):
            nested_ok = True
            ob.inst(scope, c, "nested branch")
    if not nested_ok:
        ob.fail(scope, None, "MetricsContext.scope never passes the current scope as parent of the new one")
    # end to end (shared with C19): whatever logger / trace id is given, a scope built while another is current is linked to it
    from .c19 import evaluate_scope_construction

    for row in evaluate_scope_construction(an):
        if row["ctor"] is None or not row["has_current"]:
            continue
        ob.inst(scope, row["ctor"].ast, row["situation"])
        if row["kw"].get("parent") is not row.get("CUR"):
            ob.fail(scope, row["ctor"].ast, f"with {row['situation']} the new scope is not linked to the current scope (parent = {row['kw'].get('parent')!r}): the enclosing scope completes - and fires its callback - while this one is still running")

    # ------------------------------------------------------------------ C09.6 callee-assert preconditions
    ob = an.ob(
        "C09.6",
        "K2 inter-procedural",
        "every call of a ScopeMetrics method that starts with `assert <state predicate on self>` is dominated, in the caller, by a test/assert "
        "establishing that predicate for the same receiver (exception table: MetricsContext.__exit__ -> _finish, token protocol)",
    )
    for callee in (cia, fin):
        preds = leading_asserts(callee)
        if not preds:
            continue
        selfname = callee.node.args.args[0].arg
        for fi in prog.scan_functions():
            for c in calls_to(an, fi, callee.qualname):
                recv = c.func.value  # type: ignore[union-attr]
                key = (fi.qualname, callee.name)
                ob.inst(fi, c, f"requires {len(preds)} predicate(s)")
                if key in PRECONDITION_TABLE:
                    ob.note(f"{fi.short} -> {callee.name}: exempt - {PRECONDITION_TABLE[key]}")
                    continue
                gc = an.cfg(fi)
                cn = [n for n in gc.nodes if n.kind == "call" and n.ast is c]
                for a in preds:
                    want = subst_self(a.test, selfname, recv)
                    # a local alias of the receiver (walrus / assignment) counts as the receiver
                    atom, truth = atom_and_truth(want)
                    dcall = Deps(prog, fi)
                    recv_deps = dcall.of(recv)

                    def matches(n: Node, atom=atom, want=want, dcall=dcall, recv=recv, selfname=selfname, a=a) -> bool:
                        if n.kind != "test":
                            return False
                        t = n.ast
                        if ast.dump(t) == atom:
                            return True
                        # same predicate spelled through an alias of the receiver
                        pa, _ = atom_and_truth(a.test)
                        ta = ast.dump(t)
                        # compare shapes with every Name replaced by the receiver's dependency set
                        return _same_modulo_alias(t, atom_expr(want), dcall)

                    est = "T" if truth else "F"
                    for node in cn:
                        # remove the establishing edges: the call must become unreachable
                        w = gc.search([gc.entry], lambda n, node=node: n is node, skip_edge=lambda x, y, lab: matches(x) and lab == est)
                        if w is not None:
                            ob.fail(fi, c, f"calls {callee.name}() whose precondition `{stmt_text(a.test)}` is not established for `{stmt_text(recv)}` on this path", CFG.show_path(w))
                            break

    # ------------------------------------------------------------------ C09.7 time frozen after completion
    tf = prog.fn(f"{SM}.time")
    gt = an.cfg(tf)
    ob = an.ob("C09.7", "K8", "ScopeMetrics.time returns the stored completion result once _completed.done()", [f"{SM}.time"])

    def env_done(e: ast.AST):
        if isinstance(e, ast.Call) and isinstance(e.func, ast.Attribute) and e.func.attr == "done" and dotted(e.func.value) == "self._completed":
            return True
        return NOVALUE

    rets = [n for n in gt.nodes if n.kind == "return"]
    reach = gt.reachable([gt.entry], skip_edge=scenario(gt, env_done))
    live = [n for n in rets if n.id in reach]
    if not live:
        ob.fail(tf, None, "time has no return for a completed scope")
    for n in live:
        ob.inst(tf, n.ast)
        v = n.ast.value  # type: ignore[union-attr]
        if not (isinstance(v, ast.Call) and isinstance(v.func, ast.Attribute) and v.func.attr == "result" and dotted(v.func.value) == "self._completed"):
            ob.fail(tf, n.ast, "a completed scope does not report the stored completion time (it keeps changing)")

    # is_completed (used by the parent's nested guard and reported to users): false while the own future is pending
    ob = an.ob("C09.11", "K8", "ScopeMetrics.is_completed (the parent's nested guard and the user-visible report) is false while the scope's own completion future is pending and true once it and every nested scope completed", [f"{SM}.is_completed"])
    isc = prog.fn(f"{SM}.is_completed")
    from ..kinds import eval_expr

    gc_ = an.cfg(isc)
    # the nested part written as a loop: `for nested in self._nested: if not nested.is_completed: return False`
    isc_loops = [n for n in gc_.nodes if n.kind == "for-iter" and isinstance(n.ast, ast.For) and dotted(n.ast.iter) == "self._nested" and isinstance(n.ast.target, ast.Name)]
    isc_vars = {n.ast.target.id for n in isc_loops}  # type: ignore[union-attr]

    def own_done(e: ast.AST) -> bool:
        return isinstance(e, ast.Call) and isinstance(e.func, ast.Attribute) and e.func.attr == "done" and dotted(e.func.value) == "self._completed"

    def env_pending(e: ast.AST):
        if own_done(e):
            return False
        return NOVALUE

    def env_all_done(e: ast.AST):
        if own_done(e):
            return True
        if isinstance(e, ast.Call) and is_name(e.func, "all"):
            return True
        if isinstance(e, ast.Call) and is_name(e.func, "any"):
            return False
        if isinstance(e, ast.Attribute) and e.attr == "is_completed" and isinstance(e.value, ast.Name) and e.value.id in isc_vars:
            return True
        return NOVALUE

    for r in [n for n in gc_.nodes if n.kind == "return"]:
        ob.inst(isc, r.ast, "is_completed")
        if gc_.search([gc_.entry], lambda n, r=r: n is r, skip_edge=scenario(gc_, env_pending), include_start=True) is not None:
            v1 = eval_expr(r.ast.value, env_pending) if r.ast.value is not None else None  # type: ignore[union-attr]
            if v1 is NOVALUE or v1:
                ob.fail(isc, r.ast, "is_completed can be true while the scope's own completion is still pending: a parent then completes (and fires its callback) before this scope was left")
        if gc_.search([gc_.entry], lambda n, r=r: n is r, skip_edge=scenario(gc_, env_all_done), include_start=True) is not None:
            v2 = eval_expr(r.ast.value, env_all_done) if r.ast.value is not None else None  # type: ignore[union-attr]
            if v2 is not NOVALUE and not v2:
                ob.fail(isc, r.ast, "is_completed is false although the scope and all nested scopes completed")

    # ------------------------------------------------------------------ C09.8 failing enter finishes the pre-registered metrics
    saenter = prog.fn("context.access.ScopeContext.__aenter__")
    gs = an.cfg(saenter)
    ob = an.ob("C09.8", "K1 suspension", "= C02.4 for metrics: a scope whose __aenter__ fails after the task group was entered still finishes its (already registered) metrics scope, otherwise its parent never completes", ["context.access.ScopeContext.__aenter__"])
    ent = [n for n in gs.nodes if n.kind == "await" and isinstance(n.ast.value, ast.Call) and an.callee(saenter, n.ast.value) == c02.G_ENTER]  # type: ignore[union-attr]
    mx = call_nodes(an, gs, c02.M_EXIT)
    if ent:
        ob.inst(saenter, ent[0].ast)
        starts = [t for t, lab in ent[0].succ if lab not in ("exc", "reraise")]
        w = gs.search(starts, lambda n: n.kind == "exit-raise", skip_node=lambda n: n in mx, skip_edge=CFG.no_exc_from(anything))
        if w is None:
            for s in starts:
                if anything(s) and s not in mx and any(t.kind == "exit-raise" for t, lab in s.succ if lab == "exc"):
                    w = [s, gs.rse]
        if w is not None:
            culprit = next((n for n in reversed(w) if n.kind in ("call", "await", "comp")), w[0])
            ob.fail(saenter, culprit.ast, "a failing __aenter__ leaves the pre-registered metrics scope unfinished (parent scope can never complete)", CFG.show_path(w))
        men = call_nodes(an, gs, c02.q("context.metrics.MetricsContext.__enter__"))
        for x in mx:
            w = gs.search([gs.entry], lambda n, x=x: n is x, skip_node=lambda n: n in men)
            if w is not None:
                ob.fail(saenter, x.ast, "the roll-back leaves the metrics context without having entered it: MetricsContext.__exit__ trips its own `token is not None` assertion, the roll-back dies with AssertionError and the task group is left open", CFG.show_path(w))
    else:
        ob.fail(saenter, None, "task group enter not found")

    # ------------------------------------------------------------------ C09.10 spawned tasks are joined before the metrics scope is finished
    from ..engine import borrow
    from . import c10

    borrow(an, c10.check, {"C10.6": "C09.10"})
    from . import c02 as c02_

    # C02.1: leaving a scope makes current again what was current when it was *entered* (token reset): restoring the creation-time
    # parent instead re-parents scopes opened afterwards - a scope completes while a scope nested under it is still running
    borrow(an, c02_.check, {"C02.1": "C09.12"}, keep=lambda f: "MetricsContext" in f.at or "MetricsContext" in f.message)

    # ------------------------------------------------------------------ C09.9 no registration under a completed parent
    ob = an.ob("C09.9", "K2", "registration in the parent's _nested is unreachable when the parent is already completed (a completed scope keeps reporting is_completed)", [f"{SM}.__init__"])
    if apps:
        ob.inst(init, apps[0].ast)

        def env_completed(e: ast.AST):
            dd = di.origins(e)
            if isinstance(e, ast.Name) and dd == {"param:parent"}:
                return True
            if isinstance(e, ast.Call) and isinstance(e.func, ast.Attribute) and e.func.attr == "done" and "param:parent" in di.root_origins(e.func.value):
                return True
            if isinstance(e, ast.Attribute) and e.attr == "is_completed" and "param:parent" in di.root_origins(e.value):
                return True
            return NOVALUE

        w = gi.search([gi.entry], lambda n: n in apps, skip_edge=scenario(gi, env_completed))
        if w is not None:
            ob.fail(init, apps[0].ast, "a scope created under an already completed parent is registered in it: the parent stops reporting completed and leaving the new scope trips the parent's completion assert", CFG.show_path(w))


def atom_expr(e: ast.AST) -> ast.AST:
    while isinstance(e, ast.UnaryOp) and isinstance(e.op, ast.Not):
        e = e.operand
    return e


def _same_modulo_alias(a: ast.AST, b: ast.AST, deps: Deps) -> bool:
    """Structural equality where a Name in `a` may stand for an expression in `b` it is an alias of
    (single-definition local whose value, inlined, equals that expression)."""
    ia = deps.inline(a)
    ib = deps.inline(b)
    return ast.dump(ia) == ast.dump(ib)
