"""C14 - retry makes exactly the allowed attempts and reports the true last outcome."""

from __future__ import annotations

import ast

from .. import AnalysisError
from ..astutil import Deps, is_name, norm_cond, unwrap
from ..cfg import CFG, Node
from ..engine import Analysis
from ..kinds import NOVALUE, both, classify_handler, forwards_varargs, normal_only, scenario, vararg_names, with_locals
from ..loader import FunctionInfo, dotted, parent, stmt_text, within

ASSUMPTIONS = [
    "API_FACT 7: a parameter annotated float admits int (PEP 484); `case float(x)` does not match an int",
    "asyncio.sleep / time.sleep pause for the given number of seconds",
    "CancelledError derives from BaseException",
]

SIBLINGS = [("helpers.retries._wrap_sync.wrapped", False), ("helpers.retries._wrap_async.wrapped", True)]


def inner_roles(an: Analysis, outer: FunctionInfo) -> dict[str, str]:
    """Names under which `limit`, `delay` and `catching` of retry() arrive in a wrapper factory (its own parameter
    names may differ): read off the call in retry._wrap that builds the wrapper."""
    prog = an.prog
    wrap = prog.fn("helpers.retries.retry._wrap")
    dw = Deps(prog, wrap)
    roles = {"limit": "limit", "delay": "delay", "catching": "catching"}
    params = [a.arg for a in outer.node.args.posonlyargs + outer.node.args.args]
    for c in [c for c in wrap.own_nodes() if isinstance(c, ast.Call) and an.callee(wrap, c) == outer.qualname]:
        passed: dict[str, ast.AST] = {p: a for p, a in zip(params, c.args)}
        passed.update({k.arg: k.value for k in c.keywords if k.arg})
        for role in roles:
            hits = [p for p, v in passed.items() if f"param:{role}" in dw.of(v)]
            if len(hits) == 1:
                roles[role] = hits[0]
    return roles


def check(an: Analysis) -> None:
    prog = an.prog
    ob1 = an.ob("C14.1", "K2+K11", "`while True` left only by `return <call result>` / `raise`; counter initialised by a constant, incremented by exactly 1 on every continuing path and nowhere else; guard normal form gives retries(limit) == limit, i.e. at most limit+1 calls", [s[0] for s in SIBLINGS])
    ob2 = an.ob("C14.2", "K4", "when no retry is made the handler-bound exception object itself is raised (no wrapping, nothing swallowed or returned)", [s[0] for s in SIBLINGS])
    ob3 = an.ob("C14.3", "K4", "only an `except Exception` handler can continue the loop; nothing that catches CancelledError/BaseException retries", [s[0] for s in SIBLINGS])
    ob4 = an.ob("C14.4", "K5", "a retry happens only if isinstance(exc, e) for some e in `catching` (all of it, unfiltered); retry() normalises a single class to a collection", [s[0] for s in SIBLINGS] + ["helpers.retries.retry._wrap"])
    ob5 = an.ob("C14.5", "K10", "`match delay` covers the declared union: a None arm, a numeric arm admitting int *and* float, and the capture arm (the only one that calls the value) last", [s[0] for s in SIBLINGS])
    ob6 = an.ob("C14.6", "K1 count", "each non-None delay arm executes exactly one sleep, the None arm none; no sleep anywhere else in the loop", [s[0] for s in SIBLINGS])
    ob7 = an.ob("C14.7", "K5", "numeric arm sleeps the captured number; callable arm sleeps make_delay(<counter after its increment>, <caught exception>) in that order", [s[0] for s in SIBLINGS])
    for name, is_async in SIBLINGS:
        f = prog.fn(name)
        g = an.cfg(f)
        d = Deps(prog, f)
        va, kwa = vararg_names(f)
        outer = f.outer
        assert outer is not None
        roles = inner_roles(an, outer)
        LIMIT, DELAY, CATCHING = roles["limit"], roles["delay"], roles["catching"]
        # ------------------------------------------------------------ structure
        calls = [n for n in g.nodes if n.kind == "call" and isinstance(n.ast.func, ast.Name) and d.origins(n.ast.func) == {"param:function"}]  # type: ignore[union-attr]
        wloops = [n for n in f.own_nodes() if isinstance(n, ast.While)]
        floops = [n for n in f.own_nodes() if isinstance(n, (ast.For, ast.AsyncFor)) and any(within(c.ast, n) for c in calls)]
        # form A: `while True` + attempt counter compared with limit;  form B: `for <attempt> in range(...)` + one final call
        form_b = not wloops and len(floops) == 1 and isinstance(floops[0], ast.For)
        if not form_b and (len(wloops) != 1 or not (isinstance(wloops[0].test, ast.Constant) and wloops[0].test.value is True)):
            raise AnalysisError(f"C14: {f.short} is expected to contain one `while True` retry loop (or one `for ... in range(...)` loop followed by the final attempt)")
        loop = floops[0] if form_b else wloops[0]
        head = next(n for n in g.nodes if n.kind in ("loop-head", "for-iter") and n.ast is loop)
        final_calls = [c for c in calls if not within(c.ast, loop)] if form_b else []
        calls = [c for c in calls if c not in final_calls]
        if len(calls) != 1 or (form_b and len(final_calls) != 1):
            ob1.fail(f, None, f"the wrapped function is called at {len(calls)} site(s) inside the retry loop" + (f" and {len(final_calls)} after it (must be one final attempt)" if form_b else " (must be one)"))
            continue
        call = calls[0]
        for c in calls + final_calls:
            ob1.inst(f, c.ast)
            if not forwards_varargs(c.ast, va, kwa):
                ob1.fail(f, c.ast, "the wrapped function is not called with the caller's (*args, **kwargs)")
        tries = [t for t in f.own_nodes() if isinstance(t, ast.Try) and any(within(call.ast, s) for s in t.body)]
        if len(tries) != 1 or not within(tries[0], loop):
            raise AnalysisError(f"C14: the call in {f.short} is expected to sit in one try inside the loop")
        tr = tries[0]
        # returns: only the call result
        for r in [n for n in g.nodes if n.kind == "return"]:
            v = unwrap(r.ast.value)  # type: ignore[union-attr]
            if isinstance(v, ast.Await):
                v = unwrap(v.value)
            if not (v is call.ast or any(v is c.ast for c in final_calls) or (isinstance(v, ast.Name) and any(o.startswith("call:?function") for o in d.origins(v)))):
                ob1.fail(f, r.ast, "the wrapper returns something else than the wrapped function's result")
            if r.meta.get("handler") is not None:
                ob2.fail(f, r.ast, "a failure is turned into a normal return")
        if g.search([head], lambda n: n.kind == "exit-return", skip_node=lambda n: n.kind == "return", skip_edge=lambda a, b, lab: lab == "exc") is not None:
            ob1.fail(f, loop, "the retry loop can be left by falling through / break without a result")
        # ------------------------------------------------------------ counter
        guard = None
        incs: list[Node] = []
        pol = "T"
        first_number = 1
        if form_b:
            res = _range_budget(an, ob1, f, d, loop, final_calls[0], g, LIMIT)
            if res is None:
                continue
            ctr, first_number = res
            hentries = [t for t, lab in (_await_of(g, call) or call).succ if lab == "exc" and t.kind == "handler"]
        if not form_b:
            res_a = _counter_budget(an, ob1, f, g, d, loop, head, call, tr, LIMIT)
            if res_a is None:
                continue
            guard, incs, pol, ctr, hentries, at_first_failure = res_a
        # ------------------------------------------------------------ C14.2 / C14.3 handlers
        for h in tr.handlers:
            classes = g.handler_classes(h)
            kinds = classify_handler(g, h)
            continues = [k for k in kinds if k[0] in ("continue", "swallow")]
            ob3.inst(f, h, f"{classes}")
            if continues and set(classes) != {"Exception"}:
                ob3.fail(f, h, f"a handler catching {classes} can continue the retry loop: only `except Exception` may retry")
            from ..cfg import exc_is_sub

            if continues and any(exc_is_sub("CancelledError", c) for c in classes):
                ob3.fail(f, h, "cancellation (or another BaseException) would be retried")
            for kind, node, path in kinds:
                if kind == "raise-other":
                    ob2.fail(f, node.ast, "the failure is re-raised as a different exception object (wrapped): the caller does not get the true last outcome")
                elif kind in ("return", "break"):
                    ob2.fail(f, node.ast or h, f"the handler leaves by {kind}: the last failure is swallowed")
            if any(k[0] == "reraise-same" for k in kinds):
                ob2.inst(f, h)
        if tr.finalbody and any(isinstance(x, (ast.Return, ast.Break, ast.Continue)) for s in tr.finalbody for x in ast.walk(s)):
            ob2.fail(f, tr, "a return/break/continue in `finally` swallows the propagating exception")
        retry_h = [h for h in tr.handlers if any(k[0] in ("continue", "swallow") for k in classify_handler(g, h))]
        if len(retry_h) != 1:
            ob3.fail(f, tr, f"{len(retry_h)} handlers can retry (expected exactly one)")
            continue
        rh = retry_h[0]
        exc_name = rh.name
        # ------------------------------------------------------------ C14.4 matching
        anys = [n for n in g.nodes if n.kind == "test" and within(n.ast, rh) and isinstance(n.ast, ast.Call) and is_name(n.ast.func, "any")]
        matcher_ok = False
        for n in anys:
            gen = n.ast.args[0] if n.ast.args else None  # type: ignore[union-attr]
            if isinstance(gen, (ast.GeneratorExp, ast.ListComp)) and len(gen.generators) == 1 and not gen.generators[0].ifs and is_name(gen.generators[0].iter, CATCHING):
                el = gen.elt
                tv = gen.generators[0].target
                if isinstance(el, ast.Call) and is_name(el.func, "isinstance") and len(el.args) == 2 and is_name(el.args[0], exc_name or "") and isinstance(tv, ast.Name) and is_name(el.args[1], tv.id):
                    matcher_ok = True
                    ob4.inst(f, n.ast)
        isin = [n for n in g.nodes if n.kind == "test" and within(n.ast, rh) and isinstance(n.ast, ast.Call) and is_name(n.ast.func, "isinstance") and len(n.ast.args) == 2 and is_name(n.ast.args[0], exc_name or "") and (is_name(n.ast.args[1], CATCHING) or (isinstance(n.ast.args[1], ast.Call) and is_name(n.ast.args[1].func, "tuple") and n.ast.args[1].args and is_name(n.ast.args[1].args[0], CATCHING)))]
        if isin:
            matcher_ok = True
            anys = isin
            ob4.inst(f, isin[0].ast)
        if not matcher_ok:
            # the test may live in a small helper: <helper>(exc, catching) -> bool
            for n in [n for n in g.nodes if n.kind == "test" and within(n.ast, rh) and isinstance(n.ast, ast.Call)]:
                t = prog.functions.get(an.callee(f, n.ast) or "")
                if t is None or t.is_async:
                    continue
                params = [x.arg for x in t.node.args.posonlyargs + t.node.args.args + t.node.args.kwonlyargs]
                bound: dict[str, ast.AST] = dict(zip(params, n.ast.args))
                bound.update({k.arg: k.value for k in n.ast.keywords if k.arg})
                p_exc = next((k for k, v in bound.items() if is_name(v, exc_name or "")), None)
                p_cat = next((k for k, v in bound.items() if is_name(v, CATCHING)), None)
                if p_exc and p_cat and _helper_tests_isinstance(t, p_exc, p_cat):
                    matcher_ok = True
                    anys = [n]
                    ob4.inst(f, n.ast, f"through helper {t.short}")
                    break
        if not matcher_ok:
            ob4.missing(f, rh, "the retry decision does not test isinstance(<caught exception>, e) over all of `catching`")
        else:
            m = anys[0]
            w = g.search([next(n for n in g.nodes if n.kind == "handler" and n.ast is rh)], lambda n: n is head, skip_edge=lambda a, b, lab: a is m and lab == "T")
            if w is not None:
                ob4.fail(f, m.ast, "an exception outside the caught set can be retried", CFG.show_path(w))
        # ------------------------------------------------------------ C14.5-7 delay dispatch (typed scenarios; match or if/isinstance)
        from ..kinds import A_FLOAT, A_FUNC, A_INT, Abs, Scenario

        sleep_callee = "asyncio.sleep" if is_async else "time.sleep"
        sleeps = [n for n in g.nodes if n.kind == "call" and an.callee(f, n.ast) == sleep_callee]
        for n in sleeps:
            ob6.inst(f, n.ast)
            if is_async and not isinstance(parent(n.ast), ast.Await):
                ob6.fail(f, n.ast, "the pause is created but not awaited")
            if not within(n.ast, rh):
                ob6.fail(f, n.ast, "a pause is taken outside the retry branch")
            if any(isinstance(p2, (ast.While, ast.For)) and within(p2, rh) for p2 in _ancestors(n.ast)):
                ob6.fail(f, n.ast, "pause inside a loop")
        if is_async:
            for n in g.nodes:
                if n.kind == "call" and an.callee(f, n.ast) == "time.sleep":
                    ob6.fail(f, n.ast, "blocking time.sleep in the async wrapper")
        ann = next((p.annotation for p in outer.params() if p.arg == DELAY), None)
        ann_txt = ast.unparse(ann) if ann is not None else ""
        rh_entry = next(n for n in g.nodes if n.kind == "handler" and n.ast is rh)
        kinds_of_delay = [("None", None), ("a float", A_FLOAT), ("a callable", A_FUNC)]
        douter = Deps(prog, outer)
        if "float" in ann_txt:
            kinds_of_delay.insert(1, ("an int", A_INT))
        for label, value in kinds_of_delay:

            def base(e: ast.AST, value=value):
                if is_name(e, DELAY):
                    return value
                if isinstance(e, ast.Name) and isinstance(e.ctx, ast.Load) and e.id not in (DELAY, LIMIT, CATCHING) and d.owner(e.id) is outer and _depends_on(douter, e, DELAY):
                    return _captured_value(an, outer, f, e.id, DELAY, value)
                if guard is not None and isinstance(e, ast.Compare) and e is guard.ast:
                    return pol == "T"  # a retry is being made
                if matcher_ok and e is anys[0].ast:
                    return True
                return NOVALUE

            sc = Scenario(g, d, base)
            lo, hi = g.count_range(lambda n: n in sleeps, rh_entry, lambda n: n is head, skip_edge=lambda a, b, lab: sc.skip(a, b, lab) or lab in ("exc", "reraise"))
            ob5.inst(f, rh, f"delay is {label}: {lo}..{hi} pause(s) before the next attempt")
            want = (0, 0) if value is None else (1, 1)
            if (lo, hi) == (-1, -1):
                ob5.fail(f, rh, f"with delay = {label} no path leads to the next attempt")
                continue
            if (lo, hi) != want:
                ob6.fail(f, rh, f"with delay = {label} the wrapper takes {lo}..{hi} pauses between attempts (required {want[0]})")
                continue
            reach = g.reachable([rh_entry], skip_edge=lambda a, b, lab: sc.skip(a, b, lab) or lab in ("exc", "reraise"))
            for sn in [n for n in sleeps if n.id in reach]:
                arg = unwrap(sn.ast.args[0]) if sn.ast.args else None  # type: ignore[union-attr]
                if isinstance(arg, ast.Name) and (vals_ := sc.reaching_values(sn, arg.id)) and len(vals_) == 1:
                    arg = unwrap(vals_[0])  # the value computed for this kind of delay (e.g. by an inlined helper)
                ob7.inst(f, sn.ast, f"delay is {label}")
                if value is A_FUNC:
                    is_delay_fn = isinstance(arg, ast.Call) and ((d.origins(arg.func) <= {f"param:{DELAY}"} and bool(d.origins(arg.func))) or sc.value_at(sn, arg.func) is value)
                    ok = is_delay_fn and len(arg.args) == 2 and not arg.keywords and is_name(arg.args[1], exc_name or "")
                    if ok and form_b:
                        from ..domains import linear_form

                        lf = linear_form(d, arg.args[0])
                        want_lf = {k: v for k, v in {f"name:{ctr}": 1, "1": 1 - first_number}.items() if v != 0}
                        if lf is None or {k: int(v) for k, v in lf.items()} != want_lf:
                            ob7.fail(f, sn.ast, f"the delay function does not get the 1-based attempt number (`{stmt_text(arg.args[0], 30)}` with the loop variable starting at {first_number})")
                            continue
                    offset = 0
                    if ok and not form_b:
                        from ..domains import linear_form

                        lf = linear_form(d, arg.args[0])  # <counter> + constant
                        lf_i = {k: int(v) for k, v in lf.items() if v != 0} if lf is not None and all(float(v) == int(v) for v in lf.values()) else None
                        ok = lf_i is not None and lf_i.get(f"name:{ctr}") == 1 and set(lf_i) <= {f"name:{ctr}", "1"}
                        offset = lf_i.get("1", 0) if ok else 0
                    if not ok:
                        ob7.fail(f, sn.ast, f"the delay function is not applied to ({ctr}, {exc_name}) in that order")
                    elif not form_b:
                        w = g.search([rh_entry], lambda n, sn=sn: n is sn, skip_node=lambda n: n in incs, skip_edge=sc.skip)
                        lo_, hi_ = g.count_range(lambda n: n in incs, rh_entry, lambda n, sn=sn: n is sn, skip_edge=sc.skip)
                        if lo_ != hi_:
                            ob7.fail(f, sn.ast, "the attempt number the delay function sees depends on the path taken (advanced on some paths only)", CFG.show_path(w) if w is not None else "")
                        elif at_first_failure + lo_ + offset != 1:
                            first = at_first_failure + lo_ + offset
                            if first < 1:
                                ob7.fail(f, sn.ast, "the delay function sees the attempt number before it was advanced (attempt numbers start at 1)", CFG.show_path(w) if w is not None else "")
                            else:
                                ob7.fail(f, sn.ast, f"the first pause is computed for attempt number {first}: the counter is {at_first_failure} when the first attempt fails, advanced {lo_} time(s) before the delay function is applied to `{stmt_text(arg.args[0], 30)}` (attempt numbers start at 1)")
                else:
                    fv = sc.value_at(sn, arg.func) if isinstance(arg, ast.Call) else NOVALUE
                    const_fn = prog.functions.get(fv.tag[4:]) if isinstance(fv, Abs) and fv.tag.startswith("def:") else None
                    if const_fn is not None:
                        # the number was wrapped into a function at decoration time: that function must hand the number back
                        dcf = Deps(prog, const_fn)
                        rets_ = [r for r in const_fn.own_nodes() if isinstance(r, ast.Return)]
                        if not rets_ or not all(r.value is not None and dcf.origins(r.value) and dcf.origins(r.value) <= {f"param:{DELAY}"} for r in rets_):
                            ob7.fail(f, sn.ast, "the numeric arm does not pause for the configured number")
                        continue
                    if isinstance(arg, ast.Call) and d.origins(arg.func) <= {f"param:{DELAY}"} and d.origins(arg.func):
                        ob5.fail(f, sn.ast, f"delay is declared `{ann_txt}` but {label} is not matched by the numeric arm: it falls into the callable arm and is *called* (TypeError on the first failure)")
                    elif not (arg is not None and d.origins(arg) <= {f"param:{DELAY}"} and d.origins(arg)):
                        ob7.fail(f, sn.ast, "the numeric arm does not pause for the configured number")
        # no pause once the decision not to retry is taken (exactly limit pauses for limit+1 calls)
        raises_in_h = [n for n in g.nodes if n.kind == "raise" and within(n.ast, rh)]
        for rn in raises_in_h:
            for sn in sleeps:
                w1 = g.search([rh_entry], lambda n, sn=sn: n is sn, skip_edge=normal_only)
                w2 = g.search([sn], lambda n, rn=rn: n is rn, skip_node=lambda n: n is head, skip_edge=normal_only)
                if w1 is not None and w2 is not None:
                    ob6.fail(f, rn.ast, "a pause is taken before giving up: after the last allowed attempt the caller still waits one more delay (and the delay function gets an extra call with attempt limit+1)", CFG.show_path(w1 + w2[1:]))
                    break
    # retry() normalisation of `catching`
    wrap = prog.fn("helpers.retries.retry._wrap")
    ctor = [c for c in wrap.own_nodes() if isinstance(c, ast.Call) and an.callee(wrap, c) in (prog.fn("helpers.retries._wrap_sync").qualname, prog.fn("helpers.retries._wrap_async").qualname)]
    if len(ctor) != 2:
        raise AnalysisError("C14.4: retry._wrap is expected to dispatch to _wrap_sync and _wrap_async")
    for c in ctor:
        ob4.inst(wrap, c)
        target = prog.functions[an.callee(wrap, c)]
        troles = inner_roles(an, target)
        tparams = [a.arg for a in target.node.args.posonlyargs + target.node.args.args]
        kws = {p_: a_ for p_, a_ in zip(tparams, c.args)}
        kws.update({k.arg: k.value for k in c.keywords if k.arg})
        dwrap = Deps(prog, wrap)
        cv = kws.get(troles["catching"])
        cv = unwrap(dwrap.inline(cv)) if cv is not None else None  # may be computed once into a local
        ok = isinstance(cv, ast.IfExp) and is_name(cv.body, "catching") and isinstance(cv.orelse, (ast.Set, ast.Tuple, ast.List)) and len(cv.orelse.elts) == 1 and is_name(cv.orelse.elts[0], "catching") and isinstance(cv.test, ast.Call) and is_name(cv.test.func, "isinstance")
        if not ok:
            ob4.fail(wrap, c, "a single exception class is not normalised to a collection (iterating a class raises TypeError on the first failure)")
        if not (is_name(kws.get(troles["limit"]), "limit") and is_name(kws.get(troles["delay"]), "delay") and c.args and is_name(c.args[0], "function")):
            ob4.fail(wrap, c, "limit / delay / function are not passed on unchanged")

    # ------------------------------------------------------------------ C14.8 the log call between two attempts cannot raise
    # (between the caught failure and the next attempt the wrappers call ctx.log_error with the exception as a lazy argument:
    # an exception escaping from it - e.g. eager formatting of an exception whose __str__ fails - leaves the retry loop)
    from ..engine import borrow
    from . import c10

    borrow(an, c10.check, {"C10.1": "C14.8"}, keep=lambda f: "log_error" in f.at or "ScopeMetrics.log" in f.at)


def _depends_on(douter: Deps, e: ast.Name, param: str) -> bool:
    return f"param:{param}" in douter.of(e)


def _captured_value(an: Analysis, outer: FunctionInfo, inner: FunctionInfo, name: str, delay_param: str, value: object) -> object:
    """Value of a variable of the wrapper factory that the wrapper captures, in the situation `delay` = value: the factory is
    evaluated once, at decoration time (a delay normalised there - None / number / function turned into None or a function -
    is as good as a dispatch at every failure)."""
    from ..kinds import Scenario

    cache = an.__dict__.setdefault("_c14_outer", {})
    key = (outer.qualname, id(value))
    if key not in cache:
        go = an.cfg(outer)

        def env_o(e: ast.AST):
            if is_name(e, delay_param):
                return value
            return NOVALUE

        cache[key] = (go, Scenario(go, Deps(an.prog, outer), env_o))
    go, sco = cache[key]
    at = next((n for n in go.nodes if n.kind == "def" and n.ast is inner.node), None)
    if at is None:
        return NOVALUE
    return sco.value_at(at, ast.Name(id=name, ctx=ast.Load()))


def _counter_budget(an: Analysis, ob1, f: FunctionInfo, g: CFG, d: Deps, loop: ast.AST, head: Node, call: Node, tr: ast.Try, LIMIT: str = "limit"):
    """Form A: `while True` with an attempt counter compared with `limit`.  Returns (guard, incs, pol, ctr, hentries) or None."""
    guards = []
    for n in g.nodes:
        if n.kind == "test" and within(n.ast, tr) and isinstance(n.ast, ast.Compare):
            names = {x.id for x in ast.walk(n.ast) if isinstance(x, ast.Name)}
            if LIMIT in names and len(n.ast.ops) == 1:
                guards.append(n)
    if True:
        # the decision handed to the methods of a private helper object (`policy.allows_retry(...)`): not read as part of this
        # function (DESIGN section 6, helper objects) - no verdict instead of a guess
        helper_calls = []
        for h_ in tr.handlers:
            for c_ in [x for b_ in h_.body for x in ast.walk(b_) if isinstance(x, ast.Call) and isinstance(x.func, ast.Attribute)]:
                t_ = an.prog.functions.get(an.callee(f, c_) or "")
                if t_ is not None and t_.cls is not None and t_.cls.module is f.module and t_.cls.name.startswith("_"):
                    helper_calls.append(t_.short)
        shared_mutable = []
        for h_ in tr.handlers:
            for c_ in [x for b_ in h_.body for x in ast.walk(b_) if isinstance(x, ast.Call) and isinstance(x.func, ast.Attribute)]:
                t_ = an.prog.functions.get(an.callee(f, c_) or "")
                if t_ is None or t_.cls is None or t_.cls.module is not f.module or not t_.cls.name.startswith("_"):
                    continue
                recv_ = c_.func.value
                outside = isinstance(recv_, ast.Name) and recv_.id not in an.prog.local_names(f)
                mutable = any(
                    isinstance(x, (ast.Assign, ast.AugAssign, ast.AnnAssign)) and any(isinstance(tg, ast.Attribute) and isinstance(tg.value, ast.Name) and tg.value.id == "self" for tg in (x.targets if isinstance(x, ast.Assign) else [x.target]))
                    for m_ in t_.cls.node.body
                    if isinstance(m_, (ast.FunctionDef, ast.AsyncFunctionDef)) and m_.name != "__init__"
                    for x in ast.walk(m_)
                )
                if outside and mutable:
                    shared_mutable.append((c_, t_))
        if shared_mutable:
            c_, t_ = shared_mutable[0]
            ob1.fail(f, c_, f"the attempt bookkeeping is kept in a `{t_.cls.name}` object that is created outside the call (once per decorated function) and modified by its methods: overlapping calls of the wrapped function share - and reset - one counter, so the budget of `limit` retries is no longer per call")
            return None
        if helper_calls and not guards:
            raise AnalysisError(f"C14.1: the retry decision of {f.short} is delegated to methods of a private helper object ({sorted(set(helper_calls))}); mechanism moved into a helper class is not modelled (unrecognised idiom)")
    if len(guards) != 1:
        ob1.fail(f, tr, f"expected exactly one retry guard comparing the attempt counter with `limit`, found {len(guards)}")
        return None
    guard = guards[0]
    ob1.inst(f, guard.ast, "retry guard")
    cmpn: ast.Compare = guard.ast  # type: ignore[assignment]
    sides = [cmpn.left, cmpn.comparators[0]]
    ctr = next((s.id for s in sides if isinstance(s, ast.Name) and s.id != LIMIT), None)
    if ctr is None or not any(is_name(s, LIMIT) for s in sides):
        raise AnalysisError(f"C14.1: unrecognised retry guard `{stmt_text(cmpn)}`")
    op = type(cmpn.ops[0])
    if is_name(cmpn.left, LIMIT):
        op = {ast.Lt: ast.Gt, ast.LtE: ast.GtE, ast.Gt: ast.Lt, ast.GtE: ast.LtE}.get(op, op)
    # polarity: which outcome of the comparison lets the loop continue (`if c < limit: retry` or `if c >= limit: raise`)
    cont = {lab for t, lab in guard.succ if lab in ("T", "F") and g.search([t], lambda n: n is head, skip_edge=normal_only, include_start=True) is not None}
    if len(cont) != 1:
        ob1.fail(f, cmpn, f"retry guard `{stmt_text(cmpn)}` does not decide whether another attempt is made ({'both' if cont else 'neither'} outcome(s) continue the loop)")
        return None
    pol = cont.pop()
    if pol == "F":
        op = {ast.Lt: ast.GtE, ast.LtE: ast.Gt, ast.Gt: ast.LtE, ast.GtE: ast.Lt}.get(op, op)
    if op not in (ast.Lt, ast.LtE):
        ob1.fail(f, cmpn, f"retry guard `{stmt_text(cmpn)}` does not bound the number of attempts from above")
        return None
    inits = [n for n in f.own_nodes() if isinstance(n, (ast.Assign, ast.AnnAssign)) and is_name(n.targets[0] if isinstance(n, ast.Assign) else n.target, ctr)]
    incs = [n for n in g.nodes if n.kind == "stmt" and isinstance(n.ast, ast.AugAssign) and is_name(n.ast.target, ctr)]
    other_writes = [n for n in f.own_nodes() if isinstance(n, ast.NamedExpr) and n.target.id == ctr]
    if len(inits) != 1 or within(inits[0], loop) or not (isinstance(inits[0].value, ast.Constant) and isinstance(inits[0].value.value, int)):
        ob1.fail(f, inits[0] if inits else None, "the attempt counter is not initialised once, by a constant, before the loop (it would be reset or unbounded)")
        return None
    c0 = inits[0].value.value
    shared = [n for n in f.own_nodes() if isinstance(n, (ast.Nonlocal, ast.Global)) and ctr in n.names]
    if shared:
        ob1.fail(f, shared[0], "the attempt counter is shared between invocations (nonlocal/global): overlapping calls of the same wrapped coroutine reset or consume each other's attempts")
    bad_inc = [n for n in incs if not (isinstance(n.ast.op, ast.Add) and isinstance(n.ast.value, ast.Constant) and n.ast.value.value == 1)]
    if bad_inc or other_writes or not incs:
        ob1.fail(f, (bad_inc[0].ast if bad_inc else (other_writes[0] if other_writes else None)), "the attempt counter is not advanced by exactly `+= 1`")
        return None
    for n in incs:
        ob1.inst(f, n.ast, "increment")
    # exactly one increment on every path from the failing call back to the loop head
    hentries = [t for t, lab in (_await_of(g, call) or call).succ if lab == "exc" and t.kind == "handler"]
    lo, hi = 10**6, -1
    for h in hentries:
        a, b = g.count_range(lambda n: n in incs, h, lambda n: n is head)
        if (a, b) != (-1, -1):
            lo, hi = min(lo, a), max(hi, b)
    if hi == -1:
        ob1.fail(f, tr, "no path retries the call: failures are never retried")
        return None
    if (lo, hi) != (1, 1):
        ob1.fail(f, incs[0].ast, f"between two attempts the counter is advanced {lo}..{hi} times (must be exactly once)")
        return None
    # increments on the success path / before the call would count calls, not retries
    succ_inc = g.search([head], lambda n: n in incs, skip_node=lambda n: n.kind == "handler", skip_edge=lambda a, b, lab: lab == "exc")
    pre = succ_inc is not None  # increment happens before the call on every iteration
    # is the increment before or after the guard on the retry path?
    inc_before_guard = g.search(hentries, lambda n: n is guard, skip_node=lambda n: n in incs, include_start=True) is None
    g0 = c0 + (1 if (inc_before_guard or pre) else 0)
    # passes = #{v >= g0 : v < limit} = limit - g0   (or  limit - g0 + 1 for <=); required == limit
    extra = (-g0) if op is ast.Lt else (1 - g0)
    if extra != 0:
        ob1.fail(f, cmpn, f"retry bound is off: with init {c0}, guard `{stmt_text(cmpn)}` and the increment {'before' if g0 != c0 else 'after'} the guard the wrapper makes limit{extra:+d} retries, i.e. limit{extra + 1:+d} calls instead of limit+1")
    # guard must really dominate every retry
    w = g.search(hentries, lambda n: n is head, skip_edge=lambda a, b, lab: a is guard and lab == pol, include_start=True)
    if w is not None:
        ob1.fail(f, guard.ast, "the loop can continue without passing the attempt-limit guard", CFG.show_path(w))
    return guard, incs, pol, ctr, hentries, c0 + (1 if pre else 0)


def _range_budget(an: Analysis, ob1, f: FunctionInfo, d: Deps, loop: ast.For, final_call: Node, g: CFG, LIMIT: str = "limit"):
    """Form B: `for <attempt> in range(...)` makes one guarded attempt per element, then one final, unguarded attempt.
    The range must have exactly `limit` elements and be produced per invocation.  Returns (counter name, first element) or None."""
    from ..domains import linear_form

    prog = an.prog
    if not isinstance(loop.target, ast.Name):
        raise AnalysisError(f"C14: unrecognised loop target in {f.short}")
    ctr = loop.target.id
    ob1.inst(f, loop, "bounded retry loop")
    if any(isinstance(x, ast.Break) for x in ast.walk(loop)):
        raise AnalysisError(f"C14: `break` in the retry loop of {f.short} is not modelled")
    it = unwrap(loop.iter)
    where = f
    dd = d
    hops = 0
    while isinstance(it, ast.Name) and hops < 4:
        hops += 1
        owner = dd.owner(it.id)
        if owner is None:
            raise AnalysisError(f"C14: cannot resolve the iterable `{it.id}` of the retry loop in {f.short}")
        sv = Deps(prog, owner).single_value(it.id) if owner is not where else dd.single_value(it.id)
        if sv is None:
            raise AnalysisError(f"C14: the iterable `{it.id}` of the retry loop in {f.short} has several definitions")
        if owner is not where:
            where, dd = owner, Deps(prog, owner)
        it = unwrap(sv)
    one_shot = isinstance(it, ast.GeneratorExp) or (isinstance(it, ast.Call) and isinstance(it.func, ast.Name) and it.func.id in ("iter", "map", "filter", "zip", "enumerate", "reversed"))
    if where is not f and one_shot:
        ob1.fail(f, loop, f"the retry budget is a one-shot iterator created when the function is decorated (`{stmt_text(it, 50)}` in {where.short}): it is shared and used up across invocations - later calls get fewer (finally no) retries")
        return None
    if isinstance(it, ast.Call) and isinstance(it.func, ast.Name) and it.func.id == "iter" and len(it.args) == 1:
        it = unwrap(it.args[0])
    if not (isinstance(it, ast.Call) and isinstance(it.func, ast.Name) and it.func.id == "range" and 1 <= len(it.args) <= 2 and not it.keywords):
        raise AnalysisError(f"C14: the retry loop of {f.short} iterates `{stmt_text(it, 50)}`, not a range(...)")
    lo = {} if len(it.args) == 1 else linear_form(dd, it.args[0])
    hi = linear_form(dd, it.args[-1])
    if lo is None or hi is None or any(k not in ("1",) for k in lo):
        raise AnalysisError(f"C14: bounds of `{stmt_text(it, 50)}` are not linear in `limit`")
    first = int(lo.get("1", 0))
    count = dict(hi)
    count["1"] = count.get("1", 0) - first
    count = {k: v for k, v in count.items() if v != 0}
    if count != {f"name:{LIMIT}": 1}:
        extra = count.get("1", 0) if set(count) <= {f"name:{LIMIT}", "1"} and count.get(f"name:{LIMIT}") == 1 else None
        ob1.fail(f, loop, f"`{stmt_text(it, 50)}` yields " + (f"limit{int(extra):+d}" if extra is not None else "a number other than `limit`") + " guarded attempts: with the final attempt the wrapper makes " + (f"limit{int(extra) + 1:+d}" if extra is not None else "?") + " calls instead of limit+1")
        return None
    # the final attempt: reached when the loop is exhausted, outcome handed over as it is
    if any(isinstance(p2, ast.Try) and p2.handlers for p2 in _ancestors(final_call.ast) if within(p2, f.node)):
        tr2 = next(p2 for p2 in _ancestors(final_call.ast) if isinstance(p2, ast.Try) and p2.handlers)
        for h in tr2.handlers:
            if any(k[0] != "reraise-same" for k in classify_handler(g, h)):
                ob1.fail(f, h, "the outcome of the final attempt is intercepted instead of being handed to the caller")
    return ctr, first


def _helper_tests_isinstance(t: FunctionInfo, p_exc: str, p_cat: str) -> bool:
    """Helper returns True exactly when isinstance(<p_exc>, e) holds for some e of <p_cat> (any(...) or an
    explicit loop with early `return True` and a final `return False`)."""
    body = [s for s in t.node.body if not (isinstance(s, ast.Expr) and isinstance(s.value, ast.Constant))]

    def is_test(e: ast.AST, var: str) -> bool:
        return isinstance(e, ast.Call) and is_name(e.func, "isinstance") and len(e.args) == 2 and is_name(e.args[0], p_exc) and is_name(e.args[1], var)

    if len(body) == 1 and isinstance(body[0], ast.Return):
        v = unwrap(body[0].value)
        if isinstance(v, ast.Call) and is_name(v.func, "any") and v.args and isinstance(v.args[0], (ast.GeneratorExp, ast.ListComp)):
            gen = v.args[0]
            gg = gen.generators[0]
            return len(gen.generators) == 1 and not gg.ifs and is_name(gg.iter, p_cat) and isinstance(gg.target, ast.Name) and is_test(gen.elt, gg.target.id)
        if isinstance(v, ast.Call) and is_name(v.func, "isinstance") and len(v.args) == 2 and is_name(v.args[0], p_exc):
            a = v.args[1]
            return is_name(a, p_cat) or (isinstance(a, ast.Call) and is_name(a.func, "tuple") and a.args and is_name(a.args[0], p_cat))
        return False
    if len(body) == 2 and isinstance(body[0], ast.For) and isinstance(body[1], ast.Return):
        lp, last = body
        if not (is_name(lp.iter, p_cat) and isinstance(lp.target, ast.Name) and not lp.orelse and isinstance(last.value, ast.Constant) and last.value.value is False):
            return False
        if len(lp.body) == 1 and isinstance(lp.body[0], ast.If) and not lp.body[0].orelse and is_test(lp.body[0].test, lp.target.id):
            inner = lp.body[0].body
            return len(inner) == 1 and isinstance(inner[0], ast.Return) and isinstance(inner[0].value, ast.Constant) and inner[0].value.value is True
    return False


def _await_of(g: CFG, call: Node) -> Node | None:
    return next((n for n in g.nodes if n.kind == "await" and isinstance(n.ast, ast.Await) and n.ast.value is call.ast), None)


def _pattern_classes(p: ast.pattern) -> set[str]:
    if isinstance(p, ast.MatchAs) and p.pattern is not None:
        return _pattern_classes(p.pattern)
    if isinstance(p, ast.MatchOr):
        out: set[str] = set()
        for x in p.patterns:
            c = _pattern_classes(x)
            if not c:
                return set()
            out |= c
        return out
    if isinstance(p, ast.MatchClass) and isinstance(p.cls, ast.Name) and p.cls.id in ("int", "float", "bool", "complex"):
        return {p.cls.id}
    return set()


def _capture_name(p: ast.pattern) -> str | None:
    if isinstance(p, ast.MatchAs):
        return p.name or (_capture_name(p.pattern) if p.pattern is not None else None)
    if isinstance(p, ast.MatchClass) and len(p.patterns) == 1:
        return _capture_name(p.patterns[0])
    return None


def _ancestors(n: ast.AST):
    from ..loader import ancestors

    return ancestors(n)


def thorough(an: Analysis, repo: str) -> dict:
    """E6: pyright suppression audit - with the `# pyright: ignore` comments of retries.py stripped in a
    scratch copy there must be no `"int" is not callable` diagnostic (that suppressed diagnostic was the C14.5 defect)."""
    from ..engine import Finding
    from ..pyright_bridge import suppression_audit

    res = suppression_audit(repo, "src/haiway/helpers/retries.py", r"is not callable")
    out: dict = {"pyright_suppression_audit": res}
    if res.get("matching"):
        out["findings"] = [
            Finding("C14", "C14.5p", "haiway.helpers.retries", f"pyright: {m['message']}", "src/haiway/helpers/retries.py", m["line"], "a `# pyright: ignore` comment hides a real defect: a numeric delay reaches the arm that calls it")
            for m in res["matching"]
        ]
    return out
