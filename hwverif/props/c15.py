"""C15 - throttle never starts more than `limit` calls in any `period` window (necessary structure)."""

from __future__ import annotations

import ast
from fractions import Fraction

from .. import AnalysisError
from ..astutil import Deps, is_name, unwrap
from ..cfg import CFG, Node
from ..domains import fmt_linear, linear_form
from ..engine import Analysis
from ..kinds import NOVALUE, both, forwards_varargs, normal_only, scenario, vararg_names, with_locals
from ..loader import dotted, parent, stmt_text, within

ASSUMPTIONS = [
    "asyncio.Lock grants the lock in FIFO order of arrival; asyncio.sleep(d) suspends for d seconds (d <= 0: not at all)",
    "the numeric rate bound for every arrival pattern in exact time is NOT decided; these obligations are necessary conditions of it",
]

F = "helpers.throttling._AsyncThrottle.__call__"
ENTRIES0 = "item:self._entries[0]"
PERIOD = "attr:self._period"
NOW = "call:time.monotonic"


def _in_lock(node: ast.AST, locks: list[ast.AST]) -> bool:
    for lk in locks:
        if isinstance(lk, ast.Try):
            if any(within(node, st) for st in lk.body):
                return True
        elif within(node, lk):
            return True
        if _right_after_release(node, lk):
            return True
    return False


def _right_after_release(node: ast.AST, lk: ast.AST) -> bool:
    """The statement(s) directly behind the lock block, up to the first suspension point: releasing an asyncio.Lock does not
    suspend (it only schedules the next waiter), so what the task does before it next awaits is still done before any other
    task runs - as under the lock."""
    par = parent(lk)
    for field in ("body", "orelse", "finalbody"):
        blk = getattr(par, field, None)
        if isinstance(blk, list) and any(x is lk for x in blk):
            i = next(k for k, x in enumerate(blk) if x is lk)
            for st in blk[i + 1 :]:
                if within(node, st):
                    # nothing suspends before `node` inside its own statement either: no await precedes it in source order
                    pos = (getattr(node, "lineno", 0), getattr(node, "col_offset", 0))
                    return not any(isinstance(x, (ast.Await, ast.AsyncFor, ast.AsyncWith, ast.Yield, ast.YieldFrom)) and (getattr(x, "lineno", 0), getattr(x, "col_offset", 0)) < pos for x in ast.walk(st))
                if any(isinstance(x, (ast.Await, ast.AsyncFor, ast.AsyncWith, ast.Yield, ast.YieldFrom)) for x in ast.walk(st)) or isinstance(st, (ast.For, ast.While, ast.If, ast.Try, ast.With, ast.Match)):
                    return False
    return False


def check(an: Analysis) -> None:
    prog = an.prog
    f = prog.fn(F)
    g = an.cfg(f)
    d = Deps(prog, f)
    va, kwa = vararg_names(f)
    locks: list[ast.AST] = [w for w in f.own_nodes() if isinstance(w, ast.AsyncWith) and any(dotted(i.context_expr) == "self._lock" for i in w.items)]
    # equivalent explicit form:  await self._lock.acquire()  /  try: <region>  finally: self._lock.release()
    for blk in [n for n in [f.node, *f.own_nodes()] if isinstance(getattr(n, "body", None), list)]:
        for field in ("body", "orelse", "finalbody"):
            stmts = getattr(blk, field, None)
            if not isinstance(stmts, list):
                continue
            for s1, s2 in zip(stmts, stmts[1:]):
                acq = isinstance(s1, ast.Expr) and isinstance(s1.value, ast.Await) and isinstance(s1.value.value, ast.Call) and dotted(s1.value.value.func) == "self._lock.acquire"
                rel = isinstance(s2, ast.Try) and not s2.handlers and any(isinstance(x, ast.Expr) and isinstance(x.value, ast.Call) and dotted(x.value.func) == "self._lock.release" for x in s2.finalbody)
                if acq and rel:
                    region = ast.Module(body=s2.body, type_ignores=[])
                    region._lock_region = s2  # type: ignore[attr-defined]
                    locks.append(s2)

    # ------------------------------------------------------------------ C15.1 bookkeeping under the lock
    ob = an.ob("C15.1", "K6", "every read/write of self._entries happens inside `async with self._lock` (arrival order = lock FIFO order)", [F])
    uses = [n for n in f.own_nodes() if isinstance(n, ast.Attribute) and dotted(n) == "self._entries"]
    if len(locks) != 1:
        ob.missing(f, None, f"expected one locked region (`async with self._lock` or acquire/try/finally-release), found {len(locks)}: the window bookkeeping is not serialised")
    if len(uses) < 4:
        tcls_ = prog.cls("helpers.throttling._AsyncThrottle")
        holds_sequence = any(isinstance(unwrap(v), (ast.List, ast.ListComp)) or (isinstance(unwrap(v), ast.Call) and (dotted(unwrap(v).func) or "").rsplit(".", 1)[-1] in ("deque", "list", "OrderedDict", "dict")) for vals in tcls_.attr_val.values() for v in vals)
        if not uses and not holds_sequence:
            # no collection of start times at all: the bound is over *every* interval of length `period`, which needs the individual
            # start times of the last `limit` calls - a counter per fixed period admits up to 2 x limit calls around a period boundary
            ob.fail(f, None, "the throttle keeps no record of the individual start times (no sliding window): a per-period counter lets up to 2 x limit calls begin within one period-long interval that straddles a period boundary")
            from .common import wellformed_for

            wellformed_for(an, "C15")
            return
        raise AnalysisError(f"C15.1: only {len(uses)} accesses to self._entries found (confirmed: 6)")
    for u in uses:
        ob.inst(f, parent(u))
        if not _in_lock(u, locks):
            ob.fail(f, parent(u), "the start-time window is accessed outside the lock: concurrent callers can both see a free slot")
    lv = prog.cls("helpers.throttling._AsyncThrottle").attr_val.get("_lock", [])
    init = prog.fn("helpers.throttling._AsyncThrottle.__init__")
    if not (len(lv) == 1 and isinstance(lv[0], ast.Call) and an.callee(init, lv[0]) == "asyncio.Lock"):
        ob.fail(init, None, "self._lock is not one asyncio.Lock() per throttle")

    # ------------------------------------------------------------------ C15.2 the call itself runs outside the lock
    ob = an.ob("C15.2", "K6", "the wrapped call self._function(*args, **kwargs) is made outside the lock, once, and its awaited result is returned", [F])
    calls = [c for c in f.own_nodes() if isinstance(c, ast.Call) and dotted(c.func) == "self._function"]
    if len(calls) != 1:
        ob.fail(f, None, f"the wrapped function is called {len(calls)} times")
    from ..kinds import holds_the_decorated_function

    holds_the_decorated_function(an, ob, "helpers.throttling._AsyncThrottle")
    for c in calls:
        ob.inst(f, c)
        if _in_lock(c, locks):
            ob.fail(f, c, "the wrapped call runs while the lock is held: calls are serialised for their whole duration instead of only being rate limited")
        if not forwards_varargs(c, va, kwa):
            ob.fail(f, c, "arguments are not forwarded unchanged")
        p = parent(c)
        if not (isinstance(p, ast.Await) and isinstance(parent(p), ast.Return)):
            ob.fail(f, c, "the function's own outcome is not what the caller gets")
        cn = [n for n in g.nodes if n.kind == "call" and n.ast is c]
        w = g.must_pass(lambda n: n in cn, exits=("exit-return",), skip_edge=normal_only)
        if w is not None:
            ob.fail(f, c, "a path returns without running the function", CFG.show_path(w))

    # ------------------------------------------------------------------ scenario helpers
    def env(size: int | None, limit: int = 3):
        def e(x: ast.AST):
            if isinstance(x, ast.Call) and is_name(x.func, "len") and x.args and dotted(x.args[0]) == "self._entries" and size is not None:
                return size
            if dotted(x) == "self._limit":
                return limit
            return NOVALUE

        return with_locals(d, e)

    sleeps = [n for n in g.nodes if n.kind == "call" and an.callee(f, n.ast) == "asyncio.sleep"]
    appends = [n for n in g.nodes if n.kind == "call" and an.callee(f, n.ast) == "collections.deque.append" and dotted(n.ast.func.value) == "self._entries"]  # type: ignore[union-attr]
    loops = [n for n in g.nodes if n.kind == "loop-head"]

    # ------------------------------------------------------------------ C15.3 the wait
    ob = an.ob("C15.3", "K11", "when the window is full (len(entries) >= limit) the caller waits `entries[0] + period - now` (linear form), and does not wait when it is not full", [F])
    if len(sleeps) != 1:
        ob.fail(f, None, f"expected one wait in the throttle, found {len(sleeps)}")
    for s in sleeps:
        ob.inst(f, s.ast)
        if not isinstance(parent(s.ast), ast.Await):
            ob.fail(f, s.ast, "the wait is not awaited")
        if not _in_lock(s.ast, locks):
            ob.fail(f, s.ast, "the wait happens outside the lock: later arrivals overtake the waiting caller")
        arg = s.ast.args[0] if s.ast.args else None  # type: ignore[union-attr]
        if isinstance(arg, ast.Name):
            # the waiting time may be computed first (a local / the result of an inlined helper): what reaches the sleep when the window is full
            from ..kinds import Scenario as _ScnW

            scw = _ScnW(g, d, env(3))
            for _hop in range(3):
                vals_ = scw.reaching_values(s, arg.id) if isinstance(arg, ast.Name) else None
                if vals_ and len(vals_) == 1:
                    arg = unwrap(vals_[0])
                else:
                    break
        lf = linear_form(d, arg) if arg is not None else None
        want = {ENTRIES0: Fraction(1), PERIOD: Fraction(1), NOW: Fraction(-1)}
        if lf is None:
            raise AnalysisError(f"C15.3: wait expression `{stmt_text(arg)}` is not a linear form")
        if lf != want:
            ob.fail(f, s.ast, f"the wait is `{fmt_linear(lf)}`, required `{fmt_linear(want)}` (time until the oldest start leaves the window); e.g. `oldest - now` is never positive, so the throttle never waits")
        # full window -> must wait before stamping; free slot -> must not wait
        post_purge = [n for lp in loops for n in [lp]]
        from ..kinds import Scenario as _ScnF

        full = _ScnF(g, d, env(3)).skip  # (fixpoint with reaching definitions: the waiting time may travel through locals)
        free = _ScnF(g, d, env(2)).skip
        w = g.must_pass(lambda n: n is s, exits=("exit-return",), skip_edge=both(full, normal_only, _loop_exit_only(g)))
        if w is not None:
            ob.fail(f, s.ast, "[window full] a path starts the call without waiting", CFG.show_path(w))
        w = g.search([g.entry], lambda n: n is s, skip_edge=both(free, normal_only))
        if w is not None:
            ob.fail(f, s.ast, "[free slot] the call is delayed although fewer than `limit` calls began in the preceding period", CFG.show_path(w))

    clocks = [c for c in f.own_nodes() if isinstance(c, ast.Call) and an.callee(f, c) == "time.monotonic"]
    for c in clocks:
        ob.inst(f, c, "clock reading")
        if not _in_lock(c, locks):
            ob.fail(f, c, "the clock is read before the lock is held: a caller that queued on the lock works from a stale `now` - it neither purges the expired head entry nor waits long enough, and starts less than `period` after the call that was just admitted")

    # ------------------------------------------------------------------ C15.4 the start stamp
    ob = an.ob("C15.4", "K1", "the start stamp appended to the window is a fresh monotonic() read after the wait, on every path, before the lock is released and before the call", [F])
    cn = [n for n in g.nodes if n.kind == "call" and calls and n.ast is calls[0]]
    if not appends:
        ob.fail(f, None, "expected one start stamp per call, found 0")
    elif cn:
        # exactly one stamp on every normal path from the entry to the call of the wrapped function (the stamp may be written
        # in both arms of the fullness test)
        lo, hi = g.count_range(lambda n: n in appends, g.entry, lambda n: n in cn, skip_edge=normal_only)
        if (lo, hi) == (-1, -1):
            ob.fail(f, None, "the wrapped function is never reached")
        elif lo < 1:
            w = g.search([g.entry], lambda n: n in cn, skip_node=lambda n: n in appends, skip_edge=normal_only)
            ob.fail(f, appends[0].ast, "a path starts the call without recording its start time", CFG.show_path(w) if w else "")
        elif hi > 1:
            ob.fail(f, appends[0].ast, f"expected one start stamp per call, found up to {hi} on one path")
    for a in appends:
        ob.inst(f, a.ast)
        arg = a.ast.args[0] if a.ast.args else None  # type: ignore[union-attr]
        if not (isinstance(arg, ast.Call) and an.callee(f, arg) == "time.monotonic"):
            ob.fail(f, a.ast, "the recorded start time is not a fresh clock reading (a reading taken before the wait makes the window slide too early)")
        if not _in_lock(a.ast, locks):
            ob.fail(f, a.ast, "the start is recorded after the lock was released")
        if cn:
            w = g.ordered(lambda n, a=a: n is a, lambda n: n in cn)
            if w is not None and len(appends) == 1:
                ob.fail(f, a.ast, "the call can begin before its start was recorded", CFG.show_path(w))
    for s_ in sleeps if appends else []:
        aw = [n for n in g.nodes if n.kind == "await" and n.ast.value is s_.ast]  # type: ignore[union-attr]
        # on the path that waits, the stamp is written after the wait - not before it
        w = g.search([g.entry], lambda n, s_=s_: n is s_, skip_edge=normal_only)
        if w is not None and any(x in appends for x in w):
            ob.fail(f, appends[0].ast, "the start is recorded before the wait (the waiting time is not counted)", CFG.show_path(w))
        if cn:
            w2 = g.search(aw or [s_], lambda n: n in cn, skip_node=lambda n: n in appends, skip_edge=normal_only)
            if w2 is not None:
                ob.fail(f, appends[0].ast, "the start is recorded before the wait (the waiting time is not counted)", CFG.show_path(w2))

    # ------------------------------------------------------------------ C15.5 purge and period
    ob = an.ob("C15.5", "K11", "old entries are dropped exactly while entries[0] + period <= now (before the fullness test); _period is seconds (timedelta normalised through total_seconds())", [F, "helpers.throttling._AsyncThrottle.__init__"])
    pops = [n for n in g.nodes if n.kind == "call" and an.callee(f, n.ast) == "collections.deque.popleft" and dotted(n.ast.func.value) == "self._entries"]  # type: ignore[union-attr]
    if not pops:
        ob.fail(f, None, "starts that left the window are never dropped: after `limit` calls every later call waits forever-growing times")
    for pnode in pops:
        ob.inst(f, pnode.ast)
        from ..loader import ancestors as _anc15

        counted = next((a for a in _anc15(pnode.ast) if isinstance(a, ast.For) and isinstance(a.iter, ast.Call) and isinstance(a.iter.func, ast.Name) and a.iter.func.id == "range"), None)
        if counted is not None:
            # `for _ in range(<number counted before>): popleft()`: how many entries go is decided elsewhere, by a count - a
            # different algorithm for the purge, whose agreement with `entries[0] + period <= now` is a fact about values
            raise AnalysisError("C15.5: expired entries are counted first and then popped by number; this spelling of the purge is not modelled (unrecognised idiom)")
        if not any(within(pnode.ast, lp.ast) for lp in loops):
            ob.fail(f, pnode.ast, "only one old entry is dropped per call")
        # dominating comparison
        tests = [n for n in g.nodes if n.kind == "test" and isinstance(n.ast, ast.Compare) and len(n.ast.ops) == 1 and any(dotted(x) == "self._entries" for x in ast.walk(n.ast)) and not any(isinstance(x, ast.Call) and is_name(x.func, "len") for x in ast.walk(n.ast))]
        ok = False
        boundary_wrong: list[ast.AST] = []
        for t in tests:
            c: ast.Compare = t.ast  # type: ignore[assignment]
            l, r = linear_form(d, c.left), linear_form(d, c.comparators[0])
            if l is None or r is None:
                continue
            diff = dict(l)
            for k, v in r.items():
                diff[k] = diff.get(k, Fraction(0)) - v
            diff = {k: v for k, v in diff.items() if v != 0}
            want = {ENTRIES0: Fraction(1), PERIOD: Fraction(1), NOW: Fraction(-1)}
            neg = {k: -v for k, v in want.items()}
            opn = type(c.ops[0])
            lab = None
            # the boundary belongs to "expired": a caller that slept `entries[0] + period - now` wakes exactly when the oldest start
            # is one period old, and the caller queued behind it must not find that start still in the window
            if diff == want and opn is ast.LtE:
                lab = "T"
            elif diff == neg and opn is ast.GtE:
                lab = "T"
            elif diff == want and opn is ast.Gt:
                lab = "F"
            elif diff == neg and opn is ast.Lt:
                lab = "F"
            elif (diff == want or diff == neg) and opn in (ast.Lt, ast.LtE, ast.Gt, ast.GtE):
                boundary_wrong.append(c)
            if lab is None:
                continue
            w = g.search([g.entry], lambda n: n is pnode, skip_edge=lambda a, b, l2, t=t, lab=lab: a is t and l2 == lab)
            if w is None:
                ok = True
                ob.inst(f, c, "purge condition")
        if not ok and boundary_wrong:
            ob.fail(f, boundary_wrong[0], "a start exactly one period old is kept in the window (strict comparison): the caller that waited `entries[0] + period - now` wakes exactly then, and the next caller still counts the expired start - its wait is computed as 0 and one call too many begins at that instant")
        elif not ok:
            ob.fail(f, pnode.ast, "entries are dropped under a condition other than `entries[0] + period <= now`: live starts are forgotten (limit exceeded) or dead ones kept")
        for s in sleeps:
            w = g.search([g.entry], lambda n: n is s, skip_node=lambda n: n in loops)
            if w is not None:
                ob.fail(f, s.ast, "the fullness test runs before old entries were purged", CFG.show_path(w))
    from ..kinds import A_FLOAT, A_INT, Abs, Scenario

    tcls = prog.cls("helpers.throttling._AsyncThrottle")
    wrap = prog.fn("helpers.throttling.throttle._wrap")
    dwrap = Deps(prog, wrap)
    ctor_calls = [c for c in wrap.own_nodes() if isinstance(c, ast.Call) and an.callee(wrap, c) == tcls.qualname]
    if len(ctor_calls) != 1:
        ob.missing(wrap, None, f"throttle() builds {len(ctor_calls)} throttle objects (expected one)")
    from ..kinds import unwrapped_returns

    for r_ in unwrapped_returns(an, wrap, {tcls.qualname}):
        ob.fail(wrap, r_, "throttle() hands some callables back without the throttle wrapper: their calls are not counted against the limit")
    a_delta = Abs("timedelta", "object")
    iparams = [a.arg for a in init.node.args.posonlyargs + init.node.args.args][1:] + [a.arg for a in init.node.args.kwonlyargs]
    for c in ctor_calls:
        ob.inst(wrap, c)
        passed: dict[str, ast.AST] = {p_: a_ for p_, a_ in zip(iparams, c.args)}
        passed.update({k.arg: k.value for k in c.keywords if k.arg})
        fn_p = iparams[0] if iparams else "function"
        if not (is_name(passed.get(fn_p), "function")):
            ob.fail(wrap, c, "throttle() does not pass the function on to the throttle object")
        lim_p = next((p_ for p_, v in passed.items() if dwrap.origins(v) == {"param:limit"}), None)
        per_p = next((p_ for p_, v in passed.items() if "param:period" in dwrap.of(v)), None)
        if lim_p is None or per_p is None:
            ob.fail(wrap, c, "throttle() does not pass limit / period on to the throttle object")
            continue
        lim = tcls.attr_val.get("_limit", [])
        if not (len(lim) == 1 and is_name(lim[0], lim_p) and is_name(passed[lim_p], "limit")):
            ob.fail(init, None, "self._limit does not hold the configured limit")
        # the period reaches self._period in seconds: converted where the object is built or in its __init__ (either, not none)
        for label, value in (("a timedelta", a_delta), ("a float", A_FLOAT), ("an int", A_INT)):
            got = _period_value(an, wrap, passed[per_p], "period", value)
            if got is _UNKNOWN:
                raise AnalysisError(f"C15.5: cannot follow the period from throttle() into the throttle object for {label}")
            gi = an.cfg(init)
            dinit = Deps(prog, init)
            stores = [n for n in gi.nodes if n.kind == "stmt" and isinstance(n.ast, (ast.Assign, ast.AnnAssign)) and getattr(n.ast, "value", None) is not None and dotted(n.ast.targets[0] if isinstance(n.ast, ast.Assign) else n.ast.target) == "self._period"]
            if not stores:
                ob.fail(init, None, "self._period is never set")
                break

            def base(e: ast.AST, got=got, per_p=per_p):
                if is_name(e, per_p):
                    return got
                if isinstance(e, ast.Call) and an.callee(init, e) == "datetime.timedelta":
                    return _AbsTD("timedelta", "object", tag="a timedelta built from the number")  # (rounded to microseconds)
                return NOVALUE

            sc = Scenario(gi, dinit, base)
            live = [n for n in stores if n.id in sc.reach]
            ob.inst(init, None, f"period is {label}: {len(live)} store(s) of self._period")
            if len(live) != 1:
                ob.fail(init, stores[0].ast, f"with period = {label}, self._period is set {len(live)} times (must be exactly once)")
                continue
            stored_ = unwrap(live[0].ast.value)  # type: ignore[union-attr]
            cands_ = [stored_]
            if isinstance(stored_, ast.Name) and stored_.id != per_p and dinit.single_value(stored_.id) is None:
                cands_ = list(sc.reaching_values(live[0], stored_.id)) or [stored_]  # e.g. the result of an inlined conversion helper
            finals_ = [_period_value(an, init, c_, per_p, got) for c_ in cands_]
            final = finals_[0] if all(f_ is finals_[0] for f_ in finals_) else _UNKNOWN
            if final is _UNKNOWN and isinstance(stored_, ast.Call) and isinstance(stored_.func, ast.Attribute) and stored_.func.attr == "total_seconds" and not stored_.args and isinstance(stored_.func.value, ast.Name):
                # `<local>.total_seconds()`: what the local holds in this situation (a match capture of the period, a timedelta
                # built from the number ...)
                iv_ = sc.value_at(live[0], stored_.func.value)
                if isinstance(iv_, _AbsTD) and iv_.mro[0] == "timedelta":
                    final = _SECONDS
            if final is _UNKNOWN:
                raise AnalysisError(f"C15.5: cannot evaluate what self._period holds for {label}")
            want = _SECONDS if value is a_delta else value
            if final is not want:
                if value is a_delta:
                    ob.fail(init if got is a_delta else wrap, live[0].ast if got is a_delta else c, "a timedelta period is not converted with total_seconds() (e.g. .seconds drops days and microseconds)")
                else:
                    ob.fail(init, live[0].ast, "a numeric period is not used as is")
    from ..engine import borrow
    from . import c18

    # C18.7: mimic_function never overwrites what the wrapper object already holds (its own _function, its store / lock / window /
    # timeout): stacked wrappers would otherwise adopt each other's state and the inner function would be called directly
    borrow(an, c18.check, {"C18.7": "C15.6"})


from ..kinds import Abs as _AbsTD  # noqa: E402

_UNKNOWN = object()
_SECONDS = object()  # <timedelta>.total_seconds()


def _period_value(an: Analysis, fi: FunctionInfo, e: ast.AST, pname: str, pvalue: object, depth: int = 3) -> object:
    """Abstract value of expression `e` in function `fi` when its parameter `pname` holds `pvalue`
    (a timedelta / float / int abstract value, or _SECONDS): follows conditional expressions, one level of helper calls
    h(<period>) and `.total_seconds()`."""
    from ..kinds import Abs, Scenario, reduce_ifexp

    prog = an.prog
    d = Deps(prog, fi)

    def env(x: ast.AST):
        if is_name(x, pname):
            return pvalue
        return NOVALUE

    e = unwrap(d.inline(e))
    e = reduce_ifexp(e, env)
    e = unwrap(e) if e is not None else None
    if e is None or depth == 0:
        return _UNKNOWN
    if is_name(e, pname):
        return pvalue
    if isinstance(e, ast.Call) and isinstance(e.func, ast.Attribute) and e.func.attr == "total_seconds" and not e.args:
        inner = _period_value(an, fi, e.func.value, pname, pvalue, depth - 1)
        return _SECONDS if isinstance(inner, Abs) and inner.mro[0] == "timedelta" else _UNKNOWN
    if isinstance(e, ast.Call) and isinstance(e.func, ast.Attribute) and e.func.attr in ("seconds", "microseconds", "days"):
        return object()
    if any(isinstance(x, ast.Attribute) and x.attr in ("seconds", "microseconds", "days") for x in ast.walk(e)):
        return object()  # built from lossy readings of the timedelta (.seconds drops days, ...) instead of total_seconds()
    if isinstance(e, ast.Call) and isinstance(e.func, ast.Name) and e.func.id in ("float", "int", "abs") and len(e.args) == 1 and not e.keywords:
        return _period_value(an, fi, e.args[0], pname, pvalue, depth - 1)
    if isinstance(e, ast.Call):
        t = prog.functions.get(an.callee(fi, e) or "")
        if t is not None and len(e.args) + len(e.keywords) == 1:
            arg = e.args[0] if e.args else e.keywords[0].value
            av = _period_value(an, fi, arg, pname, pvalue, depth - 1)
            if av is _UNKNOWN:
                return _UNKNOWN
            tp = t.param_names()[0] if t.param_names() else None
            if tp is None:
                return _UNKNOWN
            gt = an.cfg(t)
            dt = Deps(prog, t)

            def env_t(x: ast.AST):
                if is_name(x, tp):
                    return av
                return NOVALUE

            sct = Scenario(gt, dt, env_t)
            outs = set()
            for r in [n for n in gt.nodes if n.kind == "return" and n.id in sct.reach]:
                rv = r.ast.value  # type: ignore[union-attr]
                # a match capture of the parameter denotes the parameter
                caps = {x.name for x in ast.walk(t.node) if isinstance(x, ast.MatchAs) and x.name and x.name != tp}
                val = _period_value(an, t, rv, tp, av, depth - 1) if rv is not None else _UNKNOWN
                if val is _UNKNOWN and rv is not None:
                    rv2 = unwrap(rv)
                    if isinstance(rv2, ast.Name) and rv2.id in caps and dt.origins(rv2) == {f"param:{tp}"}:
                        val = av
                    elif isinstance(rv2, ast.Call) and isinstance(rv2.func, ast.Attribute) and rv2.func.attr == "total_seconds" and isinstance(rv2.func.value, ast.Name) and dt.origins(rv2.func.value) == {f"param:{tp}"} and isinstance(av, Abs) and av.mro[0] == "timedelta":
                        val = _SECONDS
                outs.add(val if not isinstance(val, object) or val in (_UNKNOWN, _SECONDS) or isinstance(val, Abs) else val)
            if len(outs) == 1:
                return outs.pop()
            return _UNKNOWN
    if isinstance(e, ast.Name) and d.origins(e) == {f"param:{pname}"}:
        return pvalue  # a pattern capture / alias of the parameter
    return _UNKNOWN


def _loop_exit_only(g: CFG):
    """In the 'window full' scenario the purge loop has run to completion: nothing more to drop."""
    return lambda a, b, lab: False
