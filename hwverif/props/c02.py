"""C02 - leaving a scope restores the surrounding context on every exit path."""

from __future__ import annotations

import ast

from .. import AnalysisError
from ..astutil import is_name, norm_cond
from ..cfg import CFG
from ..engine import Analysis
from ..astutil import Deps
from ..kinds import anything, arg_for, call_nodes, calls_to, classify_handler_for, normal_only, param_positions, q, strict, strict_but, token_assert, token_assert_for
from ..loader import FunctionInfo, dotted, stmt_text

ASSUMPTIONS = [
    "contextvars: ContextVar.reset(token) restores the value that was current when the token was taken",
    "an exception raised by the block body reaches __exit__/__aexit__ as (exc_type, exc_val, exc_tb) and is re-raised by Python when the exit returns a falsy value",
    "which exception object wins when a cleanup step itself fails is not decided (the statement allows it to differ)",
]

CTX_CLASSES = {
    "StateContext": ("context.state.StateContext", ("__enter__",), ("__exit__",)),
    "MetricsContext": ("context.metrics.MetricsContext", ("__enter__",), ("__exit__",)),
    "TaskGroupContext": ("context.tasks.TaskGroupContext", ("__aenter__",), ("__aexit__",)),
}
SCOPE = "context.access.ScopeContext"
M_EXIT = q("context.metrics.MetricsContext.__exit__")
S_EXIT = q("context.state.StateContext.__exit__")
G_EXIT = q("context.tasks.TaskGroupContext.__aexit__")
G_ENTER = q("context.tasks.TaskGroupContext.__aenter__")
D_EXIT = q("context.disposables.Disposables.__aexit__")
D_ENTER = q("context.disposables.Disposables.__aenter__")


def contextvar_owner(an: Analysis, fi: FunctionInfo, recv: ast.AST) -> str | None:
    """Class qualname owning the ContextVar that `recv` (receiver of .get/.set/.reset) denotes."""
    if not isinstance(recv, ast.Attribute):
        return None
    t = an.prog.expr_type(fi, recv.value)
    if t is None or t.name not in an.prog.classes:
        return None
    ci = an.prog.classes[t.name]
    for c in an.prog.mro(ci):
        if recv.attr in c.class_assign:
            return c.qualname
    return None


def contextvar_ops(an: Analysis) -> list[tuple[FunctionInfo, ast.Call, str, str | None]]:
    """Every ContextVar.get/set/reset call in the package: (function, call, op, owner class)."""
    out = []
    for fi in an.prog.scan_functions():
        for n in fi.own_nodes():
            if isinstance(n, ast.Call):
                c = an.callee(fi, n)
                if c in ("contextvars.ContextVar.get", "contextvars.ContextVar.set", "contextvars.ContextVar.reset"):
                    owner = contextvar_owner(an, fi, n.func.value)  # type: ignore[union-attr]
                    out.append((fi, n, c.rsplit(".", 1)[1], owner))
    return out


def none_edge(cond: ast.expr, attr: str) -> str | None:
    """For a test on `self.<attr>`: the edge label ('T'/'F') under which the attribute is None/empty."""
    nc = norm_cond(cond)
    target = ast.dump(ast.parse(f"self.{attr}", mode="eval").body)
    if nc[0] == "is_none" and nc[1] == target:
        return "T" if nc[2] else "F"
    if nc[0] == "truthy" and nc[1] == target:
        return "F" if nc[2] else "T"
    return None


def check(an: Analysis) -> None:
    prog = an.prog

    # ------------------------------------------------------------------ C02.1 set/reset pairing
    ob = an.ob(
        "C02.1",
        "K3+K1",
        "class-level ContextVar: .set only in the owning class's enter, result stored in self._token, exactly once per path; "
        ".reset(self._token) only in its exit, executed on every path before any other raising node (token assert exempt) "
        "and before self._token is overwritten",
        [c[0] for c in CTX_CLASSES.values()],
    )
    ops = contextvar_ops(an)
    for short, (cq, enters, exits) in CTX_CLASSES.items():
        ci = prog.cls(cq)
        if "_context" not in ci.class_assign:
            raise AnalysisError(f"{cq}._context (class level ContextVar) not found")
        sets = [(f, c) for f, c, op, owner in ops if op == "set" and owner == ci.qualname]
        resets = [(f, c) for f, c, op, owner in ops if op == "reset" and owner == ci.qualname]
        for f, c in sets:
            ob.inst(f, c, "set")
            if not (f.cls is ci and f.name in enters and f.outer is None):
                ob.fail(f, c, f"{short}._context.set outside {short}.{'/'.join(enters)}")
                continue
            st = c
            from ..loader import parent

            p = parent(c)
            stored = isinstance(p, (ast.Assign, ast.AnnAssign)) and dotted(p.targets[0] if isinstance(p, ast.Assign) else p.target) == "self._token"
            if not stored and isinstance(p, (ast.Assign, ast.AnnAssign)):
                t0 = p.targets[0] if isinstance(p, ast.Assign) else p.target
                if isinstance(t0, ast.Name):
                    stored = any(isinstance(s2, (ast.Assign, ast.AnnAssign)) and dotted(s2.targets[0] if isinstance(s2, ast.Assign) else s2.target) == "self._token" and is_name(s2.value, t0.id) for s2 in f.own_nodes())
            if not stored:
                ob.fail(f, c, "token returned by ContextVar.set is not stored in self._token")
        for f, c in resets:
            ob.inst(f, c, "reset")
            if not (f.cls is ci and f.name in exits and f.outer is None):
                ob.fail(f, c, f"{short}._context.reset outside {short}.{'/'.join(exits)}")
                continue
            if not (len(c.args) == 1 and not c.keywords and (dotted(c.args[0]) == "self._token" or Deps(prog, f).origins(c.args[0]) == {"attr:self._token"})):
                ob.fail(f, c, "ContextVar.reset argument is not self._token")
        for name in enters:
            f = prog.fn(f"{cq}.{name}")
            g = an.cfg(f)
            own = [n for n in g.nodes if n.kind == "call" and any(n.ast is c for ff, c in sets if ff is f)]
            if not own:
                ob.fail(f, None, f"{short}.{name} never sets {short}._context")
                continue
            lo, hi = g.count_range(lambda n: n in own, g.entry, lambda n: n.kind == "exit-return", skip_edge=normal_only)
            if (lo, hi) != (1, 1):
                ob.fail(f, own[0].ast, f"{short}._context.set executed {lo}..{hi} times on normal paths of {name} (must be exactly once)")
        for name in exits:
            f = prog.fn(f"{cq}.{name}")
            g = an.cfg(f)
            own = [n for n in g.nodes if n.kind == "call" and any(n.ast is c for ff, c in resets if ff is f)]
            if not own:
                ob.fail(f, None, f"{short}.{name} never resets {short}._context")
                continue
            w = g.must_pass(lambda n: n in own, raising=strict_but(token_assert_for(prog, f)))
            if w is not None:
                ob.fail(f, own[0].ast, f"a path leaves {short}.{name} without resetting the context variable", CFG.show_path(w))
            stores = [
                n
                for n in g.nodes
                if n.kind == "stmt"
                and isinstance(n.ast, (ast.Assign, ast.AnnAssign, ast.AugAssign, ast.Delete))
                and any(
                    isinstance(x, ast.Attribute) and dotted(x) == "self._token" and isinstance(x.ctx, (ast.Store, ast.Del))
                    for t in (n.ast.targets if isinstance(n.ast, (ast.Assign, ast.Delete)) else [n.ast.target])
                    for x in ast.walk(t)
                )
            ]
            clears = [n for n in stores if isinstance(n.ast, (ast.Assign, ast.AnnAssign)) and isinstance(getattr(n.ast, "value", None), ast.Constant) and n.ast.value.value is None]
            if not clears:
                ob.fail(f, own[0].ast, f"{short}.{name} never clears self._token: the same context object cannot be entered again (its re-entrance assertion fires)")
            else:
                w = g.must_pass(lambda n: n in clears, starts=[t for o in own for t, lab in o.succ if lab not in ("exc", "reraise")], exits=("exit-return",), skip_edge=normal_only)
                if w is not None:
                    ob.fail(f, clears[0].ast, f"a normal path through {short}.{name} leaves self._token set after the reset", CFG.show_path(w))
            if stores:
                w = g.ordered(lambda n: n in own, lambda n: n in stores)
                if w is not None:
                    ob.fail(f, stores[0].ast, "self._token is overwritten before the reset that needs it", CFG.show_path(w))

    # ------------------------------------------------------------------ C02.2 sync exit
    f_exit = prog.fn(f"{SCOPE}.__exit__")
    ob = an.ob(
        "C02.2",
        "K1 strict",
        "every path ENTRY->{RETURN,RAISE} of ScopeContext.__exit__ attempts MetricsContext.__exit__ and StateContext.__exit__ (every call may raise)",
        [f"{SCOPE}.__exit__"],
    )
    _must_attempt(an, ob, f_exit, {"metrics exit": M_EXIT, "state exit": S_EXIT})

    # ------------------------------------------------------------------ C02.3 async exit
    f_aexit = prog.fn(f"{SCOPE}.__aexit__")
    ob = an.ob(
        "C02.3",
        "K1 strict",
        "every path of ScopeContext.__aexit__ attempts TaskGroupContext.__aexit__, MetricsContext.__exit__, StateContext.__exit__; "
        "Disposables.__aexit__ is attempted on every path on which self._disposables is not None (every call and await may raise)",
        [f"{SCOPE}.__aexit__"],
    )
    _must_attempt(an, ob, f_aexit, {"task group exit": G_EXIT, "metrics exit": M_EXIT, "state exit": S_EXIT})
    disposables_exit_attempted(an, ob)

    # ------------------------------------------------------------------ C02.4 rollback in __aenter__
    ob = an.ob(
        "C02.4",
        "K1 suspension",
        "after the task group was entered, every exceptional way out of ScopeContext.__aenter__ (awaits, user code, iteration) "
        "attempts TaskGroupContext.__aexit__ first (API_FACT 12: __aexit__ is not called when __aenter__ raises)",
        [f"{SCOPE}.__aenter__"],
    )
    enter_rollback(an, ob, G_EXIT, "exiting the task group")

    # ------------------------------------------------------------------ C02.7 task-group errors never replace the body's exception
    ob = an.ob(
        "C02.7",
        "K4",
        "TaskGroupContext.__aexit__ lets nothing raised by asyncio.TaskGroup.__aexit__ escape except a re-raised CancelledError: an (Base)ExceptionGroup "
        "of child failures / GeneratorExit must not replace the exception the body raised (it reaches the caller as the same object)",
        ["context.tasks.TaskGroupContext.__aexit__"],
    )
    group_errors_silenced(an, ob)

    # ------------------------------------------------------------------ C02.5 exits never suppress
    ob = an.ob(
        "C02.5",
        "K8",
        "__exit__/__aexit__ of ScopeContext, StateContext, MetricsContext, TaskGroupContext, Disposables never return a truthy value (the body's exception is never suppressed)",
    )
    for name in (
        f"{SCOPE}.__exit__",
        f"{SCOPE}.__aexit__",
        "context.state.StateContext.__exit__",
        "context.metrics.MetricsContext.__exit__",
        "context.tasks.TaskGroupContext.__aexit__",
        "context.disposables.Disposables.__aexit__",
    ):
        f = prog.fn(name)
        ob.anchors.append(name)
        for finding in truthy_returns(f):
            ob.fail(f, finding, "exit method may return a truthy value and suppress the body's exception")
        ob.inst(f, None, f"{len([n for n in f.own_nodes() if isinstance(n, ast.Return)])} return statements")

    # ------------------------------------------------------------------ C02.6 exception details forwarded
    ob = an.ob(
        "C02.6",
        "K5",
        "exc_type/exc_val/exc_tb are forwarded unchanged to every cleanup step",
        [f"{SCOPE}.__exit__", f"{SCOPE}.__aexit__"],
    )
    for f in (f_exit, f_aexit):
        own = param_positions(f)
        if len(own) < 3:
            raise AnalysisError(f"{f.qualname} does not take (exc_type, exc_val, exc_tb)")
        for callee in (D_EXIT, G_EXIT, M_EXIT, S_EXIT):
            for c in calls_to(an, f, callee):
                ob.inst(f, c)
                cp = param_positions(prog.functions[callee])
                problem = exc_triple_problem(an, f, c, cp, own)
                if problem:
                    ob.fail(f, c, "cleanup " + problem)

    # ------------------------------------------------------------------ C02.8 a failed enter leaves no metrics scope bound / open
    _borrowed(an)


def exc_triple_problem(an: Analysis, f: FunctionInfo, c: ast.Call, callee_params: list[str], own: list[str]) -> str | None:
    """(exc_type, exc_val, exc_tb) handed to a cleanup step are either the function's own three parameters, or - for a
    call made while handling a failure of an earlier step - the triple of the caught exception
    (type(exc), exc, exc.__traceback__).  Returns a description of what is wrong, or None."""
    from ..astutil import unwrap
    from ..loader import within

    args = [arg_for(c, i, callee_params[i] if i < len(callee_params) else None) for i in range(3)]
    d = Deps(an.prog, f)
    if all(is_name(a, own[i]) for i, a in enumerate(args)):
        # the parameters themselves - unless something re-binds them on the way: the only accepted re-binding is
        # `exc_type, exc_val, exc_tb = type(exc), exc, exc.__traceback__` from the exception a handler caught
        handlers = [h for h in f.own_nodes() if isinstance(h, ast.ExceptHandler) and h.name]
        for i, pname in enumerate(own[:3]):
            for kind, v in d.defs(f, pname):
                if kind == "param":
                    continue
                v = unwrap(v)
                h = next((h for h in handlers if within(v, h)), None)
                want_ok = h is not None and (
                    (i == 0 and isinstance(v, ast.Call) and is_name(v.func, "type") and len(v.args) == 1 and is_name(v.args[0], h.name))
                    or (i == 1 and is_name(v, h.name))
                    or (i == 2 and isinstance(v, ast.Attribute) and v.attr == "__traceback__" and is_name(v.value, h.name))
                )
                if not want_ok:
                    return f"may receive a replaced `{pname}` (`{pname} = {stmt_text(v, 40)}`): the body's exception details do not reach it unchanged"
        return None

    def res(a: ast.AST | None) -> ast.AST | None:
        a = unwrap(a) if a is not None else None
        if isinstance(a, ast.Name) and (sv := d.single_value(a.id)) is not None:
            return unwrap(sv)
        return a

    for h in [h for h in f.own_nodes() if isinstance(h, ast.ExceptHandler) and h.name and within(c, h)]:
        t, v, tb = (res(a) for a in args)
        if isinstance(t, ast.Call) and is_name(t.func, "type") and len(t.args) == 1 and is_name(t.args[0], h.name) and is_name(v, h.name) and isinstance(tb, ast.Attribute) and tb.attr == "__traceback__" and is_name(tb.value, h.name):
            return None
    for i, a in enumerate(args):
        if not is_name(a, own[i]):
            return f"receives {stmt_text(a) if a is not None else 'nothing'} instead of {own[i]} for parameter {callee_params[i] if i < len(callee_params) else i}"
    return None


def _borrowed(an: Analysis) -> None:
    from ..engine import borrow
    from . import c09

    # C09.6: the completion bookkeeping run by MetricsContext.__exit__ cannot raise (a failing assertion there would replace the
    # body's exception / make a normal exit raise)
    borrow(an, c09.check, {"C09.8": "C02.8", "C09.6": "C02.9"})
    from . import c08

    # C08.1: every disposable is entered and exited through the gather fan-out, i.e. in a task (and context copy) of its own - what a
    # disposable does to the context variables while it is alive never lands in the scope owner's context, where it would be reset
    # out of order when the scope is left
    borrow(an, c08.check, {"C08.1": "C02.10"})


def enter_rollback(an: Analysis, ob, must_call: str, what: str) -> None:
    """From the normal successors of the awaited task-group enter in ScopeContext.__aenter__, every
    path to RAISE (raising = awaits, user code, iteration) passes a call of `must_call`."""
    f_aenter = an.prog.fn(f"{SCOPE}.__aenter__")
    g = an.cfg(f_aenter)
    enters = call_nodes(an, g, G_ENTER)
    if not enters:
        ob.fail(f_aenter, None, "ScopeContext.__aenter__ never enters the task group context")
        return
    required = call_nodes(an, g, must_call)
    for en in enters:
        ob.inst(f_aenter, en.ast, "group enter")
        aw = [n for n in g.nodes if n.kind == "await" and isinstance(n.ast, ast.Await) and n.ast.value is en.ast]
        starts = [t for a in (aw or [en]) for t, lab in a.succ if lab not in ("exc", "reraise")]
        w = g.search(starts, lambda n: n.kind == "exit-raise", skip_node=lambda n: n in required, skip_edge=CFG.no_exc_from(anything), include_start=False)
        if w is None:
            for s_ in starts:
                if anything(s_) and any(t.kind == "exit-raise" for t, lab in s_.succ if lab == "exc") and s_ not in required:
                    w = [s_, g.rse]
        if w is not None:
            culprit = next((n for n in reversed(w) if n.kind not in ("exit-raise", "finally", "with-exit", "reraise")), w[0])
            ob.fail(f_aenter, culprit.ast or culprit.stmt, f"a failure or cancellation after the task group was entered leaves __aenter__ without {what}", CFG.show_path(w))


def group_errors_silenced(an: Analysis, ob) -> None:
    f = an.prog.fn("context.tasks.TaskGroupContext.__aexit__")
    g = an.cfg(f)
    aws = [n for n in g.nodes if n.kind == "await" and isinstance(n.ast.value, ast.Call) and an.callee(f, n.ast.value) == "asyncio.TaskGroup.__aexit__"]  # type: ignore[union-attr]
    if not aws:
        ob.fail(f, None, "the asyncio.TaskGroup exit is not awaited")
        return
    from ..kinds import catches_cancellation, classify_handler

    for aw in aws:
        ob.inst(f, aw.ast)
        through = [t for t, lab in aw.succ if lab == "exc" and t.kind != "handler"]
        if through:
            hs = [t.ast for t, lab in aw.succ if lab == "exc" and t.kind == "handler"]
            ob.fail(
                f,
                hs[-1] if hs else aw.ast,
                "errors raised by TaskGroup.__aexit__ that are not Exception (a BaseExceptionGroup of child failures, the group wrapping GeneratorExit on aclose) escape and replace the body's own exception",
                CFG.show_path([aw, through[0]]),
            )
        from ..cfg import exc_is_sub

        for t, lab in aw.succ:
            if lab != "exc" or t.kind != "handler":
                continue
            classes = g.handler_classes(t.ast)  # type: ignore[arg-type]
            for exc_class in ("Exception", "ExceptionGroup", "BaseExceptionGroup", "GeneratorExit"):
                if not any(exc_is_sub(exc_class, c) for c in classes):
                    continue
                if any(exc_is_sub(exc_class, c) for prev, _ in aw.succ if prev.kind == "handler" and prev is not t and aw.succ.index((prev, "exc")) < aw.succ.index((t, "exc")) for c in g.handler_classes(prev.ast)):  # type: ignore[arg-type]
                    continue  # an earlier handler takes it
                for kind, node, path in classify_handler_for(g, t.ast, exc_class):  # type: ignore[arg-type]
                    falsy_return = kind == "return" and node is not None and isinstance(node.ast, ast.Return) and (node.ast.value is None or (isinstance(node.ast.value, ast.Constant) and not node.ast.value.value))
                    if kind != "swallow" and not falsy_return:  # `return` / `return None` / `return False` from __aexit__ silences just the same
                        ob.fail(f, t.ast, f"a {exc_class} raised by the task group exit is not silenced (the handler {kind}s): it replaces the body's own exception", CFG.show_path(path))


def disposables_exit_attempted(an: Analysis, ob) -> None:
    """Disposables.__aexit__ is attempted on every path of ScopeContext.__aexit__ on which disposables are present."""
    f_aexit = an.prog.fn(f"{SCOPE}.__aexit__")
    g = an.cfg(f_aexit)
    dn = call_nodes(an, g, D_EXIT)
    if not dn:
        ob.fail(f_aexit, None, "ScopeContext.__aexit__ never calls Disposables.__aexit__")
        return
    for n in dn:
        ob.inst(f_aexit, n.ast, "disposables exit")

    def skip(a, b, lab):
        return a.kind == "test" and none_edge(a.ast, "_disposables") == lab

    w = g.must_pass(lambda n: n in dn, raising=strict, skip_edge=skip)
    if w is not None:
        ob.fail(f_aexit, dn[0].ast, "a path with disposables present leaves __aexit__ without attempting Disposables.__aexit__", CFG.show_path(w))


def _must_attempt(an: Analysis, ob, f: FunctionInfo, wanted: dict[str, str]) -> None:
    g = an.cfg(f)
    for label, callee in wanted.items():
        nodes = call_nodes(an, g, callee)
        if not nodes:
            ob.fail(f, None, f"{f.short} never calls the {label} ({callee})")
            continue
        for n in nodes:
            ob.inst(f, n.ast, label)
        w = g.must_pass(lambda n: n in nodes, raising=strict)
        if w is not None:
            culprit = next((n for n in reversed(w) if n.kind in ("call", "await", "return", "raise")), w[-1])
            ob.fail(f, nodes[0].ast, f"a path leaves {f.name} without attempting the {label}", CFG.show_path(w))


def truthy_returns(f: FunctionInfo) -> list[ast.Return]:
    bad = []
    for n in f.own_nodes():
        if isinstance(n, ast.Return) and n.value is not None:
            v = n.value
            if isinstance(v, ast.Constant) and not v.value:
                continue
            bad.append(n)
    return bad


def liveness(fixtures: str) -> list[dict]:
    """The zero-count rule of C02.5 must fire on its committed positive fixture."""
    import os

    from ..engine import Analysis as A

    an = A(os.path.join(fixtures, "c02_truthy_exit"), floors=False)
    f = an.prog.fn("fixture.Manager.__exit__")
    hits = truthy_returns(f)
    if not hits:
        raise AnalysisError("rule C02.5 (truthy exit return) no longer fires on its fixture")
    return [{"rule": "C02.5", "fixture": "fixtures/c02_truthy_exit", "matches": len(hits)}]
