"""C17 - AsyncQueue delivers every element exactly once, in order, then the finish reason."""

from __future__ import annotations

import ast

from .. import AnalysisError
from ..astutil import Deps, is_name
from ..cfg import CFG, Node
from ..engine import Analysis
from ..kinds import NOVALUE, Scenario, both, normal_only, scenario, strict
from ..loader import FunctionInfo, dotted, parent, stmt_text, within

ASSUMPTIONS = [
    "all AsyncQueue methods except __anext__ are synchronous, hence atomic on the single-threaded event loop; __anext__ has one suspension point",
    "API_FACT 8: `await fut` can raise CancelledError after fut.set_result(v); v is then reachable only through fut.result()",
    "single consumer (documented precondition, asserted by __anext__)",
]

Q = "utils.queue.AsyncQueue"
MUTATORS = {"append", "appendleft", "extend", "extendleft", "pop", "popleft", "clear", "insert", "remove", "rotate", "reverse"}


def queue_ops(an: Analysis):
    qq = an.prog.cls(Q).qualname
    out = []
    for fi in an.prog.scan_functions():
        for n in fi.own_nodes():
            # method calls on <AsyncQueue>._queue
            if isinstance(n, ast.Call) and isinstance(n.func, ast.Attribute) and isinstance(n.func.value, ast.Attribute) and n.func.value.attr == "_queue":
                t = an.prog.expr_type(fi, n.func.value.value)
                if t is not None and t.name == qq and n.func.attr in MUTATORS:
                    out.append((fi, n, n.func.attr))
            # subscript stores / deletes / augmented assignment / rebinding
            if isinstance(n, (ast.Assign, ast.AugAssign, ast.AnnAssign, ast.Delete)):
                targets = n.targets if isinstance(n, (ast.Assign, ast.Delete)) else [n.target]
                for tg in targets:
                    base = tg.value if isinstance(tg, ast.Subscript) else tg
                    if isinstance(base, ast.Attribute) and base.attr == "_queue":
                        t = an.prog.expr_type(fi, base.value)
                        if t is not None and t.name == qq and not (fi.name == "__init__" and not isinstance(tg, ast.Subscript)):
                            out.append((fi, n, "store"))
    return out


def check(an: Analysis) -> None:
    prog = an.prog

    def _scn(g_, fi_, env_):
        return Scenario(g_, Deps(prog, fi_), env_).skip

    enq = prog.fn(f"{Q}.enqueue")
    fin = prog.fn(f"{Q}.finish")
    nxt = prog.fn(f"{Q}.__anext__")

    def std_env(fi: FunctionInfo, *, finished: bool | None = None, queue: bool | None = None, waiting: str | None = None):
        """scenario over the queue state.  waiting: None (unknown) | 'none' | 'pending' | 'done'."""
        d = Deps(prog, fi)

        def env(e: ast.AST):
            dd = dotted(e)
            if finished is not None:
                if dd == "self.is_finished":
                    return finished
                if dd == "self._finish_reason":
                    return object() if finished else None
            if queue is not None and dd == "self._queue":
                return [0] if queue else []
            if waiting is not None:
                if dd == "self._waiting" or (isinstance(e, ast.Name) and d.origins(e) == {"attr:self._waiting"}):
                    return None if waiting == "none" else _SENTINEL
                if isinstance(e, ast.Call) and isinstance(e.func, ast.Attribute) and e.func.attr == "done" and d.root_origins(e.func.value) & {"attr:self._waiting"}:
                    return waiting == "done"
            return NOVALUE

        return env

    # ------------------------------------------------------------------ C17.1 FIFO operation table
    ob = an.ob("C17.1", "K3", "AsyncQueue._queue is mutated only by append/extend (right end) in enqueue, popleft (left end) in __anext__, and appendleft on the cancelled hand-off path of __anext__", [Q])
    ops = queue_ops(an)
    seen = set()
    qcls = prog.cls(Q)
    foreign = sorted({fi.cls.qualname for fi, _n, _op in ops if fi.cls is not None and fi.cls is not qcls and fi.cls.module is qcls.module and fi.cls.name.startswith("_")})
    if foreign:
        # the receive protocol was moved into a private helper object (a context manager, a waiter record): its methods
        # would have to be read as part of __anext__, which the normaliser does not do for classes
        raise AnalysisError(f"C17: the element buffer of AsyncQueue is handled by the private helper class(es) {foreign}; receive logic spread over a helper object is not modelled (unrecognised idiom)")
    for fi, n, op in ops:
        ob.inst(fi, n, op)
        seen.add((fi.name, op))
        ok = (fi is enq and op in ("append", "extend")) or (fi is nxt and op == "popleft")
        if fi is nxt and op == "appendleft":
            h = next((p for p in _anc(n) if isinstance(p, ast.ExceptHandler)), None)
            ok = h is not None
            if not ok:
                ob.fail(fi, n, "appendleft outside the exceptional (cancelled hand-off) path re-orders the queue")
                continue
        if not ok:
            ob.fail(fi, n, f"`{op}` on the element buffer in {fi.name} breaks the FIFO discipline (allowed: append/extend in enqueue, popleft in __anext__)")
    for need in (("enqueue", "append"), ("enqueue", "extend"), ("__anext__", "popleft")):
        if need not in seen:
            ob.fail(prog.fn(f"{Q}.{need[0]}"), None, f"{need[0]} no longer performs `{need[1]}` on the buffer")

    # ------------------------------------------------------------------ C17.2 hand-off linearity in enqueue
    g = an.cfg(enq)
    d = Deps(prog, enq)
    ob = an.ob("C17.2", "K1 linear", "on every normal path of enqueue `element` goes to exactly one of {pending waiter.set_result, append}, then `elements` to exactly one extend, in that order; the waiter is used only when present and not done", [f"{Q}.enqueue"])
    params = enq.node.args
    first = (params.posonlyargs + params.args)[1].arg if len(params.posonlyargs + params.args) > 1 else None
    rest = params.vararg.arg if params.vararg else None
    if first is None or rest is None:
        raise AnalysisError("enqueue(element, *elements) signature not recognised")
    handoff = [n for n in g.nodes if n.kind == "call" and isinstance(n.ast.func, ast.Attribute) and n.ast.func.attr == "set_result" and d.root_origins(n.ast.func.value) & {"attr:self._waiting"}]  # type: ignore[union-attr]
    appends = [n for n in g.nodes if n.kind == "call" and any(n.ast is c for f, c, op in ops if f is enq and op == "append")]
    extends = [n for n in g.nodes if n.kind == "call" and any(n.ast is c for f, c, op in ops if f is enq and op == "extend")]
    sinks = handoff + appends
    for n in sinks:
        ob.inst(enq, n.ast)
        if not (len(n.ast.args) == 1 and is_name(n.ast.args[0], first)):  # type: ignore[union-attr]
            ob.fail(enq, n.ast, f"delivers something else than `{first}`")
    for n in extends:
        ob.inst(enq, n.ast)
        if not (len(n.ast.args) == 1 and is_name(n.ast.args[0], rest)):  # type: ignore[union-attr]
            ob.fail(enq, n.ast, f"extends the buffer with something else than `{rest}`")
    not_finished = _scn(g, enq, std_env(enq, finished=False))
    lo, hi = g.count_range(lambda n: n in sinks, g.entry, lambda n: n.kind == "exit-return", skip_edge=both(normal_only, not_finished))
    if (lo, hi) != (1, 1):
        ob.fail(enq, (sinks[0].ast if sinks else None), f"`{first}` is delivered {lo}..{hi} times on normal paths of enqueue (must be exactly once: lost or duplicated element)")
    # (situation: further elements were given - with none, skipping the no-op extend is the same thing)
    some_rest = scenario(g, lambda e: (0,) if is_name(e, rest) else NOVALUE)
    lo, hi = g.count_range(lambda n: n in extends, g.entry, lambda n: n.kind == "exit-return", skip_edge=both(normal_only, not_finished, some_rest))
    if (lo, hi) != (1, 1):
        ob.fail(enq, (extends[0].ast if extends else None), f"`{rest}` are buffered {lo}..{hi} times on normal paths of enqueue (must be exactly once)")
    if sinks and extends:
        w = g.ordered(lambda n: n in sinks, lambda n: n in extends, raising=lambda n: False)
        if w is not None:
            ob.fail(enq, extends[0].ast, "the remaining elements are buffered before the first one was delivered (order broken)", CFG.show_path(w))
    for state in ("none", "done"):
        w = g.search([g.entry], lambda n: n in handoff, skip_edge=_scn(g, enq, std_env(enq, finished=False, waiting=state)))
        if w is not None:
            ob.fail(enq, handoff[0].ast, f"the element is handed to a waiter that is {'absent' if state == 'none' else 'already done'} (element lost / InvalidStateError)", CFG.show_path(w))
    if handoff:
        w = g.search([g.entry], lambda n: n in appends, skip_edge=both(normal_only, _scn(g, enq, std_env(enq, finished=False, waiting="pending"))))
        # with a pending waiter the element must be handed over, not buffered behind it
        if w is not None:
            ob.fail(enq, appends[0].ast, "with a pending receiver the element is buffered instead of handed over (receiver keeps waiting)", CFG.show_path(w))
    else:
        ob.fail(enq, None, "enqueue never hands an element to a pending receiver")

    # ------------------------------------------------------------------ C17.3 enqueue after finish fails before any mutation
    ob = an.ob("C17.3", "K2", "on a finished queue enqueue raises before touching the buffer or the waiter", [f"{Q}.enqueue"])
    fin_sc = _scn(g, enq, std_env(enq, finished=True))
    ob.inst(enq, None, "scenario: finished")
    w = g.search([g.entry], lambda n: n in sinks or n in extends, skip_edge=fin_sc)
    if w is not None:
        ob.fail(enq, w[-1].ast, "a finished queue still accepts elements", CFG.show_path(w))
    w = g.search([g.entry], lambda n: n.kind == "exit-return", skip_edge=fin_sc)
    if w is not None:
        ob.fail(enq, None, "enqueue on a finished queue returns normally instead of failing", CFG.show_path(w))

    # ------------------------------------------------------------------ C17.4 receive ladder
    gn = an.cfg(nxt)
    dn = Deps(prog, nxt)
    ob = an.ob("C17.4", "K2 ladder", "__anext__: buffered element first (popleft, no wait); else the finish reason is raised; else a fresh future is stored in self._waiting and awaited", [f"{Q}.__anext__"])
    pops = [n for n in gn.nodes if n.kind == "call" and any(n.ast is c for f, c, op in ops if f is nxt and op == "popleft")]
    awaits = [n for n in gn.nodes if n.kind == "await"]
    reason_raises = [n for n in gn.nodes if n.kind == "raise" and isinstance(n.ast.exc, (ast.Attribute, ast.Name)) and dn.root_origins(n.ast.exc) | dn.origins(n.ast.exc) & {"attr:self._finish_reason"} and "attr:self._finish_reason" in (dn.origins(n.ast.exc))]  # type: ignore[union-attr]
    for n in pops + awaits + reason_raises:
        ob.inst(nxt, n.ast)
    asrt = lambda n: n.meta.get("assert") is not None  # noqa: E731
    # (a) buffer non-empty -> returns popleft without suspending
    sc = both(normal_only, _scn(gn, nxt, std_env(nxt, queue=True)))
    w = gn.must_pass(lambda n: n in pops, exits=("exit-return",), skip_edge=sc)
    if w is not None or not pops:
        ob.fail(nxt, None, "with a buffered element a path does not take it from the left end", CFG.show_path(w))
    w = gn.search([gn.entry], lambda n: n in awaits or n in reason_raises, skip_edge=_scn(gn, nxt, std_env(nxt, queue=True)))
    if w is not None:
        ob.fail(nxt, w[-1].ast, "buffered elements are not delivered first", CFG.show_path(w))
    from ..astutil import unwrap

    for r in [n for n in gn.nodes if n.kind == "return"]:
        v = r.ast.value  # type: ignore[union-attr]
        if isinstance(v, ast.Call) and any(v is p.ast for p in pops):
            continue
        if isinstance(v, ast.Await):
            continue
        if isinstance(v, ast.Name):
            owner = dn.owner(v.id)
            vals = [unwrap(x) for k, x in dn.defs(owner, v.id) if k == "value" and not getattr(parent(x), "_inline_init", False)] if owner is not None else []
            if vals and all(isinstance(x, ast.Await) or (isinstance(x, ast.Call) and any(x is p.ast for p in pops)) for x in vals):
                continue
        ob.fail(nxt, r.ast, "__anext__ returns something that is neither the popped element nor the awaited hand-off")
    # (b) empty and finished -> raises the reason, never waits
    sc_fin = _scn(gn, nxt, std_env(nxt, queue=False, finished=True))
    w = gn.search([gn.entry], lambda n: n in awaits or n.kind == "exit-return", skip_edge=sc_fin)
    if w is not None:
        ob.fail(nxt, w[-1].ast if w[-1].ast is not None else None, "on a drained, finished queue a receive waits or returns instead of raising the finish reason", CFG.show_path(w))
    if not reason_raises:
        ob.fail(nxt, None, "the stored finish reason is never raised")
    # (c) empty, not finished -> waits on a fresh future published in self._waiting
    sc_wait = both(normal_only, _scn(gn, nxt, std_env(nxt, queue=False, finished=False)))
    w = gn.must_pass(lambda n: n in awaits, exits=("exit-return",), skip_edge=sc_wait)
    if w is not None or not awaits:
        ob.fail(nxt, None, "on an empty unfinished queue a receive does not wait", CFG.show_path(w))
    for a in awaits:
        if "call:asyncio.AbstractEventLoop.create_future" not in dn.origins(a.ast.value):  # type: ignore[union-attr]
            ob.fail(nxt, a.ast, "the receive does not wait on a freshly created future")
    pubs = [n for n in gn.nodes if n.kind == "stmt" and isinstance(n.ast, (ast.Assign, ast.AnnAssign)) and any(dotted(t) == "self._waiting" for t in (n.ast.targets if isinstance(n.ast, ast.Assign) else [n.ast.target])) and "call:asyncio.AbstractEventLoop.create_future" in dn.origins(n.ast.value)]
    if not pubs:
        ob.fail(nxt, None, "the future waited on is never published in self._waiting (producers cannot find the receiver)")
    elif awaits:
        w = gn.ordered(lambda n: n in pubs, lambda n: n in awaits)
        if w is not None:
            ob.fail(nxt, awaits[0].ast, "the receive suspends before publishing its future", CFG.show_path(w))
        # published and awaited future are the same object
        pv, av = pubs[0].ast.value, awaits[0].ast.value  # type: ignore[union-attr]
        same = (isinstance(av, ast.Name) and isinstance(pv, ast.Name) and av.id == pv.id) or dotted(av) == "self._waiting" or (isinstance(av, ast.Name) and isinstance(pv, ast.Call))
        if not same:
            ob.fail(nxt, awaits[0].ast, "the awaited future is not the one published in self._waiting")

    # ------------------------------------------------------------------ C17.5 finish once
    gf = an.cfg(fin)
    df = Deps(prog, fin)
    ob = an.ob("C17.5", "K2", "finish: no effect when already finished; otherwise stores the reason (given exception, else StopAsyncIteration) and fails a pending, not-done waiter with it", [f"{Q}.finish"])
    stores = [n for n in gf.nodes if n.kind == "stmt" and isinstance(n.ast, (ast.Assign, ast.AnnAssign)) and any(dotted(t) == "self._finish_reason" for t in (n.ast.targets if isinstance(n.ast, ast.Assign) else [n.ast.target]))]
    fails = [n for n in gf.nodes if n.kind == "call" and isinstance(n.ast.func, ast.Attribute) and n.ast.func.attr == "set_exception" and df.root_origins(n.ast.func.value) & {"attr:self._waiting"}]  # type: ignore[union-attr]
    for n in stores + fails:
        ob.inst(fin, n.ast)
    if not stores:
        ob.fail(fin, None, "finish never stores the finish reason")
    else:
        w = gf.search([gf.entry], lambda n: n in stores or n in fails, skip_edge=_scn(gf, fin, std_env(fin, finished=True)))
        if w is not None:
            ob.fail(fin, w[-1].ast, "finishing an already finished queue changes its reason / disturbs the receiver", CFG.show_path(w))
        w = gf.must_pass(lambda n: n in stores, exits=("exit-return",), skip_edge=both(normal_only, _scn(gf, fin, std_env(fin, finished=False))))
        if w is not None:
            ob.fail(fin, stores[0].ast, "a path through finish leaves the queue unfinished", CFG.show_path(w))
        v = stores[0].ast.value  # type: ignore[union-attr]
        oo = df.origins(v)
        if not ("param:exception" in oo and any(x.endswith("StopAsyncIteration") for x in oo)):
            ob.fail(fin, stores[0].ast, "the reason is not `exception or StopAsyncIteration()`")
    if not fails:
        ob.fail(fin, None, "a pending receive is never woken with the finish reason")
    else:
        w = gf.must_pass(lambda n: n in fails, exits=("exit-return",), skip_edge=both(normal_only, _scn(gf, fin, std_env(fin, finished=False, waiting="pending"))))
        if w is not None:
            ob.fail(fin, fails[0].ast, "with a pending receiver a path through finish leaves it waiting forever", CFG.show_path(w))
        for state in ("none", "done"):
            w = gf.search([gf.entry], lambda n: n in fails, skip_edge=_scn(gf, fin, std_env(fin, finished=False, waiting=state)))
            if w is not None:
                ob.fail(fin, fails[0].ast, f"finish touches a waiter that is {'absent' if state == 'none' else 'already done'}", CFG.show_path(w))
        a = fails[0].ast.args[0] if fails[0].ast.args else None  # type: ignore[union-attr]
        if not (a is not None and (dotted(a) == "self._finish_reason" or (stores and df.origins(a) == df.origins(stores[0].ast.value)))):  # type: ignore[union-attr]
            ob.fail(fin, fails[0].ast, "the receiver is failed with something else than the stored finish reason")
        if stores:
            w = gf.ordered(lambda n: n in stores, lambda n: n in fails)
            if w is not None:
                ob.fail(fin, fails[0].ast, "the receiver is woken before the reason is stored", CFG.show_path(w))
    isf = prog.fn(f"{Q}.is_finished")
    for r in [r for r in isf.own_nodes() if isinstance(r, ast.Return)]:
        ob.inst(isf, r)
        v = r.value
        ok = isinstance(v, ast.Compare) and len(v.ops) == 1 and isinstance(v.ops[0], ast.IsNot) and dotted(v.left) == "self._finish_reason" and isinstance(v.comparators[0], ast.Constant) and v.comparators[0].value is None
        if not ok:
            ob.fail(isf, r, "is_finished is not `self._finish_reason is not None`: the guards of enqueue/finish no longer mean 'finish was called' (e.g. 'finished and drained' lets a finished queue accept elements and change its reason while buffered elements remain)")
    cancel = prog.fn(f"{Q}.cancel")
    cc = [c for c in cancel.own_nodes() if isinstance(c, ast.Call) and an.callee(cancel, c) == fin.qualname]
    if not cc:
        ob.fail(cancel, None, "cancel does not finish the queue")
    else:
        ob.inst(cancel, cc[0])
        arg = cc[0].args[0] if cc[0].args else next((k.value for k in cc[0].keywords if k.arg == "exception"), None)
        if not (isinstance(arg, ast.Call) and (dotted(arg.func) or "").endswith("CancelledError")):
            ob.fail(cancel, cc[0], "cancel does not finish with CancelledError")

    # ------------------------------------------------------------------ C17.6 cancelled hand-off is re-buffered
    ob = an.ob(
        "C17.6",
        "K10+K4",
        "the exceptional path out of the await in __anext__ puts an already delivered element back at the front of the buffer "
        "(handler reads the future's result and appendlefts it) before propagating (API_FACT 8); self._waiting is cleared on every path",
        [f"{Q}.__anext__"],
    )
    if awaits:
        aw = awaits[0]
        ob.inst(nxt, aw.ast)
        fut = aw.ast.value  # type: ignore[union-attr]

        def is_same_future(e: ast.AST) -> bool:
            if isinstance(fut, ast.Name) and is_name(e, fut.id):
                return True
            return dotted(e) is not None and dotted(e) == dotted(fut)

        rebuf = [
            n
            for n in gn.nodes
            if n.kind == "call"
            and any(n.ast is c for f, c, op in ops if f is nxt and op == "appendleft")
            and len(n.ast.args) == 1  # type: ignore[union-attr]
            and isinstance(n.ast.args[0], ast.Call)  # type: ignore[union-attr]
            and isinstance(n.ast.args[0].func, ast.Attribute)  # type: ignore[union-attr]
            and n.ast.args[0].func.attr == "result"  # type: ignore[union-attr]
            and is_same_future(n.ast.args[0].func.value)  # type: ignore[union-attr]
        ]

        def env_delivered(e: ast.AST):
            if isinstance(e, ast.Call) and isinstance(e.func, ast.Attribute) and is_same_future(e.func.value):
                if e.func.attr == "done":
                    return True
                if e.func.attr == "cancelled":
                    return False
                if e.func.attr == "exception":
                    return None
            return NOVALUE

        starts = gn.exc_succ_for(aw, "CancelledError")

        def fut_query(n: Node) -> bool:
            # done()/cancelled()/exception()/result() of a future that holds a result do not raise
            return n.kind == "call" and isinstance(n.ast.func, ast.Attribute) and is_same_future(n.ast.func.value)  # type: ignore[union-attr]

        w = gn.search(
            starts,
            lambda n: n.kind == "exit-raise",
            skip_node=lambda n: n in rebuf,
            skip_edge=both(Scenario(gn, dn, env_delivered).skip, lambda a, b, lab: lab == "exc" and fut_query(a), gn.exc_route("CancelledError")),  # (fixpoint: the decision may travel through locals / an inlined predicate)
            include_start=True,
        )
        if w is not None:
            ob.fail(nxt, aw.ast, "an element already handed to the pending receive is lost when the receiving task is cancelled before it wakes up", CFG.show_path([aw] + w))
        for label, vals in (("still pending", {"done": False}), ("cancelled", {"done": True, "cancelled": True}), ("failed with the finish reason", {"done": True, "cancelled": False, "exception": _SENTINEL})):

            def env_other(e: ast.AST, vals=vals):
                if isinstance(e, ast.Call) and isinstance(e.func, ast.Attribute) and is_same_future(e.func.value) and e.func.attr in vals:
                    return vals[e.func.attr]
                return NOVALUE

            w = gn.search(starts, lambda n: n in rebuf, skip_edge=Scenario(gn, dn, env_other).skip, include_start=True)
            if w is not None:
                ob.fail(nxt, rebuf[0].ast, f"the cancellation handler reads the result of a future that is {label}: result() raises and the cancellation is replaced by that error", CFG.show_path(w))
        clears = [n for n in gn.nodes if n.kind == "stmt" and isinstance(n.ast, ast.Assign) and any(dotted(t) == "self._waiting" for t in n.ast.targets) and isinstance(n.ast.value, ast.Constant) and n.ast.value.value is None]
        if not clears:
            ob.fail(nxt, None, "self._waiting is never cleared after a receive")
        else:
            held = _restated_invariants(an, nxt, gn)
            if held:
                ob.inst(nxt, held[0].meta["assert"], "assertion restating `self._waiting is <the future this receive registered>`: cannot fail (only this function writes the attribute, behind the single-consumer guard)")
            w = gn.must_pass(lambda n: n in clears, starts=[t for t, lab in aw.succ], skip_edge=lambda a_, b_, lab_: b_ in held)
            if w is not None:
                ob.fail(nxt, clears[0].ast, "a path out of the wait leaves a stale self._waiting behind (next receive trips the single-consumer assert)", CFG.show_path(w))


_SENTINEL = object()


def _restated_invariants(an: Analysis, fi, g: CFG) -> list[Node]:
    """assert-fail nodes of `assert self.A is <local>` that cannot be reached: the function stored that very local into
    self.A on every path to the assertion, no other function of the class writes self.A, and a concurrent second
    invocation of this function is stopped by its leading `assert self.A is None` before it writes."""
    out: list[Node] = []
    cls = fi.cls
    if cls is None:
        return out
    for n in [n for n in g.nodes if n.kind == "assert-fail"]:
        a = n.meta.get("assert")
        t = a.test if a is not None else None
        if not (isinstance(t, ast.Compare) and len(t.ops) == 1 and isinstance(t.ops[0], ast.Is)):
            continue
        sides = [t.left, t.comparators[0]]
        attr = next((x for x in sides if isinstance(x, ast.Attribute) and is_name(x.value, "self")), None)
        loc = next((x for x in sides if isinstance(x, ast.Name)), None)
        if attr is None or loc is None:
            continue
        writers = {m.qualname for ms in cls.methods.values() for m in ms for x in m.own_nodes() if isinstance(x, ast.Attribute) and x.attr == attr.attr and isinstance(x.ctx, (ast.Store, ast.Del)) and m.name != "__init__"}
        if writers - {fi.qualname}:
            continue
        first = next((st for st in fi.node.body if not (isinstance(st, ast.Expr) and isinstance(st.value, ast.Constant))), None)
        guard = isinstance(first, ast.Assert) and isinstance(first.test, ast.Compare) and len(first.test.ops) == 1 and isinstance(first.test.ops[0], ast.Is) and dotted(first.test.left) == f"self.{attr.attr}" and isinstance(first.test.comparators[0], ast.Constant) and first.test.comparators[0].value is None
        if not guard:
            continue
        if len([1 for x in fi.own_nodes() if isinstance(x, ast.Name) and x.id == loc.id and isinstance(x.ctx, ast.Store)]) != 1:
            continue
        stores = [m for m in g.nodes if m.kind == "stmt" and isinstance(m.ast, (ast.Assign, ast.AnnAssign)) and any(dotted(tg) == f"self.{attr.attr}" for tg in (m.ast.targets if isinstance(m.ast, ast.Assign) else [m.ast.target]))]
        good = [m for m in stores if is_name(m.ast.value, loc.id)]
        # every path from the entry (or from another store) to the assertion passes a `self.A = <local>` last
        w = g.search([g.entry] + [m for m in stores if m not in good], lambda x: x is n, skip_node=lambda x: x in good)
        if good and w is None:
            out.append(n)
    return out


def _anc(n: ast.AST):
    from ..loader import ancestors

    return ancestors(n)
