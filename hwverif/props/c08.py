"""C08 - disposables are entered once, exited once, and their cleanup errors surface."""

from __future__ import annotations

import ast

from .. import AnalysisError
from ..astutil import Deps, is_name, unwrap
from ..cfg import CFG, Node
from ..domains import CompShape, merge_order
from ..engine import Analysis
from ..kinds import NOVALUE, arg_for, both, call_nodes, calls_to, normal_only, param_positions, scenario, with_locals
from ..loader import FunctionInfo, dotted, parent, stmt_text
from . import c02

ASSUMPTIONS = [
    "API_FACT 10: asyncio.gather without return_exceptions=True propagates the first failure and leaves the other awaitables running, their outcomes unobservable",
    "API_FACT 12: __aexit__ is not called when __aenter__ raised",
    "completion orders inside gather are not analysed (every awaitable handed to gather is awaited)",
]

D = "context.disposables.Disposables"


def gather_calls(an: Analysis, fi: FunctionInfo) -> list[ast.Call]:
    return [c for c in fi.own_nodes() if isinstance(c, ast.Call) and an.callee(fi, c) == "asyncio.gather"]


def fanout(call: ast.Call, deps: Deps | None = None) -> CompShape | None:
    """The comprehension spread into gather(*[...]) - or the accumulation loop that filled the list spread into it."""
    if len(call.args) == 1 and isinstance(call.args[0], ast.Starred):
        v = call.args[0].value
        sh = CompShape(v)
        if sh.ok:
            return sh
        if deps is not None and isinstance(v, ast.Name):
            from ..domains import comp_of

            return comp_of(deps, v)
    return None


def return_exceptions(call: ast.Call) -> bool:
    v = next((k.value for k in call.keywords if k.arg == "return_exceptions"), None)
    return isinstance(v, ast.Constant) and v.value is True


def is_exc_filter(sh: CompShape, var_only: bool = True) -> tuple[bool, bool]:
    """(is a filter `isinstance(x, BaseException)` [possibly negated] on a loop variable, negated?)"""
    if not sh.filtered:
        return False, False
    if isinstance(sh.comp, (ast.For, ast.AsyncFor)):
        t = getattr(sh, "filter_expr", None) or sh.comp.body[0].test
    elif len(sh.comp.generators[0].ifs) == 1:
        t = sh.comp.generators[0].ifs[0]
    else:
        return False, False
    neg = False
    while isinstance(t, ast.UnaryOp) and isinstance(t.op, ast.Not):
        neg = not neg
        t = t.operand
    ok = isinstance(t, ast.Call) and is_name(t.func, "isinstance") and len(t.args) == 2 and isinstance(t.args[0], ast.Name) and t.args[0].id in sh.target_names() and (dotted(t.args[1]) or "").endswith("BaseException")
    return ok, neg


def find_initialize(an: Analysis) -> FunctionInfo:
    """The coroutine that enters ONE disposable (awaits `<its parameter>.__aenter__()`) - a method of Disposables in
    the pinned tree; found by what it does, so that it may be renamed or moved to module level."""
    prog = an.prog
    mod = prog.module("context.disposables")
    found = []
    for f in prog.scan_functions():
        if f.module is not mod or not f.is_async or f.name == "__aenter__":
            continue
        params = set(f.param_names())
        for n in f.own_nodes():
            if isinstance(n, ast.Await) and isinstance(n.value, ast.Call) and isinstance(n.value.func, ast.Attribute) and n.value.func.attr == "__aenter__" and isinstance(n.value.func.value, ast.Name) and n.value.func.value.id in params:
                found.append(f)
                break
    if len(found) != 1:
        raise AnalysisError(f"C08: expected one coroutine entering a single disposable in haiway.context.disposables, found {[f.short for f in found]}")
    return found[0]


def check(an: Analysis) -> None:
    prog = an.prog
    aenter = prog.fn(f"{D}.__aenter__")
    aexit = prog.fn(f"{D}.__aexit__")
    init_ = find_initialize(an)
    de, dx = Deps(prog, aenter), Deps(prog, aexit)
    ge, gx = an.cfg(aenter), an.cfg(aexit)

    # ------------------------------------------------------------------ C08.1 fan-out covers all, once
    ob = an.ob("C08.1", "K9", "the primary enter / exit fan-out iterates self._disposables once, unfiltered, one call per element; _initialize awaits disposable.__aenter__() exactly once", [f"{D}.__aenter__", f"{D}.__aexit__", f"{D}._initialize"])
    INIT = init_.qualname
    enter_g = None
    for c in gather_calls(an, aenter):
        sh = fanout(c, de)
        if sh is not None and isinstance(unwrap(sh.elt), ast.Call) and an.callee(aenter, unwrap(sh.elt)) == INIT:
            enter_g = (c, sh)
    if enter_g is None:
        ob.fail(aenter, None, "no gather(*[self._initialize(d) for d in self._disposables]) fan-out: disposables are not all entered")
    else:
        c, sh = enter_g
        ob.inst(aenter, c)
        el = unwrap(sh.elt)
        if sh.filtered or dotted(sh.iter) != "self._disposables" or not (len(el.args) == 1 and isinstance(el.args[0], ast.Name) and el.args[0].id in sh.target_names()):
            ob.fail(aenter, c, "the enter fan-out skips, filters or repeats disposables")
        p = parent(c)
        if not isinstance(p, ast.Await):
            ob.fail(aenter, c, "the enter gather is not awaited before the scope body starts")
    exit_g = None
    for c in gather_calls(an, aexit):
        sh = fanout(c, dx)
        if sh is not None and isinstance(unwrap(sh.elt), ast.Call) and isinstance(unwrap(sh.elt).func, ast.Attribute) and unwrap(sh.elt).func.attr == "__aexit__":
            exit_g = (c, sh)
    if exit_g is None:
        ob.fail(aexit, None, "no gather(*[d.__aexit__(...) for d in self._disposables]) fan-out: disposables are not all exited")
    else:
        c, sh = exit_g
        ob.inst(aexit, c)
        el = unwrap(sh.elt)
        if sh.filtered or dotted(sh.iter) != "self._disposables" or not (isinstance(el.func.value, ast.Name) and el.func.value.id in sh.target_names()):
            ob.fail(aexit, c, "the exit fan-out skips, filters or repeats disposables")
        if not isinstance(parent(c), ast.Await):
            ob.fail(aexit, c, "the exit gather is not awaited")
        w = gx.must_pass(lambda n: n.kind == "call" and n.ast is c, exits=("exit-return", "exit-raise"), raising=lambda n: False, skip_edge=scenario(gx, with_locals(dx, nonempty_env)))
        if w is not None:
            ob.fail(aexit, c, "a path through Disposables.__aexit__ skips the exit fan-out", CFG.show_path(w))
    gi = an.cfg(init_)
    p0 = param_positions(init_)[0]
    ents = [n for n in gi.nodes if n.kind == "await" and isinstance(n.ast.value, ast.Call) and isinstance(n.ast.value.func, ast.Attribute) and n.ast.value.func.attr == "__aenter__" and is_name(n.ast.value.func.value, p0)]  # type: ignore[union-attr]
    if not ents:
        ob.fail(init_, None, "_initialize never enters its disposable")
    else:
        ob.inst(init_, ents[0].ast)
        lo, hi = gi.count_range(lambda n: n in ents, gi.entry, lambda n: n.kind == "exit-return", skip_edge=normal_only)
        if (lo, hi) != (1, 1):
            ob.fail(init_, ents[0].ast, f"a disposable is entered {lo}..{hi} times per scope (must be exactly once)")

    # ------------------------------------------------------------------ C08.2 exception details forwarded
    ob = an.ob("C08.2", "K5", "exc_type, exc_val, exc_tb are forwarded to every disposable.__aexit__ (and from ScopeContext.__aexit__ to Disposables.__aexit__)", [f"{D}.__aexit__", "context.access.ScopeContext.__aexit__"])
    own = param_positions(aexit)
    if exit_g is not None:
        el = unwrap(exit_g[1].elt)
        ob.inst(aexit, el)
        for i in range(3):
            a = arg_for(el, i, ("exc_type", "exc_value", "traceback")[i])
            if not is_name(a, own[i]):
                ob.fail(aexit, el, f"disposable.__aexit__ receives `{stmt_text(a) if a is not None else 'nothing'}` instead of {own[i]}")
    sa = prog.fn("context.access.ScopeContext.__aexit__")
    sown = param_positions(sa)
    for c in calls_to(an, sa, c02.D_EXIT):
        ob.inst(sa, c)
        cp = param_positions(aexit)
        for i in range(3):
            if not is_name(arg_for(c, i, cp[i]), sown[i]):
                ob.fail(sa, c, f"Disposables.__aexit__ does not receive {sown[i]}")

    # ------------------------------------------------------------------ C08.3 exit gather observes every failure
    ob = an.ob("C08.3", "K10", "the exit gather uses return_exceptions=True (otherwise one failing cleanup abandons the others, API_FACT 10)", [f"{D}.__aexit__"])
    if exit_g is not None:
        ob.inst(aexit, exit_g[0])
        if not return_exceptions(exit_g[0]):
            ob.fail(aexit, exit_g[0], "exit gather without return_exceptions=True: after the first failing cleanup the remaining disposables are not awaited and their errors vanish")

    # ------------------------------------------------------------------ C08.4 cleanup errors surface
    ob = an.ob("C08.4", "K11", "exceptions collected from the exit gather are raised whenever the collection is non-empty (guards evaluated for len in {0,1,2}); the collection holds every BaseException result", [f"{D}.__aexit__"])
    _collected_errors_surface(an, ob, aexit, gx, dx, exit_g[0] if exit_g else None)

    # ------------------------------------------------------------------ C08.5 partial enter failure is rolled back
    ob = an.ob(
        "C08.5",
        "K10+K1",
        "(a) the enter gather uses return_exceptions=True; (b) whenever some enter failed, the disposables that did enter are exited before the error is raised, and the error is raised",
        [f"{D}.__aenter__"],
    )
    if enter_g is not None:
        c, sh = enter_g
        ob.inst(aenter, c)
        if not return_exceptions(c):
            ob.fail(aenter, c, "enter gather without return_exceptions=True: when one disposable fails to enter, the others keep entering unobserved and are never exited")
        else:
            # (b): rollback fan-out over the entered subset
            rb = None
            for c2 in gather_calls(an, aenter):
                sh2 = fanout(c2, de)
                if sh2 is not None and isinstance(unwrap(sh2.elt), ast.Call) and isinstance(unwrap(sh2.elt).func, ast.Attribute) and unwrap(sh2.elt).func.attr == "__aexit__":
                    rb = (c2, sh2)
            errs = _error_collections(an, aenter, de, c)
            if rb is None:
                ob.fail(aenter, c, "no roll-back: disposables that entered before another one failed are never exited")
            else:
                c2, sh2 = rb
                ob.inst(aenter, c2, "rollback")
                if not _is_entered_subset(an, aenter, de, sh2):
                    ob.fail(aenter, c2, "the roll-back does not exit exactly the disposables whose enter succeeded (zip(self._disposables, results) filtered by `not isinstance(result, BaseException)`)")
                if not return_exceptions(c2):
                    ob.fail(aenter, c2, "roll-back gather without return_exceptions=True: a failing cleanup hides the original enter error and abandons the other cleanups")
                if not isinstance(parent(c2), ast.Await):
                    ob.fail(aenter, c2, "the roll-back is not awaited")
                if errs:
                    bad = _index_out_of_range([c2], errs, 1)
                    if bad is not None:
                        ob.fail(aenter, c2, f"with a single failed enter `{stmt_text(bad)}` is out of range: the roll-back dies with IndexError and the entered disposables are never exited")
                    rbn = [n for n in ge.nodes if n.kind == "call" and n.ast is c2]
                    for n_err in (1, 2):
                        env = _len_env(de, errs, n_err)
                        sc = scenario(ge, env)
                        w = ge.search([ge.entry], lambda n: n.kind == "exit-return", skip_edge=sc)
                        if w is not None:
                            ob.fail(aenter, c, f"[{n_err} failed enter(s)] __aenter__ still returns: the body would run although entering failed", CFG.show_path(w))
                        w = ge.must_pass(lambda n: n in rbn, exits=("exit-raise",), skip_edge=both(sc, lambda a, b, lab: lab == "exc" and a.kind != "raise"))
                        if w is not None:
                            ob.fail(aenter, c2, f"[{n_err} failed enter(s)] the error is raised without exiting the entered disposables first", CFG.show_path(w))
                    sc0 = scenario(ge, _len_env(de, errs, 0))
                    w = ge.search([ge.entry], lambda n: n in rbn or n.kind == "raise", skip_edge=sc0)
                    if w is not None:
                        ob.fail(aenter, w[-1].ast, "[no failed enter] the roll-back / an error is triggered although every disposable entered", CFG.show_path(w))
                else:
                    ob.fail(aenter, c, "enter failures are not collected from the gather result")
        # (c) cancellation while entering concurrently
        ob = an.ob("C08.5c", "K10+K1", "the await of the enter gather is protected by a CancelledError/BaseException handler that exits the disposables which already entered (cancellation while entering concurrently)", [f"{D}.__aenter__"])
        aw = [n for n in ge.nodes if n.kind == "await" and n.ast.value is c]  # type: ignore[union-attr]
        if aw:
            ob.inst(aenter, aw[0].ast)
            targets = ge.exc_succ_for(aw[0], "CancelledError")
            protected = any(t.kind == "handler" for t in targets)
            if not protected:
                ob.fail(aenter, aw[0].ast, "cancellation delivered while the disposables are being entered concurrently leaves the ones that already entered without exit", construct="await gather(<enter fan-out>)")

    # (d) cancellation pending / delivered while the exit fan-out is awaited
    ob = an.ob("C08.5d", "K10+K1", "the exit fan-out survives a cancellation delivered at its await: API fact - `gather` cancels its children with the awaiting task, and a child cancelled before its first step never runs - so the await is shielded (and waited out) or handled so that every disposable's __aexit__ is still started", [f"{D}.__aexit__"])
    if exit_g is not None:
        cx = exit_g[0]
        awx = [n for n in gx.nodes if n.kind == "await" and n.ast.value is cx]  # type: ignore[union-attr]
        if awx:
            ob.inst(aexit, awx[0].ast)
            protected = any(t.kind == "handler" for t in gx.exc_succ_for(awx[0], "CancelledError"))
            if not protected:
                ob.fail(aexit, awx[0].ast, "a cancellation that is pending when the scope is left (or arrives before the exit coroutines took their first step) cancels them unstarted: the disposables are never exited", construct="await gather(<exit fan-out>)")
        else:
            ob.inst(aexit, cx, "exit fan-out not awaited directly")

    # ------------------------------------------------------------------ C08.6 scope integration
    ob = an.ob("C08.6", "K1", "ScopeContext enters the disposables (awaited) before state/metrics are entered, and exits them exactly once per exit path on which they are present", ["context.access.ScopeContext.__aenter__", "context.access.ScopeContext.__aexit__"])
    sen = prog.fn("context.access.ScopeContext.__aenter__")
    gs = an.cfg(sen)
    dn = [n for n in gs.nodes if n.kind == "await" and isinstance(n.ast.value, ast.Call) and an.callee(sen, n.ast.value) == c02.D_ENTER]  # type: ignore[union-attr]
    later = [n for n in gs.nodes if n.kind == "call" and an.callee(sen, n.ast) in (c02.q("context.state.StateContext.__enter__"), c02.q("context.metrics.MetricsContext.__enter__")) and n.meta.get("handler") is None]
    if not dn:
        ob.fail(sen, None, "disposables are never (awaited) entered by the scope")
    else:
        ob.inst(sen, dn[0].ast)

        def skipnone(a, b, lab):
            return a.kind == "test" and c02.none_edge(a.ast, "_disposables") == lab

        w = gs.ordered(lambda n: n in dn, lambda n: n in later, raising=lambda n: False)
        w = gs.search([gs.entry], lambda n: n in later, skip_node=lambda n: n in dn, skip_edge=both(normal_only, skipnone))
        if w is not None:
            ob.fail(sen, dn[0].ast, "with disposables present the scope's state/metrics are entered before (or without) entering the disposables", CFG.show_path(w))
        # a failed enter is rolled back by Disposables.__aenter__ itself (C08.5): the scope must not exit them again
        exits_in_enter = call_nodes(an, gs, c02.D_EXIT)
        for d0 in dn:
            starts = d0.out("exc")
            if exits_in_enter and starts:
                w = gs.search(starts, lambda n: n in exits_in_enter)
                if w is not None:
                    ob.fail(sen, w[-1].ast, "after a failing Disposables.__aenter__ (which already exited the disposables that had entered) the scope exits the disposables again: entered ones are exited twice, the failing one is exited without having entered", CFG.show_path([d0] + w))
    c02.disposables_exit_attempted(an, ob)
    gsa = an.cfg(sa)
    dxn = call_nodes(an, gsa, c02.D_EXIT)
    if dxn:
        ob.inst(sa, dxn[0].ast)

        def skipnone2(a, b, lab):
            return a.kind == "test" and c02.none_edge(a.ast, "_disposables") == lab

        lo, hi = gsa.count_range(lambda n: n in dxn, gsa.entry, lambda n: n.kind in ("exit-return", "exit-raise"), skip_edge=skipnone2)
        if hi > 1:
            ob.fail(sa, dxn[0].ast, f"disposables can be exited {hi} times on one path through the scope exit")
        # a cleanup error raised by Disposables.__aexit__ leaves ScopeContext.__aexit__ as an exception, never as a normal return
        dxa = [n for n in gsa.nodes if n.kind == "await" and isinstance(n.ast.value, ast.Call) and an.callee(sa, n.ast.value) == c02.D_EXIT]  # type: ignore[union-attr]
        starts = [t for n in dxa for t in n.out("exc")]
        if starts:
            w = gsa.search(starts, lambda n: n.kind == "exit-return", include_start=True)
            if w is not None:
                ob.fail(sa, w[0].ast or dxn[0].ast, "an error raised by the disposables' cleanup can be dropped by the scope exit (it returns normally / lets only the body's exception through): cleanup errors must surface to the caller", CFG.show_path([dxa[0]] + w))

    # ------------------------------------------------------------------ C08.7 normalisation of what a disposable yields
    ob = an.ob("C08.7", "K2", "_initialize: None -> (), a single State -> (state,), otherwise the yielded iterable itself, untouched (evaluated for the three kinds of value a disposable can yield; works for match and if/isinstance forms)", [f"{D}._initialize"])
    from ..kinds import Abs, Scenario

    di_ = Deps(prog, init_)
    if not ents:
        ob.fail(init_, None, "the value being normalised is not the result of disposable.__aenter__()")
    else:
        entered = ents[0].ast  # the Await node

        def env_for(value):
            def env(e: ast.AST):
                if e is entered:
                    return value
                return NOVALUE

            return env

        a_state = Abs("State", "object", tag="state")
        from ..kinds import abs_builtin

        a_iter = Abs("generator", "Generator", "Iterator", "Iterable", "object", tag="one-shot iterable")  # legal for Iterable[State]; no Sequence
        a_list = abs_builtin("list")
        rets_all = [n for n in gi.nodes if n.kind == "return"]
        yielded_names = {x.id for x in ast.walk(init_.node) if isinstance(x, ast.Name) and di_.origins(x) and "expr" not in di_.origins(x) and _is_entered_value(di_, x, entered)}
        a_falsy_state = Abs("State", "object", truthy=False, tag="state whose truth value is False")  # a State defining __len__ / __bool__
        for label, value in (("None", None), ("a single State", a_state), ("a single State whose truth value is False", a_falsy_state), ("an iterable of states", a_iter), ("a list of states", a_list)):
            sc = Scenario(gi, di_, env_for(value))
            live = [r for r in rets_all if r.id in sc.reach]
            ob.inst(init_, None, f"yielded {label}: {len(live)} reachable return(s)")
            if not live:
                ob.fail(init_, None, f"_initialize has no return for a disposable yielding {label}")
            for r in live:
                v = unwrap(r.ast.value)  # type: ignore[union-attr]
                if label == "None":
                    ok = isinstance(v, (ast.Tuple, ast.List)) and not v.elts
                    msg = "a disposable yielding None must contribute no state"
                elif label.startswith("a single State"):
                    ok = isinstance(v, (ast.Tuple, ast.List)) and len(v.elts) == 1 and isinstance(v.elts[0], ast.Name) and v.elts[0].id in yielded_names
                    msg = "a single yielded State is dropped or mis-wrapped"
                else:
                    ok = isinstance(v, ast.Name) and v.id in yielded_names
                    msg = "the yielded iterable is not handed on as is"
                if not ok:
                    ob.fail(init_, r.ast, msg + f" (returns `{stmt_text(v) if v is not None else 'None'}`)")
        # linear use: on the path that hands the iterable on, it is not touched before
        sc = Scenario(gi, di_, env_for(a_iter))
        for n in gi.nodes:
            if n.id in sc.reach and n.kind in ("call", "comp", "for-iter") and n.ast is not None:
                names_used = {x.id for x in ast.walk(n.ast if n.kind != "for-iter" else n.ast.iter) if isinstance(x, ast.Name)}  # type: ignore[union-attr]
                if names_used & yielded_names and not (n.kind == "call" and isinstance(n.ast.func, ast.Name) and n.ast.func.id == "isinstance"):  # type: ignore[union-attr]
                    ob.fail(init_, n.ast, "the yielded iterable is touched before it is handed on: a one-shot iterable (generator, map, iterator) is consumed and its state silently lost")

    # ------------------------------------------------------------------ C08.8 all yielded state flows out
    ob = an.ob("C08.8", "K5", "the collection returned by Disposables.__aenter__ is the flattening of every _initialize result (none dropped on the success path)", [f"{D}.__aenter__"])
    from ..kinds import Scenario as _ScnNE

    ne_reach = _ScnNE(ge, de, nonempty_env).reach
    rets = [n.ast for n in ge.nodes if n.kind == "return" and n.id in ne_reach]  # (with no disposables an early `return []` is the same flattening)
    if not rets:
        ob.fail(aenter, None, "__aenter__ returns nothing: state yielded by disposables is lost")
    from ..domains import comp_of

    for r in rets:
        ob.inst(aenter, r)
        v = unwrap(r.value)
        src = None
        sh = None
        inner = None
        paired_results = None
        if isinstance(v, (ast.List, ast.Tuple)) and len(v.elts) == 1 and isinstance(v.elts[0], ast.Starred):
            inner = unwrap(v.elts[0].value)
        elif isinstance(v, ast.Call) and an.callee(aenter, v) in ("builtins.list", "builtins.tuple") and len(v.args) == 1:
            inner = unwrap(v.args[0])
        if isinstance(inner, ast.Call) and an.callee(aenter, inner) == "itertools.chain.from_iterable" and len(inner.args) == 1:
            src = unwrap(inner.args[0])
            sh = comp_of(de, src)
            if sh is not None:
                names = sh.target_names()
                zsrc = as_zip(de, sh.iter)
                if len(names) == 2 and is_name(sh.elt, names[1]) and isinstance(zsrc, ast.Call) and is_name(zsrc.func, "zip") and len(zsrc.args) == 2:
                    paired_results = zsrc.args[1]  # (disposable, result) pairs: the result half is what is flattened
                elif not (len(names) == 1 and is_name(sh.elt, names[0])):
                    ob.fail(aenter, r, "per-disposable results are transformed before flattening")
        else:
            vc = comp_of(de, v)
            if vc is not None and getattr(vc, "flatten", False):
                sh = vc
                names = sh.target_names()
                if not (len(names) == 1 and is_name(sh.elt, names[0])):
                    ob.fail(aenter, r, "per-disposable results are transformed before flattening")
            else:
                ob.fail(aenter, r, "the result is not the flattening (chain.from_iterable / extend loop) of the per-disposable results")
                continue
        if sh is not None:
            if sh.filtered:
                ok, neg = is_exc_filter(sh)
                if not (ok and neg):
                    ob.fail(aenter, r, "some successfully yielded state is filtered out")
            src = paired_results if paired_results is not None else sh.iter
        # the per-disposable results may first be separated from the failures: provided = [result for ... if not isinstance(result, BaseException)]
        for _hop in range(2):
            pre = comp_of(de, src) if isinstance(unwrap(src), ast.Name) else None
            if pre is None or pre.is_dict or getattr(pre, "flatten", False):
                break
            tn_ = pre.target_names()
            it_ = as_zip(de, pre.iter)
            zipped_ = isinstance(it_, ast.Call) and is_name(it_.func, "zip") and len(it_.args) == 2 and len(tn_) == 2 and is_name(pre.elt, tn_[1])
            plain_ = len(tn_) == 1 and is_name(pre.elt, tn_[0])
            if not (zipped_ or plain_):
                break
            if pre.filtered:
                ok_, neg_ = is_exc_filter(pre)
                if not (ok_ and neg_):
                    ob.fail(aenter, r, "some successfully yielded state is filtered out")
            src = it_.args[1] if zipped_ else pre.iter
        if "call:asyncio.gather" not in de.origins(src) or (enter_g and not _flows_from(de, src, enter_g[0])):
            ob.fail(aenter, r, "the returned state does not come from the enter fan-out")


    # ------------------------------------------------------------------ C08.9 every disposable given is kept
    ob = an.ob("C08.9", "K5+K9", "every disposable given reaches the collection the fan-outs run over: Disposables.__init__ keeps its variadic parameter element for element and ctx.scope spreads the `disposables` iterable itself into Disposables(...) - no set / dict.fromkeys / sorted / filter in between (equal but distinct disposables are all entered and exited)", [f"{D}.__init__", "context.access.ctx.scope"])
    dinit = prog.fn(f"{D}.__init__")
    ddi = Deps(prog, dinit)
    va = dinit.node.args.vararg.arg if dinit.node.args.vararg else None
    stores = [n for n in dinit.own_nodes() if isinstance(n, (ast.Assign, ast.AnnAssign)) and any(dotted(t) == "self._disposables" for t in (n.targets if isinstance(n, ast.Assign) else [n.target]))]
    stores += [n for n in dinit.own_nodes() if isinstance(n, ast.Call) and dotted(n.func) == "object.__setattr__" and len(n.args) == 3 and isinstance(n.args[1], ast.Constant) and n.args[1].value == "_disposables"]
    if va is None or not stores:
        ob.missing(dinit, None, "Disposables.__init__ does not store a variadic parameter as self._disposables")
    for st in stores:
        ob.inst(dinit, st)
        v = st.args[2] if isinstance(st, ast.Call) else st.value
        if va is not None and not _same_elements(an, dinit, ddi, v, va):
            ob.fail(dinit, st, "Disposables.__init__ does not keep the disposables it was given element for element (filtered, de-duplicated, re-ordered or replaced)")
    scope_f = prog.fn("context.access.ctx.scope")
    dsc = Deps(prog, scope_f)
    dq = prog.cls(D).qualname
    # (function, its Deps, the name the iterable has there): ctx.scope itself and helpers it hands the parameter to
    sites: list[tuple[FunctionInfo, Deps, str]] = [(scope_f, dsc, "disposables")]
    for c in [c for c in scope_f.own_nodes() if isinstance(c, ast.Call)]:
        tq = an.callee(scope_f, c)
        tf = prog.functions.get(tq or "")
        if tf is None or tf is scope_f:
            continue
        pos = [a.arg for a in tf.node.args.posonlyargs + tf.node.args.args]
        for i, a in enumerate(c.args):
            if is_name(a, "disposables") and i < len(pos):
                sites.append((tf, Deps(prog, tf), pos[i]))
        for k in c.keywords:
            if k.arg and is_name(k.value, "disposables") and k.arg in tf.param_names():
                sites.append((tf, Deps(prog, tf), k.arg))
    n_ctor = 0
    for sf, sd, pname in sites:
        for c in [c for c in sf.own_nodes() if isinstance(c, ast.Call) and an.callee(sf, c) in (dq, dq + ".__init__")]:
            n_ctor += 1
            ob.inst(sf, c)
            ok = len(c.args) == 1 and not c.keywords and isinstance(c.args[0], ast.Starred) and _same_elements(an, sf, sd, c.args[0].value, pname)
            if not ok:
                ob.fail(sf, c, "ctx.scope does not hand every element of the `disposables` iterable to Disposables(...): equal / filtered-out disposables are never entered nor exited")
    if not n_ctor:
        ob.missing(scope_f, None, "ctx.scope builds no Disposables from the iterable it was given")
    from ..engine import borrow
    from . import c03

    # the state the disposables yielded is handed to the scope state as (part of) a non-empty update: C03.5 - such an update is
    # answered with a new scope state built from *all* of it (not with the old snapshot after a first look at the elements, which
    # also eats the first of them when they come as a one-shot iterable)
    borrow(an, c03.check, {"C03.5": "C08.10"})


def _same_elements(an: Analysis, fi: FunctionInfo, d: Deps, e: ast.AST | None, param: str, depth: int = 5) -> bool:
    """`e` evaluates to a sequence holding exactly the elements of parameter `param`, in order (identity, tuple/list
    copies, [*x], unfiltered identity comprehensions, match captures of it)."""
    from ..domains import comp_of

    e = unwrap(e)
    if e is None or depth < 0:
        return False
    if isinstance(e, ast.Name):
        defs = d.defs(fi, e.id) if d.owner(e.id) is fi else []
        # a match capture of the name itself (`case Disposables() as disposables`) re-binds it to the same object
        defs = [(k, v) for k, v in defs if not (k == "value" and is_name(unwrap(v), e.id))]
        if e.id == param and [k for k, _ in defs] == ["param"]:
            return True
        vals = [v for k, v in defs if k == "value"]
        if defs and len(vals) == len(defs) and all(_same_elements(an, fi, d, v, param, depth - 1) for v in vals):
            return True
        sh = comp_of(d, e)
        if sh is not None and not sh.is_dict and not sh.filtered and not getattr(sh, "flatten", False):
            names = sh.target_names()
            return len(names) == 1 and is_name(sh.elt, names[0]) and _same_elements(an, fi, d, sh.iter, param, depth - 1)
        return False
    if isinstance(e, (ast.List, ast.Tuple)) and len(e.elts) == 1 and isinstance(e.elts[0], ast.Starred):
        return _same_elements(an, fi, d, e.elts[0].value, param, depth - 1)
    if isinstance(e, ast.Call) and an.callee(fi, e) in ("builtins.tuple", "builtins.list", "builtins.iter") and len(e.args) == 1 and not e.keywords:
        return _same_elements(an, fi, d, e.args[0], param, depth - 1)
    if isinstance(e, (ast.ListComp, ast.GeneratorExp)):
        sh = CompShape(e)
        names = sh.target_names() if sh.ok else []
        return sh.ok and not sh.filtered and len(names) == 1 and is_name(sh.elt, names[0]) and _same_elements(an, fi, d, sh.iter, param, depth - 1)
    return False


def as_zip(d: Deps, e: ast.AST | None, depth: int = 4) -> ast.AST | None:
    """`e` seen through single-definition locals and list(...) / tuple(...) copies: the zip(...) call it stands for
    (`entered = list(zip(self._disposables, await gather(...)))` iterated later), else the unwrapped expression."""
    e = unwrap(e)
    cur = e
    for _ in range(depth):
        if isinstance(cur, ast.Name):
            sv = d.single_value(cur.id)
            if sv is None:
                break
            cur = unwrap(sv)
        elif isinstance(cur, ast.Call) and isinstance(cur.func, ast.Name) and cur.func.id in ("list", "tuple") and len(cur.args) == 1 and not cur.keywords:
            cur = unwrap(cur.args[0])
        else:
            break
    if isinstance(cur, ast.Call) and is_name(cur.func, "zip"):
        return cur
    return e


def _is_entered_subset(an: Analysis, fi: FunctionInfo, d: Deps, sh: CompShape, depth: int = 3) -> bool:
    """The fan-out `sh` runs over exactly the disposables whose enter result is not an exception."""
    from ..domains import comp_of

    ok_filter, neg = is_exc_filter(sh)
    it = unwrap(sh.iter)

    def zipped(e: ast.AST | None) -> bool:
        e = as_zip(d, e)
        return isinstance(e, ast.Call) and is_name(e.func, "zip") and len(e.args) == 2 and dotted(e.args[0]) == "self._disposables" and "call:asyncio.gather" in d.origins(e.args[1])

    if zipped(it) and ok_filter and neg:
        names = sh.target_names()
        return len(names) == 2
    # for index, disposable in enumerate(self._disposables) if not isinstance(results[index], BaseException)
    it_e = unwrap(it)
    names_e = sh.target_names()
    if isinstance(it_e, ast.Call) and is_name(it_e.func, "enumerate") and len(it_e.args) == 1 and dotted(it_e.args[0]) == "self._disposables" and len(names_e) == 2 and sh.filtered:
        ifs_ = getattr(sh, "_ifs", [])
        if len(ifs_) == 1:
            t_ = ifs_[0]
            neg_ = False
            while isinstance(t_, ast.UnaryOp) and isinstance(t_.op, ast.Not):
                neg_ = not neg_
                t_ = t_.operand
            a0_ = t_.args[0] if isinstance(t_, ast.Call) and is_name(t_.func, "isinstance") and len(t_.args) == 2 else None
            if neg_ and isinstance(a0_, ast.Subscript) and is_name(a0_.slice, names_e[0]) and "call:asyncio.gather" in d.origins(a0_.value) and (dotted(t_.args[1]) or "").endswith("BaseException"):
                return True
    if depth > 0 and not sh.filtered:
        inner = comp_of(d, it)
        if inner is not None and not inner.is_dict:
            names = inner.target_names()
            if len(names) == 2 and is_name(inner.elt, names[0]):
                return _is_entered_subset(an, fi, d, inner, depth - 1)
    return False


def _is_entered_value(d: Deps, name: ast.Name, entered: ast.AST) -> bool:
    """Is the local `name` bound to the value of the awaited disposable.__aenter__() (match capture / assignment)?"""
    owner = d.owner(name.id)
    if owner is None:
        return False
    for kind, node in d.defs(owner, name.id):
        if kind == "value" and unwrap(node) is entered:
            return True
    return False


def _flows_from(d: Deps, e: ast.AST, call: ast.Call) -> bool:
    e = unwrap(e)
    if isinstance(e, ast.Await):
        e = unwrap(e.value)
    if e is call:
        return True
    if isinstance(e, ast.Name):
        sv = d.single_value(e.id)
        return sv is not None and _flows_from(d, sv, call)
    return False


def _error_collections(an: Analysis, fi: FunctionInfo, d: Deps, gather: ast.Call | None) -> list[str]:
    """Names of locals holding the BaseException results of a gather: a comprehension
    `[x for x in results if isinstance(x, BaseException)]` or the equivalent accumulation loop."""
    from ..domains import comp_of

    names = []
    seen = set()
    cands: list[ast.Name] = []
    for n in fi.own_nodes():
        if isinstance(n, (ast.Assign, ast.AnnAssign)) and n.value is not None:
            t0 = n.targets[0] if isinstance(n, ast.Assign) else n.target
            if isinstance(t0, ast.Name):
                cands.append(t0)
        elif isinstance(n, ast.NamedExpr):
            cands.append(n.target)
        elif isinstance(n, ast.Match) and isinstance(unwrap(n.subject), (ast.ListComp, ast.GeneratorExp)):
            # `match [<errors>]: ... case exceptions:` - whole-subject captures name the collection
            for case in n.cases:
                if isinstance(case.pattern, ast.MatchAs) and case.pattern.pattern is None and case.pattern.name:
                    cands.append(ast.Name(id=case.pattern.name, ctx=ast.Load()))
    for t in cands:
        if True:
            if t.id in seen:
                continue
            sh = comp_of(d, ast.Name(id=t.id, ctx=ast.Load()))
            if sh is None or sh.is_dict or getattr(sh, "flatten", False):
                continue
            ok, neg = is_exc_filter(sh)
            tn = sh.target_names()
            it_ = as_zip(d, sh.iter)
            plain = len(tn) == 1 and is_name(sh.elt, tn[0]) and "call:asyncio.gather" in d.origins(sh.iter)
            # the same over zip(self._disposables, results): the element is the *result* of the pair
            zipped_ = isinstance(it_, ast.Call) and is_name(it_.func, "zip") and len(it_.args) == 2 and len(tn) == 2 and is_name(sh.elt, tn[1]) and "call:asyncio.gather" in d.origins(it_.args[1])
            if ok and not neg and (plain or zipped_):
                names.append(t.id)
                seen.add(t.id)
    return names


_SOME_DISPOSABLES = (object(),)


def nonempty_env(e: ast.AST):
    """Situation "at least one disposable was given" (with none, enter and exit have nothing to do and may leave early)."""
    if dotted(e) == "self._disposables":
        return _SOME_DISPOSABLES
    return NOVALUE


def _len_env(d: Deps, names: list[str], n: int):
    def env(e: ast.AST):
        if dotted(e) == "self._disposables":
            return _SOME_DISPOSABLES
        if isinstance(e, (ast.ListComp, ast.GeneratorExp)):
            # the collection of failures written in place (`match [exc for exc in results if isinstance(exc, BaseException)]:`)
            sh_ = CompShape(e)
            if sh_.ok and not sh_.is_dict and not sh_.flatten:
                ok_, neg_ = is_exc_filter(sh_)
                if ok_ and not neg_ and "call:asyncio.gather" in d.origins(sh_.iter):
                    return [0] * n
        if isinstance(e, ast.Name) and e.id in names:
            return [0] * n
        if isinstance(e, ast.Call) and is_name(e.func, "len") and len(e.args) == 1 and isinstance(e.args[0], ast.Name) and e.args[0].id in names:
            return n
        return NOVALUE

    return with_locals(d, env)


def _index_out_of_range(nodes, names: list[str], k: int):
    """Subscripts `<errors>[i]` with constant i >= k among the AST nodes (IndexError in the scenario of k errors)."""
    for n in nodes:
        for x in ast.walk(n):
            if isinstance(x, ast.Subscript) and isinstance(x.value, ast.Name) and x.value.id in names and isinstance(x.slice, ast.Constant) and isinstance(x.slice.value, int) and x.slice.value >= k:
                return x
    return None


def _collected_errors_surface(an: Analysis, ob, fi: FunctionInfo, g: CFG, d: Deps, gather: ast.Call | None) -> None:
    errs = _error_collections(an, fi, d, gather)
    if not errs:
        # maybe filtered by Exception only
        ob.fail(fi, None, "results of the exit gather are not collected as `[x for x in results if isinstance(x, BaseException)]`: cleanup errors (incl. BaseException) can vanish")
        return
    raises = [n for n in g.nodes if n.kind == "raise"]
    for n in raises:
        ob.inst(fi, n.ast)
    for k in (1, 2):
        sc = scenario(g, _len_env(d, errs, k))
        w = g.search([g.entry], lambda n: n.kind == "exit-return", skip_edge=sc)
        if w is not None:
            ob.fail(fi, w[-2].ast if len(w) > 1 and w[-2].ast is not None else None, f"with {k} failing cleanup(s) Disposables.__aexit__ returns normally: the error vanishes", CFG.show_path(w))
        reach = g.reachable([g.entry], skip_edge=sc)
        for r in [r for r in raises if r.id in reach]:
            bad = _index_out_of_range([r.ast], errs, k)
            if bad is not None:
                ob.fail(fi, r.ast, f"with {k} failing cleanup(s) `{stmt_text(bad)}` is out of range: the caller gets an IndexError instead of the cleanup error")
            direct = any(nm in {x.id for x in ast.walk(r.ast) if isinstance(x, ast.Name)} for nm in errs)
            via = "call:asyncio.gather" in d.of(r.ast.exc)  # type: ignore[union-attr]
            if not (direct or via):
                ob.fail(fi, r.ast, "what is raised does not carry the collected cleanup errors")
    sc = scenario(g, _len_env(d, errs, 0))
    w = g.search([g.entry], lambda n: n in raises, skip_edge=sc)
    if w is not None:
        ob.fail(fi, w[-1].ast, "an error is raised although no cleanup failed", CFG.show_path(w))
