"""C01 - scope state lookup follows lexical nesting (innermost supplier wins)."""

from __future__ import annotations

import ast

from .. import AnalysisError
from ..astutil import Deps, is_name, unwrap
from ..cfg import CFG, Node
from ..domains import CompShape, merge_order
from ..engine import Analysis
from ..kinds import module_sentinel, NOVALUE, both, call_nodes, calls_to, classify_handler, forwards_varargs, normal_only, q, scenario
from ..loader import FunctionInfo, dotted, parent, stmt_text
from . import c02

ASSUMPTIONS = [
    "dict display/comprehension: a later key replaces an earlier equal key; iteration order is insertion order",
    "ContextVar.get() returns the value installed by the innermost enclosing set (C02 gives the pairing)",
    "ordering between directly supplied state and disposables' state for the same type is not specified by the property",
]

SS = "context.state.ScopeState"
SC = "context.state.StateContext"
WRITE_METHODS = {"update", "setdefault", "pop", "popitem", "clear", "__setitem__", "__delitem__", "__ior__"}


def scope_state_writes(an: Analysis, cls_q: str = SS, attr: str = "_state"):
    """Every in-place write to <ScopeState>._state in the package: (function, node, what)."""
    prog = an.prog
    ssq = prog.cls(cls_q).qualname
    out = []

    def is_target(fi: FunctionInfo, e: ast.AST) -> bool:
        if isinstance(e, ast.Attribute) and e.attr == attr:
            t = prog.expr_type(fi, e.value)
            return t is not None and t.name == ssq
        return False

    for fi in prog.scan_functions():
        for n in fi.own_nodes():
            if isinstance(n, (ast.Assign, ast.AugAssign, ast.AnnAssign, ast.Delete)):
                tg = n.targets if isinstance(n, (ast.Assign, ast.Delete)) else [n.target]
                for t in tg:
                    for sub in ast.walk(t):
                        if isinstance(sub, ast.Subscript) and is_target(fi, sub.value) and isinstance(sub.ctx, (ast.Store, ast.Del)):
                            out.append((fi, n, "item store/delete"))
                    if is_target(fi, t):
                        if isinstance(n, ast.AugAssign):
                            out.append((fi, n, "augmented assignment"))
                        elif not (fi.name == "__init__" and fi.cls is not None and fi.cls.qualname == ssq):
                            out.append((fi, n, "rebinding"))
            elif isinstance(n, ast.Call) and isinstance(n.func, ast.Attribute) and n.func.attr in WRITE_METHODS and is_target(fi, n.func.value):
                out.append((fi, n, f".{n.func.attr}()"))
            elif isinstance(n, ast.Call) and an.callee(fi, n) in ("builtins.setattr", "builtins.delattr") and n.args:
                t = prog.expr_type(fi, n.args[0])
                if t is not None and t.name == ssq:
                    out.append((fi, n, "setattr"))
    return out


def check(an: Analysis) -> None:
    prog = an.prog
    ssq = prog.cls(SS).qualname
    scq = prog.cls(SC).qualname
    init = prog.fn(f"{SS}.__init__")
    state = prog.fn(f"{SS}.state")
    upd = prog.fn(f"{SS}.updated")

    # ------------------------------------------------------------------ C01.1 merge order
    ob = an.ob("C01.1", "K7", "ScopeState.updated hands the constructor [parent values..., new state...] (later wins); the constructor keys a dict by type(element) in iteration order", [f"{SS}.updated", f"{SS}.__init__"])
    du = Deps(prog, upd)
    up_param = upd.param_names()[1]
    ctor_calls = [c for c in upd.own_nodes() if isinstance(c, ast.Call) and an.callee(upd, c) == ssq]
    if not ctor_calls:
        ob.fail(upd, None, "updated never builds a new ScopeState")
    for c in ctor_calls:
        ob.inst(upd, c)
        arg = c.args[0] if c.args else next((k.value for k in c.keywords if k.arg == "state"), None)
        order = merge_order(du, arg) if arg is not None else None
        if order is None:
            raise AnalysisError(f"C01.1: unrecognised merge expression `{stmt_text(arg)}` in ScopeState.updated")
        want = ["attr:self._state", f"param:{up_param}"]
        if order != want:
            ob.fail(upd, c, f"merge order is {order}, required {want}: an enclosing scope's value would shadow (or drop) the newly supplied one")
    di = Deps(prog, init)
    in_param = init.param_names()[1]
    vals = prog.cls(SS).attr_val.get("_state", [])
    if len(vals) != 1:
        raise AnalysisError(f"C01.1: expected exactly one assignment to ScopeState._state in __init__, found {len(vals)}")
    v = unwrap(vals[0])
    if isinstance(v, ast.Call) and an.callee(init, v) == "builtins.dict" and len(v.args) == 1:
        v = v.args[0]
    from ..domains import comp_of

    shape = comp_of(di, v) or CompShape(v)
    ob.inst(init, vals[0])
    if not shape.ok:
        raise AnalysisError(f"C01.1: unrecognised constructor mapping `{stmt_text(vals[0])}`")
    names = shape.target_names()
    key, val = (shape.key, shape.value) if shape.is_dict else ((shape.elt.elts[0], shape.elt.elts[1]) if isinstance(shape.elt, ast.Tuple) and len(shape.elt.elts) == 2 else (None, None))
    if shape.filtered:
        ob.fail(init, vals[0], "the constructor drops some of the supplied state (filter in the comprehension)")
    if not (len(names) == 1 and is_name(shape.iter, in_param)):
        ob.fail(init, vals[0], f"the constructor does not iterate the supplied `{in_param}` once, in order")
    elif not (is_name(val, names[0]) and _is_type_of(key, names[0])):
        ob.fail(init, vals[0], "the constructor does not store each element under its own exact type (type(element))")

    # ------------------------------------------------------------------ C01.2 lookup ladder
    g = an.cfg(state)
    ds = Deps(prog, state)
    p_type, p_default = state.param_names()[1], state.param_names()[2]
    ob = an.ob("C01.2", "K2", "ScopeState.state ladder: stored instance iff the exact type is present; else the explicit default; else state() - evaluated under the three scenarios", [f"{SS}.state"])

    def is_state_map(e: ast.AST) -> bool:
        return dotted(e) == "self._state"

    def env(present: bool, has_default: bool):
        def f(e: ast.AST):
            if isinstance(e, ast.Compare) and len(e.ops) == 1 and isinstance(e.ops[0], (ast.In, ast.NotIn)) and is_state_map(e.comparators[0]):
                return present if isinstance(e.ops[0], ast.In) else (not present)
            if isinstance(e, ast.Call) and isinstance(e.func, ast.Attribute) and e.func.attr == "get" and is_state_map(e.func.value):
                if present:
                    return _OBJ_FALSY if present == "falsy" else _OBJ
                if len(e.args) < 2:
                    return None
                dflt = unwrap(e.args[1])
                return dflt.value if isinstance(dflt, ast.Constant) else f(dflt)
            if is_name(e, p_default):
                return _OBJ if has_default else None
            if isinstance(e, ast.Name) and ds.single_value(e.id) is not None:
                sv = unwrap(ds.single_value(e.id))
                if isinstance(sv, ast.Call) and isinstance(sv.func, ast.Attribute) and sv.func.attr == "get" and is_state_map(sv.func.value):
                    return f(sv)
            return module_sentinel(state.module, e)

        return f

    def stored_lookup(e: ast.AST | None) -> bool:
        e = unwrap(e)
        if isinstance(e, ast.Subscript) and is_state_map(e.value) and is_name(e.slice, p_type):
            return True
        if isinstance(e, ast.Name):
            sv = ds.single_value(e.id)
            return sv is not None and stored_lookup(sv)
        if isinstance(e, ast.Call) and isinstance(e.func, ast.Attribute) and e.func.attr == "get" and is_state_map(e.func.value) and e.args and is_name(e.args[0], p_type):
            return True
        return False

    ctor_nodes = [n for n in g.nodes if n.kind == "call" and is_name(n.ast.func, p_type)]  # type: ignore[union-attr]
    rets = [n for n in g.nodes if n.kind == "return"]
    for label, (present, has_default) in {"present": (True, False), "present+default": (True, True), "present, an instance whose truth value is False": ("falsy", False), "absent+default": (False, True), "absent": (False, False)}.items():
        sc0 = scenario(g, env(present, has_default))

        def sc(a, b, lab, sc0=sc0, present=present):
            # `self._state[<type>]` inside a try that anticipates KeyError: raises iff the type is absent
            if a.kind == "subscript" and is_state_map(a.ast.value):  # type: ignore[union-attr]
                return (lab == "exc") if present else (lab != "exc")
            return sc0(a, b, lab)

        reach = g.reachable([g.entry], skip_edge=sc)
        live = [r for r in rets if r.id in reach]
        ob.inst(state, None, f"scenario {label}: {len(live)} reachable return(s)")
        if present:
            if not live:
                ob.fail(state, None, "no return when the requested type is present")
            for r in live:
                if not stored_lookup(r.ast.value):  # type: ignore[union-attr]
                    ob.fail(state, r.ast, "with the exact type present the lookup does not return the stored instance (innermost supplier must win over default)")
            w = g.search([g.entry], lambda n: n in ctor_nodes, skip_edge=sc)
            if w is not None:
                ob.fail(state, ctor_nodes[0].ast, "a stored instance is ignored in favour of default construction", CFG.show_path(w))
        elif has_default:
            for r in live:
                if not is_name(unwrap(r.ast.value), p_default):  # type: ignore[union-attr]
                    ob.fail(state, r.ast, "with the type absent and an explicit default given, something else than the default is returned")
            if not live:
                ob.fail(state, None, "no return for an absent type with explicit default")
            w = g.search([g.entry], lambda n: n in ctor_nodes, skip_edge=sc)
            if w is not None:
                ob.fail(state, ctor_nodes[0].ast, "the explicit default is bypassed by default construction", CFG.show_path(w))
        else:
            if not ctor_nodes:
                ob.fail(state, None, "an absent type is never default-constructed")
            else:
                w = g.must_pass(lambda n: n in ctor_nodes, skip_edge=both(sc, normal_only))
                if w is not None:
                    ob.fail(state, ctor_nodes[0].ast, "with the type absent and no default a path returns without constructing the state", CFG.show_path(w))
                for r in live:
                    oo = ds.origins(r.ast.value)  # type: ignore[union-attr]
                    if not any(o.startswith("call:") and "state" in o or o == f"call:?{p_type}" for o in oo) and f"call:?{p_type}" not in oo:
                        ob.fail(state, r.ast, "the default-constructed instance is not what is returned")

    # ------------------------------------------------------------------ C01.3 failure of default construction -> MissingState
    ob = an.ob("C01.3", "K4/K8", "the try around state() has an Exception handler whose every path raises MissingState", [f"{SS}.state"])
    for cn in ctor_nodes:
        ob.inst(state, cn.ast)
        hs = [t for t, lab in cn.succ if lab == "exc" and t.kind == "handler"]
        if not any("Exception" in g.handler_classes(h.ast) or "BaseException" in g.handler_classes(h.ast) for h in hs):  # type: ignore[arg-type]
            ob.fail(state, cn.ast, "a failing default construction is not converted to MissingState (no Exception handler around it)")
        for h in hs:
            for kind, node, path in classify_handler(g, h.ast):  # type: ignore[arg-type]
                if kind == "raise-other":
                    e = node.ast.exc  # type: ignore[union-attr]
                    name = (dotted(e.func if isinstance(e, ast.Call) else e) or "").rsplit(".", 1)[-1]
                    if name != "MissingState":
                        ob.fail(state, h.ast, f"handler raises {name} instead of MissingState")
                elif kind in ("swallow", "return", "continue", "break"):
                    ob.fail(state, h.ast, "a failing default construction yields a value / is swallowed instead of raising MissingState", CFG.show_path(path))

    # ------------------------------------------------------------------ C01.4 exact type key
    ob = an.ob("C01.4", "K5", "every access to the state mapping in ScopeState.state uses the requested type itself as key; no isinstance/issubclass/MRO matching", [f"{SS}.state"])
    n_access = 0
    for n in state.own_nodes():
        if isinstance(n, ast.Subscript) and is_state_map(n.value):
            n_access += 1
            ob.inst(state, n)
            if not is_name(n.slice, p_type):
                ob.fail(state, n, f"mapping is indexed by `{stmt_text(n.slice)}` instead of the requested type")
        elif isinstance(n, ast.Compare) and any(is_state_map(c) for c in n.comparators):
            n_access += 1
            ob.inst(state, n)
            if not is_name(n.left, p_type):
                ob.fail(state, n, "membership test does not use the requested type itself")
        elif isinstance(n, ast.Call) and isinstance(n.func, ast.Attribute) and is_state_map(n.func.value):
            n_access += 1
            ob.inst(state, n)
            if n.func.attr in ("get",) and not (n.args and is_name(n.args[0], p_type)):
                ob.fail(state, n, "lookup does not use the requested type itself as key")
            elif n.func.attr in ("values", "items", "keys"):
                ob.fail(state, n, "lookup scans the stored states instead of an exact-type key lookup (subclass / look-alike could match)")
        elif isinstance(n, (ast.For, ast.comprehension)) and any(is_state_map(x) for x in ast.walk(n.iter)):
            ob.fail(state, n.iter, "lookup scans the stored states instead of an exact-type key lookup")
        elif isinstance(n, ast.Call) and an.callee(state, n) in ("builtins.isinstance", "builtins.issubclass"):
            ob.fail(state, n, "lookup matches by isinstance/issubclass instead of the exact type")
    if n_access == 0:
        ob.fail(state, None, "ScopeState.state never consults the state mapping")

    # ------------------------------------------------------------------ C01.5 ScopeState never written after construction
    ob = an.ob("C01.5", "K3", "no write to ScopeState._state outside ScopeState.__init__ (item store/delete, update, setdefault, pop, clear, |=, rebinding) anywhere in the package")
    ws = scope_state_writes(an)
    ob.inst(init, vals[0], "the only allowed store")
    for fi, n, what in ws:
        ob.inst(fi, n, what)
        ob.fail(fi, n, f"shared ScopeState is mutated in place ({what}): the change is visible to every task and scope sharing it, and shadows later explicit defaults")

    # ------------------------------------------------------------------ C01.6 MissingContext
    cur = prog.fn(f"{SC}.current")
    gc = an.cfg(cur)
    ob = an.ob("C01.6", "K4", "StateContext.current: _context.get() (no default) sits in a try whose LookupError handler raises MissingContext on all paths; the result of <current>.state(state, default=default) is returned", [f"{SC}.current"])
    gets = [n for n in call_nodes(an, gc, "contextvars.ContextVar.get")]
    if not gets:
        ob.fail(cur, None, "StateContext.current does not read the context variable")
    for gn in gets:
        ob.inst(cur, gn.ast)
        if gn.ast.args or gn.ast.keywords:  # type: ignore[union-attr]
            ob.fail(cur, gn.ast, "ContextVar.get has a default: outside every scope the request no longer fails with MissingContext")
        if c02.contextvar_owner(an, cur, gn.ast.func.value) != scq:  # type: ignore[union-attr]
            ob.fail(cur, gn.ast, "reads a different context variable")
        hs = [t for t, lab in gn.succ if lab == "exc" and t.kind == "handler"]
        if not hs:
            ob.fail(cur, gn.ast, "LookupError of the context variable is not converted to MissingContext")
        for h in hs:
            if not set(gc.handler_classes(h.ast)) <= {"LookupError"}:  # type: ignore[arg-type]
                ob.fail(cur, h.ast, f"the MissingContext handler catches {gc.handler_classes(h.ast)}: a MissingState raised by the lookup itself (which runs inside the same try) would be reported as MissingContext")  # type: ignore[arg-type]
            for kind, node, path in classify_handler(gc, h.ast):  # type: ignore[arg-type]
                ok = False
                if kind == "raise-other":
                    e = node.ast.exc  # type: ignore[union-attr]
                    ok = (dotted(e.func if isinstance(e, ast.Call) else e) or "").rsplit(".", 1)[-1] == "MissingContext"
                if not ok:
                    ob.fail(cur, h.ast, f"LookupError handler {kind}s instead of raising MissingContext", CFG.show_path(path))
    cp = cur.param_names()
    sc_calls = calls_to(an, cur, state.qualname)
    if not sc_calls:
        ob.fail(cur, None, "current does not delegate to ScopeState.state")
    for c in sc_calls:
        ob.inst(cur, c)
        a0 = c.args[0] if c.args else None
        dflt = c.args[1] if len(c.args) > 1 else next((k.value for k in c.keywords if k.arg == "default"), None)
        if not (is_name(a0, cp[1]) and is_name(dflt, cp[2]) and isinstance(parent(c), ast.Return)):
            ob.fail(cur, c, "type / default are not forwarded unchanged to ScopeState.state (or its result is not returned)")
        if "call:contextvars.ContextVar.get" not in Deps(prog, cur).origins(c.func.value):  # type: ignore[union-attr]
            ob.fail(cur, c, "the lookup is not made on the current ScopeState")
        # what the lookup raises (MissingState, as C01.3 establishes) must pass the handlers around it untouched
        from ..cfg import exc_is_sub

        cn = next((n for n in gc.nodes if n.kind == "call" and n.ast is c), None)
        for h in [t for t, lab in (cn.succ if cn is not None else []) if lab == "exc" and t.kind == "handler"]:
            caught = [hc for hc in gc.handler_classes(h.ast) if exc_is_sub("MissingState", hc)]  # type: ignore[arg-type]
            raised_ok = all(kind in ("reraise", "reraise-same") for kind, _n, _p in classify_handler(gc, h.ast))  # type: ignore[arg-type]
            if caught and not raised_ok:
                ob.fail(cur, h.ast, f"the handler around the lookup catches {caught}, which MissingState is a subclass of in this tree: a missing-state error inside a scope is reported as something else (MissingContext)")

    # ------------------------------------------------------------------ C01.7 disposables' state merged; built context is the one entered
    ob = an.ob("C01.7", "K5", "ScopeContext.__aenter__/__enter__ build the state context from self._state (+ the awaited Disposables.__aenter__() result) via StateContext.updated and enter that very context; StateContext.updated derives from the current ScopeState (fresh one only on LookupError)", ["context.access.ScopeContext.__aenter__", "context.access.ScopeContext.__enter__", f"{SC}.updated"])
    SUPD = q(f"{SC}.updated")
    for name, needs_disp in (("context.access.ScopeContext.__aenter__", True), ("context.access.ScopeContext.__enter__", False)):
        f = prog.fn(name)
        gf = an.cfg(f)
        d = Deps(prog, f)
        ups = calls_to(an, f, SUPD)
        if not ups:
            ob.fail(f, None, "the scope never derives its state context through StateContext.updated")
            continue
        saw_disp = False
        disp_defs: list[ast.AST] = []
        holders: set[str] = set()
        conditional_disp: dict[int, ast.AST] = {}
        for c in ups:
            ob.inst(f, c)
            arg = c.args[0] if c.args else None
            alts = [arg]
            if isinstance(arg, ast.Name) and d.owner(arg.id) is not None and d.single_value(arg.id) is None:
                alts = [n for k, n in d.defs(d.owner(arg.id), arg.id) if k == "value" and not getattr(parent(n), "_inline_init", False)] or [arg]
            if isinstance(unwrap(arg), ast.IfExp):
                # StateContext.updated(<plain state> if self._disposables is None else <state + disposables' state>)
                ife = unwrap(arg)
                edge_none = c02.none_edge(ife.test, "_disposables")  # "T": the test is true when there are no disposables
                if edge_none in ("T", "F"):
                    alts = [ife.body, ife.orelse]
                    conditional_disp[id(c)] = ife.orelse if edge_none == "T" else ife.body
            for alt in alts:
                order = merge_order(d, alt, _stack=frozenset({id(alt)})) if alt is not None else None
                if order is None:
                    raise AnalysisError(f"C01.7: unrecognised state expression `{stmt_text(alt) if alt is not None else ''}` in {f.short}")
                if "attr:self._state" not in order:
                    ob.fail(f, c, "the state given to the scope is not part of its state context")
                disp = [t for t in order if c02.D_ENTER in t]
                if disp:
                    saw_disp = True
                    disp_defs.append(alt)
                if set(order) - {"attr:self._state"} - set(disp):
                    ob.fail(f, c, f"unexpected state source {order}")
            p = parent(c)
            tgt_ = (p.targets[0] if isinstance(p, ast.Assign) else p.target) if isinstance(p, (ast.Assign, ast.AnnAssign)) else None
            if isinstance(tgt_, ast.Name):
                # held in a local first: that local (every definition of which is such a derived context) is what gets stored
                holders.add(tgt_.id)
                stored_from_local = any(isinstance(x, (ast.Assign, ast.AnnAssign)) and dotted(x.targets[0] if isinstance(x, ast.Assign) else x.target) == "self._state_context" and is_name(unwrap(x.value), tgt_.id) for x in f.own_nodes())
                pure_holder = all(k == "value" and isinstance(unwrap(v), ast.Call) and unwrap(v) in ups for k, v in d.defs(f, tgt_.id))
                if not (stored_from_local and pure_holder):
                    ob.fail(f, c, "the derived state context is not stored as self._state_context")
            elif not (tgt_ is not None and dotted(tgt_) == "self._state_context"):
                ob.fail(f, c, "the derived state context is not stored as self._state_context")
        if needs_disp and not saw_disp:
            ob.fail(f, ups[0], "state yielded by the disposables is not merged into the scope state")
        if needs_disp:
            # on the disposables-present paths the merged variant must be the one built
            dn = [n for n in gf.nodes if (n.kind == "call" and n.ast in ups and n.ast.args and (n.ast.args[0] in disp_defs or conditional_disp.get(id(n.ast)) in disp_defs)) or (n.kind == "stmt" and getattr(n.ast, "value", None) is not None and any(n.ast.value is x for x in disp_defs))]  # type: ignore[union-attr]

            def skipnone(a, b, lab):
                return a.kind == "test" and c02.none_edge(a.ast, "_disposables") == lab

            w = gf.must_pass(lambda n: n in dn, exits=("exit-return",), skip_edge=both(normal_only, skipnone))
            if w is not None:
                ob.fail(f, ups[0], "with disposables present a path enters the scope without their state", CFG.show_path(w))
        enters = [n for n in gf.nodes if n.kind == "call" and an.callee(f, n.ast) == q(f"{SC}.__enter__") and (dotted(n.ast.func.value) == "self._state_context" or (isinstance(n.ast.func.value, ast.Name) and n.ast.func.value.id in holders))]  # type: ignore[union-attr]
        if not enters:
            ob.fail(f, None, "the derived state context is never entered")
        else:
            ob.inst(f, enters[0].ast)
            w = gf.must_pass(lambda n: n in enters, exits=("exit-return",), skip_edge=normal_only)
            if w is not None:
                ob.fail(f, enters[0].ast, "a normal path through the scope enter does not enter the state context", CFG.show_path(w))
            stores = [n for n in gf.nodes if n.kind == "stmt" and isinstance(n.ast, (ast.Assign, ast.AnnAssign)) and dotted(n.ast.targets[0] if isinstance(n.ast, ast.Assign) else n.ast.target) == "self._state_context"]
            w = gf.ordered(lambda n: n in stores, lambda n: n in enters)
            if w is not None:
                ob.fail(f, enters[0].ast, "the state context is entered before it was built", CFG.show_path(w))
    supd = prog.fn(f"{SC}.updated")
    gsu = an.cfg(supd)
    dsu = Deps(prog, supd)
    su_param = supd.param_names()[1]
    derive = calls_to(an, supd, upd.qualname)
    fresh = calls_to(an, supd, ssq)
    if not derive:
        ob.fail(supd, None, "StateContext.updated never derives from the current scope state (enclosing state would be lost)")
    for c in derive:
        ob.inst(supd, c)
        a = c.args[0] if c.args else next((k.value for k in c.keywords if k.arg == "state"), None)
        if not is_name(a, su_param):
            ob.fail(supd, c, "the new state is not what is merged into the current scope state")
        if "call:contextvars.ContextVar.get" not in dsu.origins(c.func.value):  # type: ignore[union-attr]
            ob.fail(supd, c, "derives from something else than the current scope state")
    lookup_handlers = [n for n in gsu.nodes if n.kind == "handler" and set(gsu.handler_classes(n.ast)) <= {"LookupError"}]  # type: ignore[arg-type]
    for c in fresh:
        ob.inst(supd, c, "fallback")
        nodes = [n for n in gsu.nodes if n.kind == "call" and n.ast is c]
        for n in nodes:
            w = gsu.ordered(lambda x: x in lookup_handlers, lambda x, n=n: x is n)
            if w is not None:
                ob.fail(supd, c, "a fresh (parent-less) scope state is used although a current one may exist", CFG.show_path(w))
        a = c.args[0] if c.args else next((k.value for k in c.keywords if k.arg == "state"), None)
        if not is_name(a, su_param):
            ob.fail(supd, c, "fallback scope state is not built from the supplied state")
    for r in [n for n in supd.own_nodes() if isinstance(n, ast.Return)]:
        v = r.value
        ok = isinstance(v, ast.Call) and an.callee(supd, v) == scq
        if ok:
            a = v.args[0] if v.args else next((k.value for k in v.keywords if k.arg == "state"), None)
            ok = a is not None and (a in derive or a in fresh or (isinstance(a, ast.Name) and dsu.origins(a) & {f"call:{upd.qualname}", f"call:{ssq}"}))
        if not ok:
            ob.fail(supd, r, "StateContext.updated does not return a context over the derived scope state")
    senter = prog.fn(f"{SC}.__enter__")
    sets = calls_to(an, senter, "contextvars.ContextVar.set")
    for c in sets:
        ob.inst(senter, c)
        if not (len(c.args) == 1 and dotted(c.args[0]) == "self._state"):
            ob.fail(senter, c, "the context variable is not bound to this context's own scope state")
    sinit = prog.fn(f"{SC}.__init__")
    sv = prog.cls(SC).attr_val.get("_state", [])
    if not (len(sv) == 1 and is_name(sv[0], sinit.param_names()[1])):
        ob.fail(sinit, None, "StateContext does not keep the scope state it was given")

    # ------------------------------------------------------------------ C01.9-11 the state variable is restored on every exit path
    _borrowed(an)

    # ------------------------------------------------------------------ C01.8 public plumbing
    ob = an.ob("C01.8", "K5", "ctx.state / ctx.updated / ctx.scope forward state, default, *state and disposables to the parameters of the same meaning", ["context.access.ctx.state", "context.access.ctx.updated", "context.access.ctx.scope"])
    f = prog.fn("context.access.ctx.state")
    pp = f.param_names()
    cs = calls_to(an, f, cur.qualname)
    if not cs:
        ob.fail(f, None, "ctx.state does not use StateContext.current")
    for c in cs:
        ob.inst(f, c)
        dflt = c.args[1] if len(c.args) > 1 else next((k.value for k in c.keywords if k.arg == "default"), None)
        if not (c.args and is_name(c.args[0], pp[0]) and is_name(dflt, pp[1]) and isinstance(parent(c), ast.Return)):
            ob.fail(f, c, "ctx.state does not forward (state, default) / return the result")
    f = prog.fn("context.access.ctx.updated")
    va = f.node.args.vararg.arg if f.node.args.vararg else None
    cs = calls_to(an, f, SUPD)
    if not cs:
        ob.fail(f, None, "ctx.updated does not use StateContext.updated")
    for c in cs:
        ob.inst(f, c)
        if not (len(c.args) == 1 and is_name(c.args[0], va) and isinstance(parent(c), ast.Return)):
            ob.fail(f, c, "ctx.updated does not forward its state / return the context")
    f = prog.fn("context.access.ctx.scope")
    dsc = Deps(prog, f)
    sctx = prog.cls("context.access.ScopeContext").qualname
    cs = calls_to(an, f, sctx)
    va = f.node.args.vararg.arg if f.node.args.vararg else None
    if not cs:
        ob.fail(f, None, "ctx.scope does not build a ScopeContext")
    for c in cs:
        ob.inst(f, c)
        kws = {k.arg: k.value for k in c.keywords}
        if not is_name(kws.get("state"), va):
            ob.fail(f, c, "the scope's state is not the *state given to ctx.scope")
        dv = kws.get("disposables")
        if dv is None or "param:disposables" not in dsc.of(dv):
            ob.fail(f, c, "the disposables given to ctx.scope do not reach the ScopeContext")
        if not isinstance(parent(c), ast.Return):
            ob.fail(f, c, "ctx.scope does not return the ScopeContext")
    # iterable of disposables -> Disposables(*iterable)
    dq = prog.cls("context.disposables.Disposables").qualname
    wraps = calls_to(an, f, dq)
    for c in wraps:
        ob.inst(f, c)
        if not (len(c.args) == 1 and isinstance(c.args[0], ast.Starred) and "param:disposables" in dsc.of(c.args[0].value)):
            ob.fail(f, c, "an iterable of disposables is not wrapped as Disposables(*iterable)")
    scinit = prog.fn("context.access.ScopeContext.__init__")
    sci = prog.cls("context.access.ScopeContext")
    for attr, param in (("_state", "state"), ("_disposables", "disposables")):
        vv = sci.attr_val.get(attr, [])
        if not (len(vv) == 1 and is_name(vv[0], param)):
            ob.fail(scinit, None, f"ScopeContext.{attr} does not hold the `{param}` it was given")
        else:
            ob.inst(scinit, vv[0], attr)


def _borrowed(an: Analysis) -> None:
    from ..engine import borrow

    borrow(
        an,
        c02.check,
        {"C02.1": "C01.9", "C02.2": "C01.10", "C02.3": "C01.11"},
        keep=lambda f: "StateContext" in f.at or "state exit" in f.message or "_token" in f.construct or "StateContext" in f.message,
    )
    from . import c08

    borrow(an, c08.check, {"C08.7": "C01.12", "C08.8": "C01.13"})
    from . import c03

    # C03.5: a non-empty update yields a new scope state built from the old values and the new ones - an update answered with the
    # old snapshot (because the new elements "equal" the ones held, or after a first pass consumed a one-shot iterable of them)
    # loses what the innermost block supplied
    borrow(an, c03.check, {"C03.5": "C01.14"})


def _is_type_of(e: ast.AST | None, name: str) -> bool:
    e = unwrap(e)
    if isinstance(e, ast.Call) and is_name(e.func, "type") and len(e.args) == 1 and is_name(e.args[0], name):
        return True
    return isinstance(e, ast.Attribute) and e.attr == "__class__" and is_name(e.value, name)


_OBJ = object()


class _Falsy:
    """a stored State instance whose truth value is False (defines __len__ / __bool__)"""

    def __bool__(self) -> bool:
        return False


_OBJ_FALSY = _Falsy()


def liveness(fixtures: str) -> list[dict]:
    import os

    an = Analysis(os.path.join(fixtures, "c01_inplace"), floors=False)
    ws = scope_state_writes(an, cls_q="fixture.ScopeState")
    if len(ws) < 4:
        raise AnalysisError(f"rule C01.5 (in-place write to ScopeState._state) fires {len(ws)} times on its fixture, expected >= 4")
    return [{"rule": "C01.5", "fixture": "fixtures/c01_inplace", "matches": len(ws)}]
