"""C16 - timeout calls always terminate with the right outcome and leave nothing running."""

from __future__ import annotations

import ast

from .. import AnalysisError
from ..astutil import Deps, is_name, unwrap
from ..cfg import CFG
from ..engine import Analysis
from ..kinds import NOVALUE, both, classify_handler, forwards_varargs, normal_only, scenario, strict, vararg_names
from ..loader import FunctionInfo, dotted, parent, stmt_text

ASSUMPTIONS = [
    "loop.call_later fires the callback at (about) the deadline; deadline precision is not decided",
    "done-callbacks of Task/Future are invoked once the object is done; Task.result() of a cancelled task raises CancelledError",
]

CALL = "helpers.timeouted._AsyncTimeout.__call__"
RESOLVERS = ("set_result", "set_exception", "cancel")


def _nested(fi: FunctionInfo, name: str) -> FunctionInfo | None:
    return next((f for f in fi.nested if f.name == name), None)


def _callback(an: Analysis, f: FunctionInfo, cb: ast.AST | None) -> tuple[FunctionInfo | None, list[ast.AST]]:
    """(function, arguments pre-bound with functools.partial) for a registered callback expression."""
    prog = an.prog
    bound: list[ast.AST] = []
    if isinstance(cb, ast.Call) and an.callee(f, cb) == "functools.partial" and cb.args and all(k.arg is not None for k in cb.keywords) and not any(isinstance(a, ast.Starred) for a in cb.args):
        bound = list(cb.args[1:]) + [k for k in cb.keywords]  # positional values, then ast.keyword items (bound by name)
        cb = cb.args[0]
    if isinstance(cb, ast.Name):
        fn = _nested(f, cb.id)
        if fn is None:
            t = prog.functions.get(prog.resolve_global(f.module, cb.id) or "")
            fn = t if t is not None and t.module is f.module else None
        return fn, bound
    return None, []


def check(an: Analysis) -> None:
    prog = an.prog
    f = prog.fn(CALL)
    g = an.cfg(f)
    d = Deps(prog, f)

    def val_is(e: ast.AST, leaf: str) -> bool:
        return leaf in d.origins(e)

    TASK, FUT, TIMER = "call:asyncio.AbstractEventLoop.create_task", "call:asyncio.AbstractEventLoop.create_future", "call:asyncio.AbstractEventLoop.call_later"

    # ------------------------------------------------------------------ C16.1 registrations before the first await
    ob = an.ob("C16.1", "K1", "task.add_done_callback(<completion>), future.add_done_callback(<result>), loop.call_later(self._timeout, <timeout>, future) are all executed on every path before the first await", [CALL])
    regs: dict[str, tuple] = {}
    for n in g.nodes:
        if n.kind != "call":
            continue
        c: ast.Call = n.ast  # type: ignore[assignment]
        callee = an.callee(f, c)
        if callee == "asyncio.Task.add_done_callback" and val_is(c.func.value, TASK):  # type: ignore[union-attr]
            regs["completion"] = (n, c.args[0] if c.args else None)
        elif callee == "asyncio.Future.add_done_callback" and val_is(c.func.value, FUT):  # type: ignore[union-attr]
            regs["result"] = (n, c.args[0] if c.args else None)
        elif callee == "asyncio.AbstractEventLoop.call_later":
            regs["timeout"] = (n, c.args[1] if len(c.args) > 1 else None)
    # callbacks written as bound methods of a private helper object (the per-call state moved from closures into a class)
    # cannot be followed: the roles of `self.<field>` inside them are tied to constructor arguments, which is not modelled
    helper_methods = []
    for n in g.nodes:
        if n.kind == "call":
            for a_ in [*n.ast.args, *[k.value for k in n.ast.keywords]]:  # type: ignore[union-attr]
                if isinstance(a_, ast.Attribute) and isinstance(a_.value, ast.Name):
                    t_ = prog.expr_type(f, a_.value)
                    ci_ = prog.classes.get(t_.name) if t_ is not None else None
                    if ci_ is not None and ci_.module is f.module and ci_.name.startswith("_") and ci_.method(a_.attr) is not None and ci_ is not f.cls:
                        helper_methods.append(f"{ci_.name}.{a_.attr}")
    if helper_methods and len(regs) < 3:
        raise AnalysisError(f"C16: the callbacks of the timeout call are methods of a private helper object ({sorted(set(helper_methods))}); per-call state kept in a helper class instead of closures is not modelled (unrecognised idiom)")
    awaits = [n for n in g.nodes if n.kind == "await"]
    closures: dict[str, FunctionInfo] = {}
    param_roles: dict[str, dict[str, set[str]]] = {}
    for role in ("completion", "result", "timeout"):
        if role not in regs:
            ob.fail(f, None, f"the {role} callback is never registered")
            continue
        n, cb = regs[role]
        ob.inst(f, n.ast, role)
        fn, bound = _callback(an, f, cb)
        if fn is None:
            ob.fail(f, n.ast, f"the {role} callback is not a function of this module (a closure of __call__, or a module-level function, possibly bound with partial)")
        else:
            closures[role] = fn
            # roles of the callback's parameters: leading ones from partial(...) / call_later's extra arguments (what they
            # denote in __call__), the last one is the object the callback is registered on
            by_name = [b for b in bound if isinstance(b, ast.keyword)]
            bound = [b for b in bound if not isinstance(b, ast.keyword)]
            a_ = fn.node.args
            params = [p.arg for p in a_.posonlyargs + a_.args]
            extra = list(n.ast.args[2:]) if role == "timeout" else []  # type: ignore[union-attr]
            given = bound + extra
            roles: dict[str, set[str]] = {}

            def roles_of(a: ast.AST) -> set[str]:
                return {r_ for leaf, r_ in ((TASK, "task"), (FUT, "future"), (TIMER, "timer")) if leaf in d.origins(a)}

            for pname, a in zip(params, given):
                roles[pname] = roles_of(a)
            for k_ in by_name:
                if k_.arg in roles or k_.arg not in params + [p.arg for p in a_.kwonlyargs] or k_.arg in [p.arg for p in a_.posonlyargs]:
                    ob.fail(f, n.ast, f"the {role} callback cannot be called as registered (`{k_.arg}` bound by name)")
                roles[k_.arg] = roles_of(k_.value)  # type: ignore[index]
            rest = [p for p in params[len(given) :] if p not in roles]
            if role != "timeout" and len(rest) == 1:
                roles[rest[0]] = {"task" if role == "completion" else "future"}
            param_roles[fn.qualname] = roles
        w = g.ordered(lambda x, n=n: x is n, lambda x: x in awaits)
        if w is not None:
            ob.fail(f, n.ast, f"an await is reachable before the {role} callback was registered", CFG.show_path(w))
        w = g.must_pass(lambda x, n=n: x is n, exits=("exit-return",), skip_edge=normal_only)
        if w is not None:
            ob.fail(f, n.ast, f"a normal path never registers the {role} callback", CFG.show_path(w))
    if "timeout" in regs:
        c = regs["timeout"][0].ast
        if not (c.args and "attr:self._timeout" in d.of(c.args[0])):
            ob.fail(f, c, "the timer delay is not self._timeout")
        tcb = closures.get("timeout")
        reads_closure = tcb is not None and tcb.outer is f and not tcb.param_names() and any(isinstance(x, ast.Name) and FUT in Deps(prog, tcb).origins(x) for x in tcb.own_nodes())
        if not ((len(c.args) >= 3 and val_is(c.args[2], FUT)) or (len(c.args) == 2 and reads_closure)):
            ob.fail(f, c, "the timer callback does not receive the result future")
        tv = prog.cls("helpers.timeouted._AsyncTimeout").attr_val.get("_timeout", [])
        init = prog.fn("helpers.timeouted._AsyncTimeout.__init__")
        if not (tv and all("param:timeout" in Deps(prog, init).of(v) for v in tv)):
            ob.fail(init, None, "self._timeout does not hold the configured timeout")
        wrap = prog.fn("helpers.timeouted.timeout._wrap")
        ctor = [c2 for c2 in wrap.own_nodes() if isinstance(c2, ast.Call) and an.callee(wrap, c2) == prog.cls("helpers.timeouted._AsyncTimeout").qualname]
        passed_ = ([*ctor[0].args[1:]] + [k.value for k in ctor[0].keywords]) if ctor else []  # positional or keyword
        if not ctor or not any("param:timeout" in Deps(prog, wrap).of(v_) for v_ in passed_):
            ob.fail(wrap, None, "timeout() does not pass the timeout on to the wrapper")
        else:
            ob.inst(wrap, ctor[0], "timeout plumbing")
        from ..kinds import unwrapped_returns

        for r_ in unwrapped_returns(an, wrap, {prog.cls("helpers.timeouted._AsyncTimeout").qualname}):
            ob.fail(wrap, r_, "timeout() hands some callables back without the timeout wrapper (asynchronous callable objects, other wrappers of this library, partials are not coroutine *functions*): no deadline applies to them")

    # helper: what a closure's name denotes (own parameter shadows the outer variable)
    def role_of(fn: FunctionInfo, e: ast.AST) -> set[str]:
        dd = Deps(prog, fn).origins(e)
        out = set()
        for leaf, role in ((TASK, "task"), (FUT, "future"), (TIMER, "timer")):
            if leaf in dd:
                out.add(role)
        # a closure parameter receives the object it is registered on / called with
        if isinstance(e, ast.Name) and e.id in fn.param_names():
            known = param_roles.get(fn.qualname, {})
            if e.id in known:
                out |= known[e.id]
            elif fn is closures.get("completion"):
                out.add("task")
            elif fn is closures.get("result") or fn is closures.get("timeout"):
                out.add("future")
        return out

    timer_disarmed_first = [False]
    # ------------------------------------------------------------------ C16.2 completion callback always resolves the future
    oc = closures.get("completion")
    ob = an.ob(
        "C16.2",
        "K1+K4",
        "in the completion callback, on every path - including every exception task.result() can raise (BaseException, CancelledError of a cancelled task) - "
        "either future.done() was observed true or the result future is resolved (set_result/set_exception/cancel)",
        [CALL + ".<completion callback>"],
    )
    if oc is not None:
        gc = an.cfg(oc)
        resolvers = [n for n in gc.nodes if n.kind == "call" and isinstance(n.ast.func, ast.Attribute) and n.ast.func.attr in RESOLVERS and "future" in role_of(oc, n.ast.func.value)]  # type: ignore[union-attr]
        for n in resolvers:
            ob.inst(oc, n.ast)
        if not resolvers:
            ob.fail(oc, None, "the completion callback never resolves the result future")
        else:

            def done_true_edge(a, b, lab):
                if a.kind == "test" and isinstance(a.ast, ast.Call) and isinstance(a.ast.func, ast.Attribute) and a.ast.func.attr == "done" and "future" in role_of(oc, a.ast.func.value):
                    return lab == "T"
                return False

            w = gc.must_pass(lambda n: n in resolvers, raising=strict, skip_edge=done_true_edge)
            if w is not None:
                culprit = next((n for n in reversed(w) if n.kind == "handler"), None)
                hs = [n for n in oc.own_nodes() if isinstance(n, ast.ExceptHandler)]
                ob.fail(
                    oc,
                    (hs[0] if hs else resolvers[0].ast),
                    "the wrapped task can end in a way (BaseException / cancelled) for which the result future is never resolved: the caller waits forever",
                    CFG.show_path(w),
                )
        # an exception of the function that is not a cancellation (any class: BaseException itself stands for the custom ones) is
        # forwarded as an exception - on the route it takes from task.result() no `cancel()` of the result future is reached
        res_calls = [n for n in gc.nodes if n.kind == "call" and isinstance(n.ast.func, ast.Attribute) and n.ast.func.attr == "result" and "task" in role_of(oc, n.ast.func.value)]  # type: ignore[union-attr]
        cancels = [n for n in resolvers if n.ast.func.attr == "cancel"]  # type: ignore[union-attr]

        def task_not_cancelled(a, b, lab):
            if a.kind == "test" and isinstance(a.ast, ast.Call) and isinstance(a.ast.func, ast.Attribute) and a.ast.func.attr == "cancelled" and "task" in role_of(oc, a.ast.func.value):
                return lab == "T"
            return False

        for rc in res_calls:
            route = gc.exc_route("KeyboardInterrupt")  # stands for every BaseException that is neither an Exception nor a cancellation
            starts = [t for t, lab in rc.succ if lab == "exc" and not route(rc, t, lab)]
            w = gc.search(starts, lambda n: n in cancels, skip_edge=lambda a, b, lab: route(a, b, lab) or task_not_cancelled(a, b, lab) or done_true_edge(a, b, lab), include_start=True) if starts and cancels else None
            if w is not None:
                ob.fail(oc, w[-1].ast, "an exception of the function that is not an Exception subclass (a custom BaseException, KeyboardInterrupt ...) is turned into a cancellation of the result future: the caller does not get the function's own exception", CFG.show_path([rc] + w))
        # forwarded values
        for n in resolvers:
            c = n.ast
            if c.func.attr == "set_result":  # type: ignore[union-attr]
                a = c.args[0] if c.args else None  # type: ignore[union-attr]
                if isinstance(a, ast.Name) and (sv := Deps(prog, oc).single_value(a.id)) is not None:
                    a = sv  # `result = task.result()` in the try body, `future.set_result(result)` in its else
                if not (isinstance(a, ast.Call) and isinstance(a.func, ast.Attribute) and a.func.attr == "result" and "task" in role_of(oc, a.func.value)):
                    ob.fail(oc, c, "the future does not receive task.result()")
            elif c.func.attr == "set_exception":  # type: ignore[union-attr]
                a = c.args[0] if c.args else None  # type: ignore[union-attr]
                h = next((p for p in _ancestors(c) if isinstance(p, ast.ExceptHandler)), None)
                if not (h is not None and h.name and is_name(a, h.name)):
                    ob.fail(oc, c, "the future does not receive the task's own exception object")

        # ------------------------------------------------------------------ C16.3 timer cancelled
        ob3 = an.ob("C16.3", "K1", "the completion callback cancels the timer handle on every path", [CALL + ".<completion callback>"])
        tc = [n for n in gc.nodes if n.kind == "call" and isinstance(n.ast.func, ast.Attribute) and n.ast.func.attr == "cancel" and "timer" in role_of(oc, n.ast.func.value)]  # type: ignore[union-attr]
        if not tc:
            ob3.fail(oc, None, "the timer handle is never cancelled once the task completed")
        else:
            ob3.inst(oc, tc[0].ast)
            def already_cancelled(a, b, lab):
                # `if not handle.cancelled(): handle.cancel()` - a handle that is cancelled already is not armed
                if a.kind == "test" and isinstance(a.ast, ast.Call) and isinstance(a.ast.func, ast.Attribute) and a.ast.func.attr == "cancelled" and "timer" in role_of(oc, a.ast.func.value):
                    return lab == "T"
                return False

            w = gc.must_pass(lambda n: n in tc, raising=strict, skip_edge=already_cancelled)
            if w is not None:
                ob3.fail(oc, tc[0].ast, "a path through the completion callback leaves the timer armed", CFG.show_path(w))
            # ... and does so before it resolves the result future: then a timer callback that still runs can only find the
            # future done through the caller's cancellation
            first_res = gc.search([gc.entry], lambda n: n in resolvers, skip_node=lambda n: n in tc) if resolvers else None
            timer_disarmed_first[0] = w is None and first_res is None

    # ------------------------------------------------------------------ C16.4 result callback cancels the task
    orr = closures.get("result")
    ob = an.ob("C16.4", "K1", "the result-future callback calls task.cancel() unconditionally (caller cancelled or timed out => the function is cancelled)", [CALL + ".<result callback>"])
    if orr is not None:
        gr = an.cfg(orr)
        tc = [n for n in gr.nodes if n.kind == "call" and isinstance(n.ast.func, ast.Attribute) and n.ast.func.attr == "cancel" and "task" in role_of(orr, n.ast.func.value)]  # type: ignore[union-attr]
        if not tc:
            ob.fail(orr, None, "the function's task is never cancelled when the result future completes")
        else:
            ob.inst(orr, tc[0].ast)
            w = gr.must_pass(lambda n: n in tc, raising=strict)
            if w is not None:
                ob.fail(orr, tc[0].ast, "a path through the result callback leaves the task running", CFG.show_path(w))

    # ------------------------------------------------------------------ C16.5 timeout callback
    ot = closures.get("timeout")
    ob = an.ob("C16.5", "K2", "the timer callback sets TimeoutError on the result future unless it is already done", [CALL + ".<timeout callback>"])
    if ot is not None:
        gt = an.cfg(ot)
        sets = [n for n in gt.nodes if n.kind == "call" and isinstance(n.ast.func, ast.Attribute) and n.ast.func.attr == "set_exception" and "future" in role_of(ot, n.ast.func.value)]  # type: ignore[union-attr]
        if not sets:
            ob.fail(ot, None, "the timer callback never fails the result future")
        else:
            ob.inst(ot, sets[0].ast)
            a = sets[0].ast.args[0] if sets[0].ast.args else None  # type: ignore[union-attr]

            def timeout_error(x: ast.AST | None, depth: int = 3) -> bool:
                x = unwrap(x)
                if isinstance(x, ast.IfExp) and depth > 0:  # every alternative must be a TimeoutError
                    return timeout_error(x.body, depth - 1) and timeout_error(x.orelse, depth - 1)
                if isinstance(x, ast.Name) and depth > 0:
                    vals = [v for k, v in Deps(prog, ot).defs(ot, x.id) if k == "value"]
                    return bool(vals) and len(vals) == len(Deps(prog, ot).defs(ot, x.id)) and all(timeout_error(v, depth - 1) for v in vals)
                t = x.func if isinstance(x, ast.Call) else x
                return t is not None and (dotted(t) or "").rsplit(".", 1)[-1] == "TimeoutError"

            if not timeout_error(a):
                ob.fail(ot, sets[0].ast, "the deadline is not reported as TimeoutError")

            def env(done: bool):
                def e(x: ast.AST):
                    if isinstance(x, ast.Call) and isinstance(x.func, ast.Attribute) and x.func.attr == "done" and "future" in role_of(ot, x.func.value):
                        return done
                    if isinstance(x, ast.Call) and isinstance(x.func, ast.Attribute) and x.func.attr == "cancelled" and "future" in role_of(ot, x.func.value):
                        # a pending future is not cancelled; a future found done *by the timer callback* was cancelled by the caller
                        # when the completion callback disarms the timer before it resolves the future (C16.3, checked above)
                        return False if not done else (True if timer_disarmed_first[0] else NOVALUE)
                    return NOVALUE

                return e

            w = gt.must_pass(lambda n: n in sets, skip_edge=both(normal_only, scenario(gt, env(False))))
            if w is not None:
                ob.fail(ot, sets[0].ast, "with the result still pending the timer callback can return without failing it", CFG.show_path(w))
            w = gt.search([gt.entry], lambda n: n in sets, skip_edge=scenario(gt, env(True)))
            if w is not None:
                ob.fail(ot, sets[0].ast, "the timer callback overwrites an already completed result", CFG.show_path(w))

    # ------------------------------------------------------------------ C16.6 forwarding
    ob = an.ob("C16.6", "K5", "the function is started as self._function(*args, **kwargs) in its own task and __call__ returns `await <result future>`", [CALL])
    va, kwa = vararg_names(f)
    tasks = [n for n in g.nodes if n.kind == "call" and an.callee(f, n.ast) == "asyncio.AbstractEventLoop.create_task"]
    if len(tasks) != 1:
        ob.fail(f, None, f"the wrapped function is started {len(tasks)} times (must be exactly once)")
    else:
        c = tasks[0].ast
        ob.inst(f, c)
        coro = c.args[0] if c.args else None  # type: ignore[union-attr]
        if not (isinstance(coro, ast.Call) and dotted(coro.func) == "self._function" and forwards_varargs(coro, va, kwa)):
            ob.fail(f, c, "the task does not run self._function(*args, **kwargs)")
    from ..kinds import holds_the_decorated_function

    holds_the_decorated_function(an, ob, "helpers.timeouted._AsyncTimeout")
    # the future, the task and the timer of a call live on the loop that is running *this* call - looked up per call, not kept on
    # the wrapper (which lives as long as the decorated function and may be called under another loop later)
    for n in g.nodes:
        if n.kind == "call" and an.callee(f, n.ast) in ("asyncio.AbstractEventLoop.create_future", "asyncio.AbstractEventLoop.create_task", "asyncio.AbstractEventLoop.call_later") and isinstance(n.ast.func, ast.Attribute):  # type: ignore[union-attr]
            lo_ = d.origins(n.ast.func.value)  # type: ignore[union-attr]
            if not lo_ or not lo_ <= {"call:asyncio.get_running_loop", "call:asyncio.get_event_loop"}:
                ob.fail(f, n.ast, "the call's future / task / timer are not created on the loop running this call (a loop remembered on the wrapper object outlives the loop it was taken from: later calls fail or never start the function)")
    rets = [n for n in g.nodes if n.kind == "return"]
    for r in rets:
        ob.inst(f, r.ast)
        v = r.ast.value  # type: ignore[union-attr]
        if not (isinstance(v, ast.Await) and val_is(v.value, FUT) and not val_is(v.value, TASK)):
            ob.fail(f, r.ast, "__call__ does not return the awaited result future")
    if not rets:
        ob.fail(f, None, "__call__ returns nothing")
    # the outcome of the result future is the caller's outcome at once: nothing is waited for after it (on any path, incl. the
    # exceptional ones) and no handler turns it into something else
    fut_awaits = [n for n in g.nodes if n.kind == "await" and val_is(n.ast.value, FUT) and not val_is(n.ast.value, TASK)]  # type: ignore[union-attr]
    for fa in fut_awaits:
        later = g.search([t for t, _lab in fa.succ], lambda n: n.suspends and n is not fa, include_start=True)
        if later is not None:
            ob.fail(f, later[-1].ast or later[-1].stmt, "after the result future completed the caller is kept waiting for something else: TimeoutError / the result is reported late (or never, for a function that ignores cancellation)", CFG.show_path([fa] + later))
        for h in [t for t, lab in fa.succ if lab == "exc" and t.kind == "handler"]:
            for kind, node, path in classify_handler(g, h.ast):  # type: ignore[arg-type]
                if kind not in ("reraise", "reraise-same"):
                    ob.fail(f, h.ast, f"a handler around the await of the result future {kind}s: the caller does not get the future's own outcome", CFG.show_path(path))
    from ..engine import borrow
    from . import c18

    # C18.7: mimic_function never overwrites what the wrapper object already holds (its own _function / _timeout): stacked wrappers
    # would otherwise adopt each other's state and the inner function would run outside the deadline
    borrow(an, c18.check, {"C18.7": "C16.7"})


def _ancestors(n: ast.AST):
    from ..loader import ancestors

    return ancestors(n)
