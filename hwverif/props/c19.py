"""C19 - context log lines go to the scope's logger tagged with an inherited trace id."""

from __future__ import annotations

import ast

from .. import AnalysisError
from ..astutil import Deps, is_name, unwrap
from ..cfg import CFG
from ..engine import Analysis
from ..kinds import NOVALUE, call_nodes, calls_to, eval_expr, forwards_varargs
from ..loader import FunctionInfo, dotted, parent, stmt_text
from . import c02

ASSUMPTIONS = [
    "API_FACT 9: Logger.log(level, fmt, *args) %-formats fmt only when args is non-empty; a formatting error loses the line",
    "what logging handlers do with a record is not analysed",
    "uuid4().hex is fresh",
]

SM = "context.metrics.ScopeMetrics"
MC = "context.metrics.MetricsContext"
LEVELS = {"log_error": "logging.ERROR", "log_warning": "logging.WARNING", "log_info": "logging.INFO", "log_debug": "logging.DEBUG"}


def check(an: Analysis) -> None:
    prog = an.prog
    slog = prog.fn(f"{SM}.log")
    init = prog.fn(f"{SM}.__init__")
    scope = prog.fn(f"{MC}.scope")
    di = Deps(prog, init)

    # ------------------------------------------------------------------ C19.1 levels and forwarding (x8 + x4)
    ob1 = an.ob("C19.1", "K12+K5", "MetricsContext.log_* pass the level constant matching their name on both branches and forward message, *args (+ exception); ctx.log_* forward to the same-named method", [f"{MC}.{n}" for n in LEVELS])
    ob2 = an.ob("C19.2", "K4", "the root logger (getLogger() without a name) is used only in the LookupError handler (no current scope) and receives the message untagged; there is no other handler", [f"{MC}.{n}" for n in LEVELS])
    for name, level in LEVELS.items():
        f = prog.fn(f"{MC}.{name}")
        g = an.cfg(f)
        va = f.node.args.vararg.arg if f.node.args.vararg else None
        has_exc = "exception" in f.param_names()
        msg = f.param_names()[1]
        scoped = calls_to(an, f, slog.qualname)
        root = [c for c in f.own_nodes() if isinstance(c, ast.Call) and an.callee(f, c) == "logging.Logger.log" and isinstance(c.func.value, ast.Call) and an.callee(f, c.func.value) == "logging.getLogger"]  # type: ignore[union-attr]
        if len(scoped) != 1 or len(root) != 1:
            ob1.fail(f, None, f"{name}: expected one scoped and one root-logger emission, found {len(scoped)} / {len(root)}")
            continue
        for c, exc_kw in ((scoped[0], "exception"), (root[0], "exc_info")):
            ob1.inst(f, c)
            lv = c.args[0] if c.args else None
            if prog.resolve_dotted(f, lv) != level:
                ob1.fail(f, c, f"{name} emits at `{stmt_text(lv)}` instead of {level.rsplit('.', 1)[1]}")
            ok = len(c.args) == 3 and is_name(c.args[1], msg) and isinstance(c.args[2], ast.Starred) and is_name(c.args[2].value, va)
            if not ok:
                ob1.fail(f, c, f"{name} does not forward (message, *args) unchanged")
            ev = next((k.value for k in c.keywords if k.arg == exc_kw), None)
            if has_exc and not is_name(ev, "exception"):
                ob1.fail(f, c, f"{name} drops the exception (stack trace not recorded)")
        # scoped emission goes to the current scope
        recv = scoped[0].func.value  # type: ignore[union-attr]
        if not (isinstance(recv, ast.Call) and an.callee(f, recv) == "contextvars.ContextVar.get" and c02.contextvar_owner(an, f, recv.func.value) == prog.cls(MC).qualname and not recv.args):  # type: ignore[union-attr]
            ob1.fail(f, scoped[0], "the message is not logged through the scope current in the calling task")
        # ---- C19.2
        hs = [h for h in f.own_nodes() if isinstance(h, ast.ExceptHandler)]
        ob2.inst(f, root[0])
        if len(hs) != 1 or set(g.handler_classes(hs[0])) != {"LookupError"}:
            ob2.fail(f, hs[0] if hs else None, f"{name}: handlers {[g.handler_classes(h) for h in hs]} - only `except LookupError` (no current scope) may divert a message to the root logger")
        else:
            from ..loader import within

            if not within(root[0], hs[0]):
                ob2.fail(f, root[0], "the root logger is used although a scope may be current")
            if within(scoped[0], hs[0]):
                ob2.fail(f, scoped[0], "scoped logging happens only in the fallback")
        if root[0].func.value.args or root[0].func.value.keywords:  # type: ignore[union-attr]
            ob2.fail(f, root[0], "outside any scope messages must go to the *root* logger")
        # ctx.log_* forwarding
        cf = prog.fn(f"context.access.ctx.{name}")
        cva = cf.node.args.vararg.arg if cf.node.args.vararg else None
        cc = calls_to(an, cf, f.qualname)
        if len(cc) != 1:
            ob1.fail(cf, None, f"ctx.{name} does not delegate to MetricsContext.{name}")
        for c in cc:
            ob1.inst(cf, c)
            ok = len(c.args) == 2 and is_name(c.args[0], cf.param_names()[0]) and isinstance(c.args[1], ast.Starred) and is_name(c.args[1].value, cva)
            ev = next((k.value for k in c.keywords if k.arg == "exception"), None)
            if not ok or ("exception" in cf.param_names() and not is_name(ev, "exception")):
                ob1.fail(cf, c, f"ctx.{name} does not forward (message, *args, exception=exception)")

    # ------------------------------------------------------------------ C19.3 / C19.4 logger and trace id, end to end
    # MetricsContext.scope -> ScopeMetrics(...) -> the stored _logger / trace_id are evaluated for every combination of
    # {logger / trace id given or not} x {no scope current, a scope current (still open), a scope current (already completed)}
    # wherever the inheritance is written (in scope(), in __init__, split between them).
    ob3 = an.ob("C19.3", "K5 scenarios", "logger = the given one, else (a scope being current) the current scope's, else getLogger(<scope name>)", [f"{SM}.__init__", f"{MC}.scope"])
    ob4 = an.ob("C19.4", "K5 scenarios", "trace id = the given one, else (a scope being current) the current scope's, else a fresh uuid4().hex; the identifier is always fresh", [f"{MC}.scope", f"{SM}.__init__"])
    from ..kinds import Abs, Scenario

    smc = prog.cls(SM)
    lv = smc.attr_val.get("_logger", [])
    tv = smc.attr_val.get("trace_id", [])
    iv = smc.attr_val.get("identifier", [])
    if len(lv) != 1 or len(tv) != 1 or len(iv) != 1:
        raise AnalysisError("C19.3/4: expected one assignment each of ScopeMetrics._logger / trace_id / identifier")
    ob3.inst(init, lv[0])
    ob4.inst(init, tv[0], "trace_id")
    ob4.inst(init, iv[0], "identifier")
    gsc = an.cfg(scope)
    gin = an.cfg(init)
    ds = Deps(prog, scope)
    ctors = calls_to(an, scope, smc.qualname)
    if not ctors:
        raise AnalysisError("C19.3: MetricsContext.scope constructs no ScopeMetrics")
    for c in ctors:
        ob3.inst(scope, c)
        nm = next((k.value for k in c.keywords if k.arg == "scope"), None)
        if not is_name(nm, scope.param_names()[1]):
            ob3.fail(scope, c, "the scope name is not passed on")
    gets = [n for n in gsc.nodes if n.kind == "call" and an.callee(scope, n.ast) == "contextvars.ContextVar.get" and c02.contextvar_owner(an, scope, n.ast.func.value) == prog.cls(MC).qualname]  # type: ignore[union-attr]
    if not gets:
        ob3.missing(scope, None, "MetricsContext.scope never looks the current scope up: nothing can be inherited")
    CUR = Abs("ScopeMetrics", "object", tag="current")

    def stmt_node(g_: CFG, value: ast.AST):
        for n in g_.nodes:
            if n.kind == "stmt" and n.ast is not None and any(x is value for x in ast.walk(n.ast)):
                return n
        raise AnalysisError("C19.3: assignment node not found")

    n_logger, n_tid = stmt_node(gin, lv[0]), stmt_node(gin, tv[0])

    def stage(g_: CFG, deps_: Deps, fi_: FunctionInfo, params: dict[str, object], has_current: bool, parent_done: bool | None) -> Scenario:
        holder: list[Scenario] = []

        def base(e: ast.AST) -> object:
            ev = holder[0].env if holder else base
            if isinstance(e, ast.Call):
                cal = an.callee(fi_, e)
                if cal == "contextvars.ContextVar.get":
                    if has_current:
                        return CUR
                    return eval_expr(e.args[0], ev) if e.args else NOVALUE
                if cal == "logging.getLogger":
                    a = e.args[0] if e.args else next((k.value for k in e.keywords if k.arg == "name"), None)
                    av = eval_expr(a, ev) if a is not None else None
                    return ("named", av if av is not NOVALUE else ast.dump(a))
                if isinstance(e.func, ast.Attribute) and e.func.attr == "done" and isinstance(e.func.value, ast.Attribute) and eval_expr(e.func.value.value, ev) is CUR:
                    return parent_done if parent_done is not None else NOVALUE
            if isinstance(e, ast.Attribute):
                if e.attr == "hex" and isinstance(e.value, ast.Call) and an.callee(fi_, e.value) == "uuid.uuid4":
                    return "FRESH"
                recv = eval_expr(e.value, ev)
                if recv is CUR:
                    return _attr_of_current(prog, smc, CUR, e.attr)
                if isinstance(recv, Abs) and recv.tag.startswith("another scope"):
                    return (recv.tag, e.attr)
                if isinstance(recv, tuple) and len(recv) == 2 and recv[0] == "current" and recv[1] == "_parent":
                    return ("another scope (the current scope's parent)", e.attr)
            if isinstance(e, ast.Compare) and len(e.ops) == 1 and isinstance(e.ops[0], (ast.Is, ast.IsNot)) and isinstance(e.comparators[0], ast.Constant) and e.comparators[0].value is None:
                v = eval_expr(e.left, ev)
                if v is not NOVALUE:
                    return (v is None) == isinstance(e.ops[0], ast.Is)
            return NOVALUE

        def edge(a, b, lab):
            if a in gets and not a.ast.args and not a.ast.keywords:  # type: ignore[union-attr]
                return (lab in ("exc", "reraise")) if has_current else (lab not in ("exc",))
            return False

        sc = Scenario(g_, deps_, base, params=params, edge=edge if g_ is gsc else None, defer=True)
        holder.append(sc)
        return sc.solve()

    NAME = ("the scope name",)
    for given_logger in ("GIVEN", None):
        for given_tid in ("T1", None):
            for has_current, parent_done in ((False, None), (True, False), (True, True)):
                situation = ("no scope current" if not has_current else f"a scope current ({'already completed' if parent_done else 'open'})") + f", logger {'given' if given_logger else 'not given'}, trace id {'given' if given_tid else 'not given'}"
                sc1 = stage(gsc, ds, scope, {"trace_id": given_tid, "logger": given_logger, scope.param_names()[1]: NAME}, has_current, parent_done)
                live = [n for n in gsc.nodes if n.kind == "call" and n.ast in ctors and n.id in sc1.reach]
                if not live:
                    ob3.fail(scope, ctors[0], f"no ScopeMetrics is built with {situation}")
                    continue
                for cn in live:
                    kw = {k.arg: sc1.value_at(cn, k.value) for k in cn.ast.keywords if k.arg}  # type: ignore[union-attr]
                    if any(kw.get(k, NOVALUE) is NOVALUE for k in ("trace_id", "logger", "parent", "scope")):
                        raise AnalysisError(f"C19.3: cannot evaluate the ScopeMetrics(...) arguments at {scope.short}:{cn.line} with {situation}")
                    sc2 = stage(gin, di, init, {"trace_id": kw["trace_id"], "logger": kw["logger"], "parent": kw["parent"], "scope": kw["scope"]}, has_current, parent_done)
                    fl, ft = sc2.value_at(n_logger, lv[0]), sc2.value_at(n_tid, tv[0])
                    if fl is NOVALUE or ft is NOVALUE:
                        raise AnalysisError(f"C19.3: cannot evaluate the stored logger / trace id with {situation}")
                    want_l = "GIVEN" if given_logger else (("current", "_logger") if has_current else ("named", NAME))
                    want_t = "T1" if given_tid else (("current", "trace_id") if has_current else "FRESH")
                    if fl != want_l:
                        ob3.fail(scope if kw["logger"] != want_l and not (kw["logger"] is None) else init, cn.ast if kw["logger"] != want_l and kw["logger"] is not None else lv[0], f"with {situation} the scope logs through {_show(fl)} instead of {_show(want_l)}")
                    if ft != want_t:
                        ob4.fail(scope if kw["trace_id"] != want_t and not (kw["trace_id"] is None) else init, cn.ast if kw["trace_id"] != want_t and kw["trace_id"] is not None else tv[0], f"with {situation} the scope's trace id is {_show(ft)} instead of {_show(want_t)}")
    if not (isinstance(iv[0], ast.Attribute) and iv[0].attr == "hex" and isinstance(iv[0].value, ast.Call) and an.callee(init, iv[0].value) == "uuid.uuid4"):
        ob4.fail(init, iv[0], "the scope identifier is not a fresh uuid4().hex")

    # ------------------------------------------------------------------ C19.5 tag contents and emission
    ob = an.ob("C19.5", "K5", "the prefix carries trace id, identifier and (when non-empty) the scope name; ScopeMetrics.log emits `<prefix> <message>` through self._logger.log(level, ..., *args, exc_info=exception)", [f"{SM}.__init__", f"{SM}.log"])
    pv = prog.cls(SM).attr_val.get("_logger_prefix", [])
    if len(pv) != 1:
        raise AnalysisError("C19.5: expected one assignment of ScopeMetrics._logger_prefix")
    ob.inst(init, pv[0])

    def prefix_parts(e: ast.AST) -> set[str]:
        return {dotted(n) or "" for n in ast.walk(e) if isinstance(n, (ast.Attribute, ast.Name))}

    from ..kinds import Scenario

    gi_ = an.cfg(init)

    def ev_prefix(named: bool) -> set[str] | None:
        def base(x: ast.AST):
            if is_name(x, "scope"):
                return "name" if named else ""
            return NOVALUE

        sc = Scenario(gi_, di, base)
        exprs: list[ast.AST] = [pv[0]]
        for _ in range(4):
            nxt: list[ast.AST] = []
            changed = False
            for e in exprs:
                e = unwrap(e)
                if isinstance(e, ast.IfExp):
                    t = eval_expr(e.test, sc.env)
                    if t is NOVALUE:
                        return None
                    nxt.append(e.body if t else e.orelse)
                    changed = True
                elif isinstance(e, ast.Call) and isinstance(e.func, ast.Attribute) and e.func.attr == "join" and isinstance(e.func.value, ast.Constant) and len(e.args) == 1:
                    nxt.append(e.args[0])  # "<sep>".join(<parts>)
                    changed = True
                elif isinstance(e, ast.Name) and di.owner(e.id) is not None and sc.values_of(e.id):
                    nxt.extend(sc.values_of(e.id))
                    # a list of parts that is filled step by step: what the reachable append / extend calls add
                    for n_ in gi_.nodes:
                        if n_.kind == "call" and n_.id in sc.reach and isinstance(n_.ast.func, ast.Attribute) and n_.ast.func.attr in ("append", "extend", "insert") and is_name(n_.ast.func.value, e.id):  # type: ignore[union-attr]
                            nxt.extend(n_.ast.args)  # type: ignore[union-attr]
                    changed = True
                else:
                    nxt.append(e)
            exprs = nxt
            if not changed:
                break
        parts: set[str] = set()
        for e in exprs:
            parts |= {x for x in prefix_parts(e)}
            # names inside an inlined helper are substituted parameters: keep their origins too
            for n in ast.walk(e):
                if isinstance(n, ast.Name):
                    oo = di.origins(n)
                    if "param:scope" in oo:
                        parts.add("scope")
                    parts |= {o[5:] for o in oo if o.startswith("attr:")}
        return parts

    for named in (True, False):
        parts = ev_prefix(named)
        if parts is None:
            raise AnalysisError("C19.5: unrecognised prefix expression")
        need = {"self.trace_id", "self.identifier"} | ({"scope"} if named else set())
        if not need <= parts:
            ob.fail(init, pv[0], f"log prefix of a {'named' if named else 'nameless'} scope lacks {sorted(need - parts)}")
    emits = calls_to(an, slog, "logging.Logger.log")
    dl = Deps(prog, slog)
    lp = slog.param_names()
    if len(emits) != 1:
        ob.fail(slog, None, f"ScopeMetrics.log emits {len(emits)} records per call (must be exactly one)")
    else:
        from ..kinds import normal_only

        gl = an.cfg(slog)
        en = [n for n in gl.nodes if n.kind == "call" and n.ast is emits[0]]
        w = gl.must_pass(lambda n: n in en, exits=("exit-return",), skip_edge=normal_only)
        if w is not None:
            ob.fail(slog, emits[0], "a path through ScopeMetrics.log returns without handing the record to the logger (level filtering belongs to the logger at call time): a message the logger would accept is lost", CFG.show_path(w))
    for c in emits:
        ob.inst(slog, c)
        if dotted(c.func.value) != "self._logger":  # type: ignore[union-attr]
            ob.fail(slog, c, "the record does not go to the scope's logger")
        ok = len(c.args) == 3 and is_name(c.args[0], lp[1]) and isinstance(c.args[2], ast.Starred) and is_name(c.args[2].value, slog.node.args.vararg.arg)
        ev = next((k.value for k in c.keywords if k.arg == "exc_info"), None)
        if not ok or not is_name(ev, "exception"):
            ob.fail(slog, c, "level / *args / exception are not passed on to the logger unchanged")
        fmt = dl.inline(c.args[1]) if len(c.args) > 1 else None
        dd = dl.of(c.args[1]) if len(c.args) > 1 else frozenset()
        if not ("attr:self._logger_prefix" in dd and f"param:{lp[2]}" in dd):
            ob.fail(slog, c, "the emitted text does not contain both the scope prefix and the message")
        elif isinstance(fmt, ast.JoinedStr):
            order = []
            for v in fmt.values:
                if isinstance(v, ast.FormattedValue):
                    dv = dl.of(v.value)
                    order.append("prefix" if "attr:self._logger_prefix" in dv else ("message" if f"param:{lp[2]}" in dv else ""))
            order = [o for o in order if o]
            if order[:1] != ["prefix"] or "message" not in order:
                ob.fail(slog, c, "the message is not prefixed by the scope tag")

    # ------------------------------------------------------------------ C19.6 formatting characters in the tag
    ob = an.ob("C19.6", "taint K5+K10", "scope name / trace id (untrusted text) never reach the %-format string of Logger.log unescaped when format arguments are passed (API_FACT 9)", [f"{SM}.log"])
    gl_ = an.cfg(slog)
    argsname = slog.node.args.vararg.arg

    def base_args(x: ast.AST):
        if is_name(x, argsname):
            return ["arg"]
        return NOVALUE

    sc_args = Scenario(gl_, dl, base_args)
    for c in emits:
        ob.inst(slog, c)
        if len(c.args) > 1 and _tainted(dl, c.args[1], argsname, sc_args):
            ob.fail(slog, c, "a `%` in the scope name or trace id corrupts %-formatting when the message has arguments: the line is lost (e.g. scope '100%s done', ctx.log_info('x %s', 'y'))")


def _tainted(d: Deps, e: ast.AST, args_name: str, sc, depth: int = 6) -> bool:
    """Can the raw prefix reach this (format-position) expression when *args is non-empty?
    `sc` is the Scenario 'args is non-empty' of ScopeMetrics.log (selects the reachable definitions of locals)."""
    e = unwrap(e)
    if depth < 0 or e is None:
        return True
    if isinstance(e, ast.Attribute) and dotted(e) == "self._logger_prefix":
        return True
    if isinstance(e, ast.Call) and isinstance(e.func, ast.Attribute) and e.func.attr == "replace" and len(e.args) == 2:
        a, b = e.args
        if isinstance(a, ast.Constant) and a.value == "%" and isinstance(b, ast.Constant) and b.value == "%%":
            return False
    if isinstance(e, ast.IfExp):
        t = eval_expr(e.test, sc.env)
        if t is NOVALUE:
            return _tainted(d, e.body, args_name, sc, depth - 1) or _tainted(d, e.orelse, args_name, sc, depth - 1)
        return _tainted(d, e.body if t else e.orelse, args_name, sc, depth - 1)
    if isinstance(e, ast.Name):
        vals = sc.values_of(e.id)
        if not vals:
            sv = d.single_value(e.id)
            vals = [sv] if sv is not None else []
        return any(_tainted(d, v, args_name, sc, depth - 1) for v in vals)
    if isinstance(e, (ast.JoinedStr, ast.BinOp, ast.FormattedValue, ast.Call, ast.BoolOp)):
        return any(_tainted(d, ch, args_name, sc, depth - 1) for ch in ast.iter_child_nodes(e) if isinstance(ch, ast.expr))
    return False


def _show(v: object) -> str:
    if v == "GIVEN":
        return "the given logger"
    if v == "T1":
        return "the given trace id"
    if v == "FRESH":
        return "a fresh uuid4().hex"
    if isinstance(v, tuple) and v and v[0] == "current":
        return f"the current scope's {v[1]}"
    if isinstance(v, tuple) and len(v) == 2 and isinstance(v[0], str) and v[0].startswith("another scope"):
        return f"{v[1]} of {v[0]}"
    if isinstance(v, tuple) and v and v[0] == "named":
        return "getLogger(<scope name>)" if v[1] == ("the scope name",) else f"getLogger({v[1]})"
    return repr(v)


def _attr_of_current(prog, smc, cur, attr: str) -> object:
    """Value of <current scope>.<attr>: a stored attribute, or a public property of ScopeMetrics that is a plain alias
    of one; a property that walks `_parent` yields another scope."""
    from ..kinds import Abs

    for m in smc.methods.get(attr, []):
        if "property" not in m.decorator_names():
            continue
        sn = prog.self_name(m)
        me = sn[0] if sn else "self"
        rets = [r for r in m.own_nodes() if isinstance(r, ast.Return)]
        if len(rets) == 1 and len([x for x in m.node.body if not (isinstance(x, ast.Expr) and isinstance(x.value, ast.Constant))]) == 1:
            v = unwrap(rets[0].value)
            if isinstance(v, ast.Attribute) and is_name(v.value, me):
                return _attr_of_current(prog, smc, cur, v.attr)
            if is_name(v, me):
                return cur
        if any(isinstance(x, ast.Attribute) and x.attr == "_parent" for x in m.own_nodes()):
            return Abs("ScopeMetrics", "object", tag=f"another scope (reached through _parent by the `{attr}` property)")
        return NOVALUE
    return ("current", attr)
