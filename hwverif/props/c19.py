"""C19 - context log lines go to the scope's logger tagged with an inherited trace id."""

from __future__ import annotations

import ast

from .. import AnalysisError
from ..astutil import Deps, is_name, unwrap
from ..cfg import CFG
from ..engine import Analysis
from ..kinds import NOVALUE, call_nodes, calls_to, eval_expr, forwards_varargs
from ..loader import FunctionInfo, dotted, parent, stmt_text
from . import c02

ASSUMPTIONS = [
    "API_FACT 9: Logger.log(level, fmt, *args) %-formats fmt only when args is non-empty; a formatting error loses the line",
    "what logging handlers do with a record is not analysed",
    "uuid4().hex is fresh",
]

SM = "context.metrics.ScopeMetrics"
MC = "context.metrics.MetricsContext"
LEVELS = {"log_error": "logging.ERROR", "log_warning": "logging.WARNING", "log_info": "logging.INFO", "log_debug": "logging.DEBUG"}


def check(an: Analysis) -> None:
    prog = an.prog
    slog = prog.fn(f"{SM}.log")
    init = prog.fn(f"{SM}.__init__")
    scope = prog.fn(f"{MC}.scope")
    di = Deps(prog, init)

    # ------------------------------------------------------------------ C19.1 levels and forwarding (x8 + x4)
    ob1 = an.ob("C19.1", "K12+K5", "MetricsContext.log_* pass the level constant matching their name on both branches and forward message, *args (+ exception); ctx.log_* forward to the same-named method", [f"{MC}.{n}" for n in LEVELS])
    ob2 = an.ob("C19.2", "K4", "the root logger (getLogger() without a name) is used only in the LookupError handler (no current scope) and receives the message untagged; there is no other handler", [f"{MC}.{n}" for n in LEVELS])
    for name, level in LEVELS.items():
        f = prog.fn(f"{MC}.{name}")
        g = an.cfg(f)
        va = f.node.args.vararg.arg if f.node.args.vararg else None
        has_exc = "exception" in f.param_names()
        msg = f.param_names()[1]
        scoped = calls_to(an, f, slog.qualname)
        root = [c for c in f.own_nodes() if isinstance(c, ast.Call) and an.callee(f, c) == "logging.Logger.log" and isinstance(c.func.value, ast.Call) and an.callee(f, c.func.value) == "logging.getLogger"]  # type: ignore[union-attr]
        if len(scoped) != 1 or len(root) != 1:
            ob1.fail(f, None, f"{name}: expected one scoped and one root-logger emission, found {len(scoped)} / {len(root)}")
            continue
        for c, exc_kw in ((scoped[0], "exception"), (root[0], "exc_info")):
            ob1.inst(f, c)
            lv = c.args[0] if c.args else None
            if prog.resolve_dotted(f, lv) != level:
                ob1.fail(f, c, f"{name} emits at `{stmt_text(lv)}` instead of {level.rsplit('.', 1)[1]}")
            ok = len(c.args) == 3 and is_name(c.args[1], msg) and isinstance(c.args[2], ast.Starred) and is_name(c.args[2].value, va)
            if not ok:
                ob1.fail(f, c, f"{name} does not forward (message, *args) unchanged")
            ev = next((k.value for k in c.keywords if k.arg == exc_kw), None)
            if has_exc and not is_name(ev, "exception"):
                ob1.fail(f, c, f"{name} drops the exception (stack trace not recorded)")
        # no path returns without emitting (level filtering is the logger's business, and it is the *scope's* logger that decides)
        emit_nodes = [n for n in g.nodes if n.kind == "call" and (n.ast is scoped[0] or n.ast is root[0])]
        w = g.must_pass(lambda n: n in emit_nodes, exits=("exit-return",))
        if w is not None:
            ob1.fail(f, w[-2].ast if len(w) > 1 and w[-2].ast is not None else None, f"{name} can return without handing the message to a logger: a line the scope's logger would accept is silently dropped", CFG.show_path(w))
        # scoped emission goes to the current scope
        recv = scoped[0].func.value  # type: ignore[union-attr]
        if not (isinstance(recv, ast.Call) and an.callee(f, recv) == "contextvars.ContextVar.get" and c02.contextvar_owner(an, f, recv.func.value) == prog.cls(MC).qualname and not recv.args):  # type: ignore[union-attr]
            ob1.fail(f, scoped[0], "the message is not logged through the scope current in the calling task")
        # ---- C19.2
        hs = [h for h in f.own_nodes() if isinstance(h, ast.ExceptHandler)]
        ob2.inst(f, root[0])
        if len(hs) != 1 or set(g.handler_classes(hs[0])) != {"LookupError"}:
            ob2.fail(f, hs[0] if hs else None, f"{name}: handlers {[g.handler_classes(h) for h in hs]} - only `except LookupError` (no current scope) may divert a message to the root logger")
        else:
            from ..loader import within

            if not within(root[0], hs[0]):
                ob2.fail(f, root[0], "the root logger is used although a scope may be current")
            if within(scoped[0], hs[0]):
                ob2.fail(f, scoped[0], "scoped logging happens only in the fallback")
        ga_ = [*root[0].func.value.args, *[k.value for k in root[0].func.value.keywords]]  # type: ignore[union-attr]
        if ga_ and not (len(ga_) == 1 and isinstance(ga_[0], ast.Constant) and ga_[0].value in (None, "root")):  # getLogger("root") is the root logger (3.9+)
            ob2.fail(f, root[0], "outside any scope messages must go to the *root* logger")
        # ctx.log_* forwarding
        cf = prog.fn(f"context.access.ctx.{name}")
        cva = cf.node.args.vararg.arg if cf.node.args.vararg else None
        cc = calls_to(an, cf, f.qualname)
        if len(cc) != 1:
            ob1.fail(cf, None, f"ctx.{name} does not delegate to MetricsContext.{name}")
        for c in cc:
            ob1.inst(cf, c)
            ok = len(c.args) == 2 and is_name(c.args[0], cf.param_names()[0]) and isinstance(c.args[1], ast.Starred) and is_name(c.args[1].value, cva)
            ev = next((k.value for k in c.keywords if k.arg == "exception"), None)
            if not ok or ("exception" in cf.param_names() and not is_name(ev, "exception")):
                ob1.fail(cf, c, f"ctx.{name} does not forward (message, *args, exception=exception)")

    # ------------------------------------------------------------------ C19.3 / C19.4 logger and trace id, end to end
    # MetricsContext.scope -> ScopeMetrics(...) -> the stored _logger / trace_id are evaluated for every combination of
    # {logger / trace id given or not} x {no scope current, a scope current (still open), a scope current (already completed)}
    # wherever the inheritance is written (in scope(), in __init__, split between them).
    ob3 = an.ob("C19.3", "K5 scenarios", "logger = the given one, else (a scope being current) the current scope's, else getLogger(<scope name>)", [f"{SM}.__init__", f"{MC}.scope"])
    ob4 = an.ob("C19.4", "K5 scenarios", "trace id = the given one, else (a scope being current) the current scope's, else a fresh uuid4().hex; the identifier is always fresh", [f"{MC}.scope", f"{SM}.__init__"])
    from ..kinds import Abs, Scenario

    smc = prog.cls(SM)
    lv = smc.attr_val.get("_logger", [])
    tv = smc.attr_val.get("trace_id", [])
    iv = smc.attr_val.get("identifier", [])
    if len(lv) != 1 or len(tv) != 1 or len(iv) != 1:
        raise AnalysisError("C19.3/4: expected one assignment each of ScopeMetrics._logger / trace_id / identifier")
    ob3.inst(init, lv[0])
    ob4.inst(init, tv[0], "trace_id")
    ob4.inst(init, iv[0], "identifier")
    gsc = an.cfg(scope)
    gin = an.cfg(init)
    ds = Deps(prog, scope)
    ctors = calls_to(an, scope, smc.qualname)
    if not ctors:
        raise AnalysisError("C19.3: MetricsContext.scope constructs no ScopeMetrics")
    for c in ctors:
        ob3.inst(scope, c)
        nm = next((k.value for k in c.keywords if k.arg == "scope"), None)
        if not is_name(nm, scope.param_names()[1]):
            ob3.fail(scope, c, "the scope name is not passed on")
    for row in evaluate_scope_construction(an):
        situation, cn, kw, fl, ft, given_logger, given_tid, has_current = row["situation"], row["ctor"], row["kw"], row["logger"], row["trace_id"], row["given_logger"], row["given_tid"], row["has_current"]
        if cn is None:
            ob3.fail(scope, ctors[0], f"no ScopeMetrics is built with {situation}")
            continue
        want_l = "GIVEN" if given_logger else (("current", "_logger") if has_current else ("named", NAME))
        want_t = "T1" if given_tid else (("current", "trace_id") if has_current else "FRESH")
        if fl != want_l:
            ob3.fail(scope if kw["logger"] != want_l and not (kw["logger"] is None) else init, cn.ast if kw["logger"] != want_l and kw["logger"] is not None else lv[0], f"with {situation} the scope logs through {_show(fl)} instead of {_show(want_l)}")
        if ft != want_t:
            ob4.fail(scope if kw["trace_id"] != want_t and not (kw["trace_id"] is None) else init, cn.ast if kw["trace_id"] != want_t and kw["trace_id"] is not None else tv[0], f"with {situation} the scope's trace id is {_show(ft)} instead of {_show(want_t)}")
    iv0 = unwrap(iv[0])
    for _hop in range(3):
        if isinstance(iv0, ast.Name) and (sv_ := Deps(prog, init).single_value(iv0.id)) is not None:
            iv0 = unwrap(sv_)  # computed into a local first
    if not (isinstance(iv0, ast.Attribute) and iv0.attr == "hex" and isinstance(iv0.value, ast.Call) and an.callee(init, iv0.value) == "uuid.uuid4"):
        ob4.fail(init, iv[0], "the scope identifier is not a fresh uuid4().hex")

    # ------------------------------------------------------------------ C19.5 tag contents and emission / C19.6 formatting characters
    ob = an.ob("C19.5", "K5 text flow", "the text handed to the logger is composed of trace id, identifier, (when non-empty) the scope name and the message - followed through locals, attributes prepared in __init__, f-strings, +, join, format; ScopeMetrics.log emits it through self._logger.log(level, ..., *args, exc_info=exception) on every path", [f"{SM}.__init__", f"{SM}.log"])
    ob6 = an.ob("C19.6", "taint K5+K10", "scope name / trace id (untrusted text) are never *interpreted*: not in the %-format string of Logger.log unescaped when format arguments are passed (API_FACT 9), never in a str.format / % template", [f"{SM}.log"])
    emits = calls_to(an, slog, "logging.Logger.log")
    dl = Deps(prog, slog)
    lp = slog.param_names()
    from ..kinds import Scenario as _ScnL
    from ..kinds import normal_only

    gl = an.cfg(slog)
    va0_ = slog.node.args.vararg.arg if slog.node.args.vararg else ""
    # one record per call - judged per situation (with / without format arguments): an emission written once per branch of
    # `if args:` is one emission on every path
    live_in: dict[bool, list] = {}
    for has_args_ in (True, False):
        scl = _ScnL(gl, dl, lambda x, h=has_args_: (["arg"] if h else []) if is_name(x, va0_) else NOVALUE)
        en_all = [n for n in gl.nodes if n.kind == "call" and any(n.ast is e_ for e_ in emits) and n.id in scl.reach]
        live_in[has_args_] = en_all
        if len(en_all) != 1:
            ob.fail(slog, None, f"ScopeMetrics.log emits {len(en_all)} records per call {'with' if has_args_ else 'without'} format arguments (must be exactly one)")
        else:
            w = gl.must_pass(lambda n: n in en_all, exits=("exit-return",), skip_edge=lambda a, b, lab: normal_only(a, b, lab) or scl.skip(a, b, lab))
            if w is not None:
                ob.fail(slog, en_all[0].ast, "a path through ScopeMetrics.log returns without handing the record to the logger (level filtering belongs to the logger at call time): a message the logger would accept is lost", CFG.show_path(w))
    only_without_args = {id(n.ast) for n in live_in[False]} - {id(n.ast) for n in live_in[True]}
    for c in emits:
        ob.inst(slog, c)
        ob6.inst(slog, c)
        if dotted(c.func.value) != "self._logger":  # type: ignore[union-attr]
            ob.fail(slog, c, "the record does not go to the scope's logger")
        ok = len(c.args) == 3 and is_name(c.args[0], lp[1]) and isinstance(c.args[2], ast.Starred) and is_name(c.args[2].value, slog.node.args.vararg.arg)
        if not ok and id(c) in only_without_args:
            ok = len(c.args) == 2 and is_name(c.args[0], lp[1])  # reached only when there are no format arguments: nothing to pass on
        ev = next((k.value for k in c.keywords if k.arg == "exc_info"), None)
        if not ok or not is_name(ev, "exception"):
            ob.fail(slog, c, "level / *args / exception are not passed on to the logger unchanged")
        # ... and they are the caller's: neither the format arguments nor the message parameter is re-bound, and the message is
        # never %-rendered by the library itself (whether message and arguments agree is the logging module's rule - a lone
        # mapping argument, for instance - and its failure handling; a trial rendering here loses lines that logging accepts)
        va_ = slog.node.args.vararg.arg if slog.node.args.vararg else ""
        for x in slog.own_nodes():
            if isinstance(x, ast.Name) and isinstance(x.ctx, (ast.Store, ast.Del)) and x.id == va_:
                ob.fail(slog, parent(x) if parent(x) is not None else x, f"`{x.id}` is re-bound before the record is handed to the logger: the logger does not get the caller's format arguments")
            if isinstance(x, ast.BinOp) and isinstance(x.op, ast.Mod) and any(isinstance(y, ast.Name) and y.id == va_ for y in ast.walk(x.right)):
                ob.fail(slog, x, "ScopeMetrics.log applies % to the format arguments itself: rendering (and its failure handling) belongs to the logging module, whose rules differ (a single mapping argument, lazy rendering only when a handler accepts the record)")
        if len(c.args) < 2:
            continue
        for named in (True, False):
            for has_args in (True, False):
                if not any(n.ast is c for n in live_in[has_args]):
                    continue  # this emission is not the one made in that situation
                tf = TextFlow(an, slog, init, named, has_args)
                leaves = tf.leaves(c.args[1], slog)
                if leaves is None:
                    raise AnalysisError("C19.5: the text handed to the logger could not be followed to its parts")
                names = [x.name for x in leaves]
                need = ["self.trace_id", "self.identifier", "message"] + (["scope"] if named else [])
                lacking = [x for x in need if x not in names]
                ob.inst(slog, c, f"{'named' if named else 'nameless'} scope, {'with' if has_args else 'without'} format arguments: parts {sorted(set(names))}")
                if lacking:
                    what = "log prefix" if "message" not in lacking else "emitted text"
                    ob.fail(slog, c, f"the {what} of a {'named' if named else 'nameless'} scope lacks {sorted(x for x in lacking)}" + ("" if "message" not in lacking else ": the emitted text does not contain both the scope prefix and the message"))
                elif max(i_ for i_, x in enumerate(names) if x in ("self.trace_id", "self.identifier", "scope")) > min(i_ for i_, x in enumerate(names) if x == "message") and not any(x.brace_template for x in leaves):
                    ob.fail(slog, c, "the message is not prefixed by the scope tag")
                untrusted = [x for x in leaves if x.name in ("scope", "self.trace_id", "trace_id")]
                if not has_args and any(x.pct_escaped for x in untrusted):
                    ob6.fail(slog, c, "the scope name / trace id is %-escaped although no format arguments are passed: logging applies %-formatting only when there are arguments (API_FACT 9), so a scope named 'load 100%' is logged as '[load 100%%]' - the tag is no longer the scope's name")
                if has_args and any(not x.pct_escaped for x in untrusted):
                    ob6.fail(slog, c, "a `%` in the scope name or trace id corrupts %-formatting when the message has arguments: the line is lost (e.g. scope '100%s done', ctx.log_info('x %s', 'y'))")
                if any(x.brace_template or x.pct_template for x in untrusted):
                    ob6.fail(slog, c, "the scope name / trace id is part of a str.format (or %) *template*: a `{`, `}` (or `%`) in a scope name makes every log call - and entering the scope, which logs - raise or mangles the tag")

    # ------------------------------------------------------------------ C19.7 spawned tasks log under the spawning scope
    # ("... in spawned tasks"): the task must run in a copy of the spawner's context, which is where the current metrics scope lives
    from ..engine import borrow
    from . import c03

    borrow(an, c03.check, {"C03.3": "C19.7"})
    from . import c02 as c02_

    # C02.1: leaving a scope restores the metrics scope that was current when it was *entered* (token reset) - the log tag of the
    # surrounding code is that scope's
    borrow(an, c02_.check, {"C02.1": "C19.8"}, keep=lambda f: "MetricsContext" in f.at or "MetricsContext" in f.message)


class _Leaf:
    def __init__(self, name: str, pct_escaped: bool, brace_template: bool, pct_template: bool) -> None:
        self.name, self.pct_escaped, self.brace_template, self.pct_template = name, pct_escaped, brace_template, pct_template

    def __repr__(self) -> str:
        return f"<{self.name}{' esc' if self.pct_escaped else ''}{' {}tpl' if self.brace_template else ''}{' %tpl' if self.pct_template else ''}>"


class TextFlow:
    """Follows how the text given to Logger.log is composed, from ScopeMetrics.log back into what __init__ prepared:
    leaves are `self.trace_id`, `self.identifier`, `scope` (the scope name), `message`, other names; each leaf records
    whether it went through .replace('%', '%%') and whether it ended up in the *template* position of str.format / %."""

    def __init__(self, an: Analysis, slog: FunctionInfo, init: FunctionInfo, named: bool, has_args: bool) -> None:
        from ..kinds import Scenario

        self.an, self.slog, self.init = an, slog, init
        prog = an.prog
        self.cls = prog.cls(SM)
        argsname = slog.node.args.vararg.arg if slog.node.args.vararg else ""

        def base_log(x: ast.AST):
            if is_name(x, argsname):
                return ["arg"] if has_args else []
            return NOVALUE

        def base_init(x: ast.AST):
            if is_name(x, "scope"):
                return "name" if named else ""
            return NOVALUE

        self.ctx = {
            slog.qualname: (an.cfg(slog), Deps(prog, slog), None),
            init.qualname: (an.cfg(init), Deps(prog, init), None),
        }
        self.sc = {
            slog.qualname: Scenario(self.ctx[slog.qualname][0], self.ctx[slog.qualname][1], base_log),
            init.qualname: Scenario(self.ctx[init.qualname][0], self.ctx[init.qualname][1], base_init),
        }
        self.message = slog.param_names()[2] if len(slog.param_names()) > 2 else "message"

    def leaves(self, e: ast.AST | None, fn: FunctionInfo, esc: bool = False, brace: bool = False, pct: bool = False, depth: int = 20, at=None) -> list[_Leaf] | None:
        """`at`: the CFG node at which `e` is evaluated (locals are resolved to the definitions reaching it)."""
        e = unwrap(e) if e is not None else None
        if e is None or depth < 0:
            return None
        g, d, _ = self.ctx[fn.qualname]
        sc = self.sc[fn.qualname]
        if at is None:
            # the statement / call node holding this expression
            at = next((n for n in g.nodes if n.ast is not None and n.kind in ("call", "stmt", "return") and any(x is e for x in ast.walk(n.ast))), None)

        def many(xs, **kw) -> list[_Leaf] | None:
            out: list[_Leaf] = []
            for x in xs:
                sub = self.leaves(x, fn, kw.get("esc", esc), kw.get("brace", brace), kw.get("pct", pct), depth - 1, at=kw.get("at", at))
                if sub is None:
                    return None
                out += sub
            return out

        if isinstance(e, ast.Constant):
            return []
        if isinstance(e, ast.JoinedStr):
            return many([v.value for v in e.values if isinstance(v, ast.FormattedValue)])
        if isinstance(e, ast.FormattedValue):
            return many([e.value])
        if isinstance(e, ast.BinOp) and isinstance(e.op, ast.Add):
            return many([e.left, e.right])
        if isinstance(e, ast.BinOp) and isinstance(e.op, ast.Mod):
            a = many([e.left], pct=True)
            b = many([e.right])
            return None if a is None or b is None else a + b
        if isinstance(e, ast.IfExp):
            t = eval_expr(e.test, sc.env)
            return many([e.body, e.orelse]) if t is NOVALUE else many([e.body if t else e.orelse])
        if isinstance(e, (ast.List, ast.Tuple)):
            return many(e.elts)
        if isinstance(e, ast.Starred):
            return many([e.value])
        if isinstance(e, ast.Call) and isinstance(e.func, ast.Attribute):
            recv, attr = e.func.value, e.func.attr
            if attr == "replace" and len(e.args) == 2 and isinstance(e.args[0], ast.Constant) and e.args[0].value == "%" and isinstance(e.args[1], ast.Constant) and e.args[1].value == "%%":
                return many([recv], esc=True)
            if attr in ("format", "format_map"):
                a = many([recv], brace=True)
                b = many([*e.args, *[k.value for k in e.keywords]])
                return None if a is None or b is None else a + b
            if attr == "join" and len(e.args) == 1:
                return many([e.args[0]])
            if attr in ("strip", "lstrip", "rstrip", "replace", "lower", "upper", "ljust", "rjust", "center"):
                return many([recv])
        if isinstance(e, ast.Call) and isinstance(e.func, ast.Name) and e.func.id in ("str", "repr", "format") and e.args:
            return many(e.args[:1])
        if isinstance(e, (ast.GeneratorExp, ast.ListComp, ast.SetComp)) and len(e.generators) == 1 and isinstance(e.generators[0].target, ast.Name) and not e.generators[0].is_async:
            # `" ".join(f"[{tag}]" for tag in tags)`: each element is the template applied to a part of the iterable
            gen = e.generators[0]
            binds = self.__dict__.setdefault("_comp_binds", {})
            key = (fn.qualname, gen.target.id)
            if key in binds:
                return None
            binds[key] = (gen.iter, at)
            try:
                return many([e.elt])
            finally:
                del binds[key]
        if isinstance(e, ast.Name) and (fn.qualname, e.id) in self.__dict__.get("_comp_binds", {}):
            it_, at_ = self._comp_binds[(fn.qualname, e.id)]  # type: ignore[attr-defined]
            saved = self._comp_binds.pop((fn.qualname, e.id))  # type: ignore[attr-defined]
            try:
                return many([it_], at=at_)
            finally:
                self._comp_binds[(fn.qualname, e.id)] = saved  # type: ignore[attr-defined]
        if isinstance(e, ast.Name):
            # bound by unpacking a tuple prepared earlier: `plain, escaped = self._prefixes`
            unp = [(st, k) for st in fn.own_nodes() if isinstance(st, ast.Assign) and len(st.targets) == 1 and isinstance(st.targets[0], ast.Tuple) for k, t_ in enumerate(st.targets[0].elts) if isinstance(t_, ast.Name) and t_.id == e.id]
            if len(unp) == 1 and len(d.defs(fn, e.id)) == 1:
                st_, k_ = unp[0]
                src = unwrap(st_.value)
                n_ = len(st_.targets[0].elts)  # type: ignore[union-attr]
                cands_: list[tuple[ast.AST, FunctionInfo]] = []
                if isinstance(src, ast.Tuple) and len(src.elts) == n_:
                    cands_ = [(src.elts[k_], fn)]
                elif isinstance(src, ast.Attribute) and is_name(src.value, "self"):
                    vals_ = [unwrap(v_) for v_ in self.cls.attr_val.get(src.attr, [])]
                    if vals_ and all(isinstance(v_, ast.Tuple) and len(v_.elts) == n_ for v_ in vals_):
                        cands_ = [(v_.elts[k_], self.init) for v_ in vals_]  # type: ignore[union-attr]
                if cands_:
                    out_u: list[_Leaf] = []
                    for ce, cf in cands_:
                        sub = self.leaves(ce, cf, esc, brace, pct, depth - 1)
                        if sub is None:
                            return None
                        out_u += sub
                    return out_u
            if fn is self.slog and e.id == self.message:
                return [_Leaf("message", esc, brace, pct)]
            if fn is self.init and e.id == "scope":
                return [_Leaf("scope", esc, brace, pct)]
            if fn is self.init and e.id == "trace_id":
                return [_Leaf("trace_id", esc, brace, pct)]
            if fn is self.init:
                # a local that is also what __init__ stores as self.trace_id / self.identifier denotes that attribute
                for attr_ in ("trace_id", "identifier"):
                    if any(is_name(unwrap(v_), e.id) for v_ in self.cls.attr_val.get(attr_, [])) and len(d.defs(fn, e.id)) == 1:
                        return [_Leaf(f"self.{attr_}", esc, brace, pct)]
            if d.owner(e.id) is not None and at is not None and (rds := sc.reaching_defs(at, e.id)):
                # each reaching definition is expanded at its own position (`prefix = prefix.replace(..)` reads the earlier one)
                out_: list[_Leaf] = []
                for dn in rds:
                    sub = self.leaves(dn.ast.value, fn, esc, brace, pct, depth - 1, at=dn)
                    if sub is None:
                        return None
                    out_ += sub
                # a list of parts filled step by step: what the reachable append / extend calls add
                for n_ in g.nodes:
                    if n_.kind == "call" and n_.id in sc.reach and isinstance(n_.ast.func, ast.Attribute) and n_.ast.func.attr in ("append", "extend", "insert") and is_name(n_.ast.func.value, e.id):  # type: ignore[union-attr]
                        for a_ in n_.ast.args:  # type: ignore[union-attr]
                            sub = self.leaves(a_, fn, esc, brace, pct, depth - 1, at=n_)
                            if sub is None:
                                return None
                            out_ += sub
                return out_
            if d.owner(e.id) is not None:
                vals = list(sc.values_of(e.id))
                if not vals and (sv := d.single_value(e.id)) is not None:
                    vals = [sv]
                # a list of parts filled step by step
                for n_ in g.nodes:
                    if n_.kind == "call" and n_.id in sc.reach and isinstance(n_.ast.func, ast.Attribute) and n_.ast.func.attr in ("append", "extend", "insert") and is_name(n_.ast.func.value, e.id):  # type: ignore[union-attr]
                        vals += list(n_.ast.args)  # type: ignore[union-attr]
                if vals:
                    return many(vals)
            return [_Leaf(e.id, esc, brace, pct)]
        if isinstance(e, ast.Attribute) and not is_name(e.value, "self"):
            # a field of a private record (NamedTuple / dataclass) built earlier: `self._prefix.template`, `prefix.literal`
            fields = self._record_fields(e.value, fn, at, e.attr, depth)
            if fields is not None:
                out_f: list[_Leaf] = []
                for fexpr, ffn, fat in fields:
                    sub = self.leaves(fexpr, ffn, esc, brace, pct, depth - 1, at=fat)
                    if sub is None:
                        return None
                    out_f += sub
                return out_f
        if isinstance(e, ast.Attribute) and is_name(e.value, "self"):
            if e.attr in ("trace_id", "identifier"):
                return [_Leaf(f"self.{e.attr}", esc, brace, pct)]
            if e.attr == "label":
                return [_Leaf("scope", esc, brace, pct)]
            vals = self.cls.attr_val.get(e.attr, [])
            if vals and fn is not self.init:
                out: list[_Leaf] = []
                for v in vals:
                    sub = self.leaves(v, self.init, esc, brace, pct, depth - 1)
                    if sub is None:
                        return None
                    out += sub
                return out
            if vals:
                return many(vals)
            return [_Leaf(f"self.{e.attr}", esc, brace, pct)]
        if isinstance(e, ast.Call):
            return many([*e.args, *[k.value for k in e.keywords]])
        return [_Leaf(dotted(e) or type(e).__name__, esc, brace, pct)]


    def _record_fields(self, base: ast.AST, fn: FunctionInfo, at, field: str, depth: int):
        """[(expression stored in `field`, function it is evaluated in, node)] for every record construction that can
        reach `base`; None when `base` is not (only) a record of a package class with declared fields."""
        if depth < 0:
            return None
        prog = self.an.prog
        base = unwrap(base)
        g, d, _ = self.ctx[fn.qualname]
        sc = self.sc[fn.qualname]
        cands: list[tuple[ast.AST, FunctionInfo, object]] = []
        if isinstance(base, ast.Attribute) and is_name(base.value, "self"):
            vals = self.cls.attr_val.get(base.attr, [])
            if not vals:
                return None
            gi = self.ctx[self.init.qualname][0]
            for v in vals:
                at_i = next((n for n in gi.nodes if n.ast is not None and n.kind == "stmt" and any(x is v for x in ast.walk(n.ast))), None)
                cands.append((v, self.init, at_i))
        elif isinstance(base, ast.Name) and d.owner(base.id) is not None and at is not None:
            rds = sc.reaching_defs(at, base.id)
            if not rds:
                return None
            cands = [(dn.ast.value, fn, dn) for dn in rds]
        elif isinstance(base, ast.Call):
            cands = [(base, fn, at)]
        else:
            return None
        out = []
        for v, vfn, vat in cands:
            v = unwrap(v)
            if isinstance(v, ast.Call):
                ci = prog.classes.get(self.an.callee(vfn, v) or "")
                if ci is None or ci.method("__init__") is not None or not ci.attr_ann:
                    return None
                names = list(ci.attr_ann)
                if field not in names:
                    return None
                kw = next((k.value for k in v.keywords if k.arg == field), None)
                idx = names.index(field)
                val = kw if kw is not None else (v.args[idx] if idx < len(v.args) and not any(isinstance(a, ast.Starred) for a in v.args) else None)
                if val is None:
                    return None
                out.append((val, vfn, vat))
            elif isinstance(v, (ast.Name, ast.Attribute)):
                sub = self._record_fields(v, vfn, vat, field, depth - 1)
                if sub is None:
                    return None
                out += sub
            else:
                return None
        return out


NAME = ("the scope name",)


def evaluate_scope_construction(an: Analysis) -> list[dict]:
    """End-to-end evaluation of MetricsContext.scope -> ScopeMetrics(...) -> the attributes stored by __init__ for every
    combination of {logger / trace id given or not} x {no scope current, a scope current (open), a scope current
    (already completed)}.  One row per reachable constructor call:  situation, ctor node, evaluated constructor
    keywords (trace_id, logger, parent, scope) and the stored _logger / trace_id values.  Values: "GIVEN", "T1", None,
    "FRESH", ("current", <attr>), ("named", <arg>), CUR (the current scope object)."""
    cached = getattr(an, "_scope_construction", None)
    if cached is not None:
        return cached
    from ..kinds import Abs, Scenario

    prog = an.prog
    init = prog.fn(f"{SM}.__init__")
    scope = prog.fn(f"{MC}.scope")
    di = Deps(prog, init)
    smc = prog.cls(SM)
    lv = smc.attr_val.get("_logger", [])
    tv = smc.attr_val.get("trace_id", [])
    gsc = an.cfg(scope)
    gin = an.cfg(init)
    ds = Deps(prog, scope)
    ctors = calls_to(an, scope, smc.qualname)
    rows: list[dict] = []
    gets = [n for n in gsc.nodes if n.kind == "call" and an.callee(scope, n.ast) == "contextvars.ContextVar.get" and c02.contextvar_owner(an, scope, n.ast.func.value) == prog.cls(MC).qualname]  # type: ignore[union-attr]
    if not gets:
        raise AnalysisError("C19.3: MetricsContext.scope never looks the current scope up")
    CUR = Abs("ScopeMetrics", "object", tag="current")

    def stmt_node(g_: CFG, value: ast.AST):
        for n in g_.nodes:
            if n.kind == "stmt" and n.ast is not None and any(x is value for x in ast.walk(n.ast)):
                return n
        raise AnalysisError("C19.3: assignment node not found")

    n_logger, n_tid = stmt_node(gin, lv[0]), stmt_node(gin, tv[0])

    def stage(g_: CFG, deps_: Deps, fi_: FunctionInfo, params: dict[str, object], has_current: bool, parent_done: bool | None) -> Scenario:
        holder: list[Scenario] = []

        def base(e: ast.AST) -> object:
            ev = holder[0].env if holder else base
            if isinstance(e, ast.Name) and isinstance(e.ctx, ast.Load) and e.id not in params:
                # a local that starts as the current scope and is then walked along `_parent` in a loop
                defs_ = [unwrap(v) for k, v in deps_.defs(fi_, e.id) if k == "value"]
                walks = [v for v in defs_ if isinstance(v, ast.Attribute) and v.attr == "_parent" and is_name(v.value, e.id)]
                rest = [v for v in defs_ if v not in walks]
                if walks and len(rest) == 1 and len(defs_) == len(deps_.defs(fi_, e.id)) and eval_expr(rest[0], ev) is CUR:
                    return Abs("ScopeMetrics", "object", tag="another scope (an ancestor reached by walking _parent from the current scope)")
            if isinstance(e, ast.Call):
                cal = an.callee(fi_, e)
                if cal == "contextvars.ContextVar.get":
                    if has_current:
                        return CUR
                    return eval_expr(e.args[0], ev) if e.args else NOVALUE
                if cal == "logging.getLogger":
                    a = e.args[0] if e.args else next((k.value for k in e.keywords if k.arg == "name"), None)
                    av = eval_expr(a, ev) if a is not None else None
                    return ("named", av if av is not NOVALUE else ast.dump(a))
                if isinstance(e.func, ast.Attribute) and e.func.attr == "done" and isinstance(e.func.value, ast.Attribute) and eval_expr(e.func.value.value, ev) is CUR:
                    return parent_done if parent_done is not None else NOVALUE
            if isinstance(e, ast.Attribute) and fi_ is init and is_name(e.value, "self") and isinstance(e.ctx, ast.Load):
                # an attribute __init__ stored (once, in an earlier top-level statement) and reads back: `self._parent`
                vals_ = smc.attr_val.get(e.attr, [])
                top = init.node.body
                at_store = next((i_ for i_, st_ in enumerate(top) if vals_ and any(x is vals_[0] for x in ast.walk(st_)) and isinstance(st_, (ast.Assign, ast.AnnAssign))), None)
                at_use = next((i_ for i_, st_ in enumerate(top) if any(x is e for x in ast.walk(st_))), None)
                if len(vals_) == 1 and at_store is not None and at_use is not None and at_store < at_use:
                    return eval_expr(vals_[0], ev)
            if isinstance(e, ast.Attribute):
                if e.attr == "hex" and isinstance(e.value, ast.Call) and an.callee(fi_, e.value) == "uuid.uuid4":
                    return "FRESH"
                recv = eval_expr(e.value, ev)
                if recv is CUR:
                    return _attr_of_current(prog, smc, CUR, e.attr)
                if isinstance(recv, Abs) and recv.tag.startswith("another scope"):
                    return NOVALUE if e.attr == "_parent" else (recv.tag, e.attr)
                if isinstance(recv, tuple) and len(recv) == 2 and recv[0] == "current" and recv[1] == "_parent":
                    return ("another scope (the current scope's parent)", e.attr)
            if isinstance(e, ast.Compare) and len(e.ops) == 1 and isinstance(e.ops[0], (ast.Is, ast.IsNot)) and isinstance(e.comparators[0], ast.Constant) and e.comparators[0].value is None:
                v = eval_expr(e.left, ev)
                if v is not NOVALUE:
                    return (v is None) == isinstance(e.ops[0], ast.Is)
            return NOVALUE

        def edge(a, b, lab):
            if a in gets and not a.ast.args and not a.ast.keywords:  # type: ignore[union-attr]
                return (lab in ("exc", "reraise")) if has_current else (lab not in ("exc",))
            return False

        sc = Scenario(g_, deps_, base, params=params, edge=edge if g_ is gsc else None, defer=True)
        holder.append(sc)
        return sc.solve()

    for given_logger in ("GIVEN", None):
        for given_tid in ("T1", None):
            for has_current, parent_done in ((False, None), (True, False), (True, True)):
                situation = ("no scope current" if not has_current else f"a scope current ({'already completed' if parent_done else 'open'})") + f", logger {'given' if given_logger else 'not given'}, trace id {'given' if given_tid else 'not given'}"
                sc1 = stage(gsc, ds, scope, {"trace_id": given_tid, "logger": given_logger, scope.param_names()[1]: NAME}, has_current, parent_done)
                live = [n for n in gsc.nodes if n.kind == "call" and n.ast in ctors and n.id in sc1.reach]
                if not live:
                    rows.append({"situation": situation, "ctor": None, "kw": {}, "logger": None, "trace_id": None, "given_logger": given_logger, "given_tid": given_tid, "has_current": has_current, "parent_done": parent_done})
                    continue
                for cn in live:
                    kw = {k.arg: sc1.value_at(cn, k.value) for k in cn.ast.keywords if k.arg}  # type: ignore[union-attr]
                    if any(kw.get(k, NOVALUE) is NOVALUE for k in ("trace_id", "logger", "parent", "scope")):
                        raise AnalysisError(f"C19.3: cannot evaluate the ScopeMetrics(...) arguments at {scope.short}:{cn.line} with {situation}")
                    sc2 = stage(gin, di, init, {"trace_id": kw["trace_id"], "logger": kw["logger"], "parent": kw["parent"], "scope": kw["scope"]}, has_current, parent_done)
                    fl, ft = sc2.value_at(n_logger, lv[0]), sc2.value_at(n_tid, tv[0])
                    if fl is NOVALUE or ft is NOVALUE:
                        raise AnalysisError(f"C19.3: cannot evaluate the stored logger / trace id with {situation}")
                    rows.append({"situation": situation, "ctor": cn, "kw": kw, "logger": fl, "trace_id": ft, "given_logger": given_logger, "given_tid": given_tid, "has_current": has_current, "parent_done": parent_done, "CUR": CUR})
    an._scope_construction = rows  # type: ignore[attr-defined]
    return rows


def _show(v: object) -> str:
    if v == "GIVEN":
        return "the given logger"
    if v == "T1":
        return "the given trace id"
    if v == "FRESH":
        return "a fresh uuid4().hex"
    if isinstance(v, tuple) and v and v[0] == "current":
        return f"the current scope's {v[1]}"
    if isinstance(v, tuple) and len(v) == 2 and isinstance(v[0], str) and v[0].startswith("another scope"):
        return f"{v[1]} of {v[0]}"
    if isinstance(v, tuple) and v and v[0] == "named":
        return "getLogger(<scope name>)" if v[1] == ("the scope name",) else f"getLogger({v[1]})"
    return repr(v)


def _attr_of_current(prog, smc, cur, attr: str) -> object:
    """Value of <current scope>.<attr>: a stored attribute, or a public property of ScopeMetrics that is a plain alias
    of one; a property that walks `_parent` yields another scope."""
    from ..kinds import Abs

    for m in smc.methods.get(attr, []):
        if "property" not in m.decorator_names():
            continue
        sn = prog.self_name(m)
        me = sn[0] if sn else "self"
        rets = [r for r in m.own_nodes() if isinstance(r, ast.Return)]
        if len(rets) == 1 and len([x for x in m.node.body if not (isinstance(x, ast.Expr) and isinstance(x.value, ast.Constant))]) == 1:
            v = unwrap(rets[0].value)
            if isinstance(v, ast.Attribute) and is_name(v.value, me):
                return _attr_of_current(prog, smc, cur, v.attr)
            if is_name(v, me):
                return cur
        if any(isinstance(x, ast.Attribute) and x.attr == "_parent" for x in m.own_nodes()):
            return Abs("ScopeMetrics", "object", tag=f"another scope (reached through _parent by the `{attr}` property)")
        return NOVALUE
    return ("current", attr)
