"""C19 - context log lines go to the scope's logger tagged with an inherited trace id."""

from __future__ import annotations

import ast

from .. import AnalysisError
from ..astutil import Deps, is_name, unwrap
from ..cfg import CFG
from ..engine import Analysis
from ..kinds import NOVALUE, call_nodes, calls_to, eval_expr, forwards_varargs
from ..loader import FunctionInfo, dotted, parent, stmt_text
from . import c02

ASSUMPTIONS = [
    "API_FACT 9: Logger.log(level, fmt, *args) %-formats fmt only when args is non-empty; a formatting error loses the line",
    "what logging handlers do with a record is not analysed",
    "uuid4().hex is fresh",
]

SM = "context.metrics.ScopeMetrics"
MC = "context.metrics.MetricsContext"
LEVELS = {"log_error": "logging.ERROR", "log_warning": "logging.WARNING", "log_info": "logging.INFO", "log_debug": "logging.DEBUG"}


def check(an: Analysis) -> None:
    prog = an.prog
    slog = prog.fn(f"{SM}.log")
    init = prog.fn(f"{SM}.__init__")
    scope = prog.fn(f"{MC}.scope")
    di = Deps(prog, init)

    # ------------------------------------------------------------------ C19.1 levels and forwarding (x8 + x4)
    ob1 = an.ob("C19.1", "K12+K5", "MetricsContext.log_* pass the level constant matching their name on both branches and forward message, *args (+ exception); ctx.log_* forward to the same-named method", [f"{MC}.{n}" for n in LEVELS])
    ob2 = an.ob("C19.2", "K4", "the root logger (getLogger() without a name) is used only in the LookupError handler (no current scope) and receives the message untagged; there is no other handler", [f"{MC}.{n}" for n in LEVELS])
    for name, level in LEVELS.items():
        f = prog.fn(f"{MC}.{name}")
        g = an.cfg(f)
        va = f.node.args.vararg.arg if f.node.args.vararg else None
        has_exc = "exception" in f.param_names()
        msg = f.param_names()[1]
        scoped = calls_to(an, f, slog.qualname)
        root = [c for c in f.own_nodes() if isinstance(c, ast.Call) and an.callee(f, c) == "logging.Logger.log" and isinstance(c.func.value, ast.Call) and an.callee(f, c.func.value) == "logging.getLogger"]  # type: ignore[union-attr]
        if len(scoped) != 1 or len(root) != 1:
            ob1.fail(f, None, f"{name}: expected one scoped and one root-logger emission, found {len(scoped)} / {len(root)}")
            continue
        for c, exc_kw in ((scoped[0], "exception"), (root[0], "exc_info")):
            ob1.inst(f, c)
            lv = c.args[0] if c.args else None
            if prog.resolve_dotted(f, lv) != level:
                ob1.fail(f, c, f"{name} emits at `{stmt_text(lv)}` instead of {level.rsplit('.', 1)[1]}")
            ok = len(c.args) == 3 and is_name(c.args[1], msg) and isinstance(c.args[2], ast.Starred) and is_name(c.args[2].value, va)
            if not ok:
                ob1.fail(f, c, f"{name} does not forward (message, *args) unchanged")
            ev = next((k.value for k in c.keywords if k.arg == exc_kw), None)
            if has_exc and not is_name(ev, "exception"):
                ob1.fail(f, c, f"{name} drops the exception (stack trace not recorded)")
        # scoped emission goes to the current scope
        recv = scoped[0].func.value  # type: ignore[union-attr]
        if not (isinstance(recv, ast.Call) and an.callee(f, recv) == "contextvars.ContextVar.get" and c02.contextvar_owner(an, f, recv.func.value) == prog.cls(MC).qualname and not recv.args):  # type: ignore[union-attr]
            ob1.fail(f, scoped[0], "the message is not logged through the scope current in the calling task")
        # ---- C19.2
        hs = [h for h in f.own_nodes() if isinstance(h, ast.ExceptHandler)]
        ob2.inst(f, root[0])
        if len(hs) != 1 or set(g.handler_classes(hs[0])) != {"LookupError"}:
            ob2.fail(f, hs[0] if hs else None, f"{name}: handlers {[g.handler_classes(h) for h in hs]} - only `except LookupError` (no current scope) may divert a message to the root logger")
        else:
            from ..loader import within

            if not within(root[0], hs[0]):
                ob2.fail(f, root[0], "the root logger is used although a scope may be current")
            if within(scoped[0], hs[0]):
                ob2.fail(f, scoped[0], "scoped logging happens only in the fallback")
        if root[0].func.value.args or root[0].func.value.keywords:  # type: ignore[union-attr]
            ob2.fail(f, root[0], "outside any scope messages must go to the *root* logger")
        # ctx.log_* forwarding
        cf = prog.fn(f"context.access.ctx.{name}")
        cva = cf.node.args.vararg.arg if cf.node.args.vararg else None
        cc = calls_to(an, cf, f.qualname)
        if len(cc) != 1:
            ob1.fail(cf, None, f"ctx.{name} does not delegate to MetricsContext.{name}")
        for c in cc:
            ob1.inst(cf, c)
            ok = len(c.args) == 2 and is_name(c.args[0], cf.param_names()[0]) and isinstance(c.args[1], ast.Starred) and is_name(c.args[1].value, cva)
            ev = next((k.value for k in c.keywords if k.arg == "exception"), None)
            if not ok or ("exception" in cf.param_names() and not is_name(ev, "exception")):
                ob1.fail(cf, c, f"ctx.{name} does not forward (message, *args, exception=exception)")

    # ------------------------------------------------------------------ C19.3 which logger
    ob = an.ob("C19.3", "K5", "logger = the given one, else (nested) the current scope's, else getLogger(<scope name>)", [f"{SM}.__init__", f"{MC}.scope"])
    lv = prog.cls(SM).attr_val.get("_logger", [])
    if len(lv) != 1:
        raise AnalysisError("C19.3: expected one assignment of ScopeMetrics._logger")
    ob.inst(init, lv[0])

    def ev_logger(given):
        def env(e: ast.AST):
            if is_name(e, "logger"):
                return given
            if isinstance(e, ast.Call) and an.callee(init, e) == "logging.getLogger":
                a = e.args[0] if e.args else next((k.value for k in e.keywords if k.arg == "name"), None)
                return ("named", ast.dump(a) if a is not None else None)
            return NOVALUE

        return eval_expr(lv[0], env)

    if ev_logger("GIVEN") != "GIVEN":
        ob.fail(init, lv[0], "a logger given to the scope is not the one used")
    fb = ev_logger(None)
    if not (isinstance(fb, tuple) and fb[0] == "named" and fb[1] == ast.dump(ast.Name(id="scope", ctx=ast.Load()))):
        ob.fail(init, lv[0], "without a given logger the scope does not use getLogger(<scope name>)")
    ds = Deps(prog, scope)
    ctors = calls_to(an, scope, prog.cls(SM).qualname)
    nested = [c for c in ctors if any(k.arg == "parent" and not (isinstance(k.value, ast.Constant) and k.value.value is None) for k in c.keywords)]
    rootc = [c for c in ctors if c not in nested]
    if len(nested) != 1 or len(rootc) != 1:
        raise AnalysisError(f"C19.3: expected one nested and one root ScopeMetrics construction in MetricsContext.scope, found {len(nested)}/{len(rootc)}")
    for c in ctors:
        ob.inst(scope, c)
    nl = next((k.value for k in nested[0].keywords if k.arg == "logger"), None)

    def ev_nested(e, **vals):
        def env(x: ast.AST):
            if isinstance(x, ast.Name) and x.id in vals:
                return vals[x.id]
            if isinstance(x, ast.Attribute) and isinstance(x.value, ast.Name) and "call:contextvars.ContextVar.get" in ds.origins(x.value):
                return ("current", x.attr)
            return NOVALUE

        return eval_expr(e, env) if e is not None else NOVALUE

    if ev_nested(nl, logger="GIVEN") != "GIVEN":
        ob.fail(scope, nested[0], "a logger given to a nested scope is not the one used")
    if ev_nested(nl, logger=None) != ("current", "_logger"):
        ob.fail(scope, nested[0], "a nested scope without own logger does not use the enclosing scope's logger")
    rl = next((k.value for k in rootc[0].keywords if k.arg == "logger"), None)
    if not is_name(rl, "logger"):
        ob.fail(scope, rootc[0], "the outermost scope does not receive the given logger")
    gsc = an.cfg(scope)
    lookup_handlers = [n for n in gsc.nodes if n.kind == "handler" and set(gsc.handler_classes(n.ast)) <= {"LookupError"}]  # type: ignore[arg-type]
    rn = [n for n in gsc.nodes if n.kind == "call" and n.ast is rootc[0]]
    for n in rn:
        w = gsc.ordered(lambda x: x in lookup_handlers, lambda x, n=n: x is n)
        if w is not None:
            ob.fail(scope, rootc[0], "a parent-less scope (fresh trace id, logger named after itself) can be built although a scope is current - e.g. when the enclosing scope has already completed: logger and trace id are then not inherited", CFG.show_path(w))
    for c in ctors:
        nm = next((k.value for k in c.keywords if k.arg == "scope"), None)
        if not is_name(nm, scope.param_names()[1]):
            ob.fail(scope, c, "the scope name is not passed on")

    # ------------------------------------------------------------------ C19.4 trace id inheritance
    ob = an.ob("C19.4", "K5", "nested scope: trace id = the given one, else the enclosing scope's; outermost: the given one, else fresh uuid4().hex; identifier always fresh", [f"{MC}.scope", f"{SM}.__init__"])
    nt = next((k.value for k in nested[0].keywords if k.arg == "trace_id"), None)
    ob.inst(scope, nested[0], "nested trace id")
    if ev_nested(nt, trace_id="T1") != "T1":
        ob.fail(scope, nested[0], "a trace id given to a nested scope is not used")
    if ev_nested(nt, trace_id=None) != ("current", "trace_id"):
        ob.fail(scope, nested[0], "a nested scope without own trace id does not inherit the enclosing scope's trace id (it gets a fresh one)")
    rt = next((k.value for k in rootc[0].keywords if k.arg == "trace_id"), None)
    if not is_name(rt, "trace_id"):
        ob.fail(scope, rootc[0], "the outermost scope does not receive the given trace id")
    tv = prog.cls(SM).attr_val.get("trace_id", [])
    iv = prog.cls(SM).attr_val.get("identifier", [])
    if len(tv) != 1 or len(iv) != 1:
        raise AnalysisError("C19.4: expected one assignment each of ScopeMetrics.trace_id / identifier")
    ob.inst(init, tv[0], "trace_id")
    ob.inst(init, iv[0], "identifier")

    def ev_tid(given):
        def env(e: ast.AST):
            if is_name(e, "trace_id"):
                return given
            if isinstance(e, ast.Attribute) and e.attr == "hex" and isinstance(e.value, ast.Call) and an.callee(init, e.value) == "uuid.uuid4":
                return "FRESH"
            return NOVALUE

        return eval_expr(tv[0], env)

    if ev_tid("T1") != "T1":
        ob.fail(init, tv[0], "a given trace id is replaced")
    if ev_tid(None) != "FRESH":
        ob.fail(init, tv[0], "an outermost scope without trace id does not get a fresh one")
    if not (isinstance(iv[0], ast.Attribute) and iv[0].attr == "hex" and isinstance(iv[0].value, ast.Call) and an.callee(init, iv[0].value) == "uuid.uuid4"):
        ob.fail(init, iv[0], "the scope identifier is not a fresh uuid4().hex")

    # ------------------------------------------------------------------ C19.5 tag contents and emission
    ob = an.ob("C19.5", "K5", "the prefix carries trace id, identifier and (when non-empty) the scope name; ScopeMetrics.log emits `<prefix> <message>` through self._logger.log(level, ..., *args, exc_info=exception)", [f"{SM}.__init__", f"{SM}.log"])
    pv = prog.cls(SM).attr_val.get("_logger_prefix", [])
    if len(pv) != 1:
        raise AnalysisError("C19.5: expected one assignment of ScopeMetrics._logger_prefix")
    ob.inst(init, pv[0])

    def prefix_parts(e: ast.AST) -> set[str]:
        return {dotted(n) or "" for n in ast.walk(e) if isinstance(n, (ast.Attribute, ast.Name))}

    from ..kinds import Scenario

    gi_ = an.cfg(init)

    def ev_prefix(named: bool) -> set[str] | None:
        def base(x: ast.AST):
            if is_name(x, "scope"):
                return "name" if named else ""
            return NOVALUE

        sc = Scenario(gi_, di, base)
        exprs: list[ast.AST] = [pv[0]]
        for _ in range(4):
            nxt: list[ast.AST] = []
            changed = False
            for e in exprs:
                e = unwrap(e)
                if isinstance(e, ast.IfExp):
                    t = eval_expr(e.test, sc.env)
                    if t is NOVALUE:
                        return None
                    nxt.append(e.body if t else e.orelse)
                    changed = True
                elif isinstance(e, ast.Name) and di.owner(e.id) is not None and sc.values_of(e.id):
                    nxt.extend(sc.values_of(e.id))
                    changed = True
                else:
                    nxt.append(e)
            exprs = nxt
            if not changed:
                break
        parts: set[str] = set()
        for e in exprs:
            parts |= {x for x in prefix_parts(e)}
            # names inside an inlined helper are substituted parameters: keep their origins too
            for n in ast.walk(e):
                if isinstance(n, ast.Name):
                    oo = di.origins(n)
                    if "param:scope" in oo:
                        parts.add("scope")
                    parts |= {o[5:] for o in oo if o.startswith("attr:")}
        return parts

    for named in (True, False):
        parts = ev_prefix(named)
        if parts is None:
            raise AnalysisError("C19.5: unrecognised prefix expression")
        need = {"self.trace_id", "self.identifier"} | ({"scope"} if named else set())
        if not need <= parts:
            ob.fail(init, pv[0], f"log prefix of a {'named' if named else 'nameless'} scope lacks {sorted(need - parts)}")
    emits = calls_to(an, slog, "logging.Logger.log")
    dl = Deps(prog, slog)
    lp = slog.param_names()
    if len(emits) != 1:
        ob.fail(slog, None, f"ScopeMetrics.log emits {len(emits)} records per call (must be exactly one)")
    else:
        from ..kinds import normal_only

        gl = an.cfg(slog)
        en = [n for n in gl.nodes if n.kind == "call" and n.ast is emits[0]]
        w = gl.must_pass(lambda n: n in en, exits=("exit-return",), skip_edge=normal_only)
        if w is not None:
            ob.fail(slog, emits[0], "a path through ScopeMetrics.log returns without handing the record to the logger (level filtering belongs to the logger at call time): a message the logger would accept is lost", CFG.show_path(w))
    for c in emits:
        ob.inst(slog, c)
        if dotted(c.func.value) != "self._logger":  # type: ignore[union-attr]
            ob.fail(slog, c, "the record does not go to the scope's logger")
        ok = len(c.args) == 3 and is_name(c.args[0], lp[1]) and isinstance(c.args[2], ast.Starred) and is_name(c.args[2].value, slog.node.args.vararg.arg)
        ev = next((k.value for k in c.keywords if k.arg == "exc_info"), None)
        if not ok or not is_name(ev, "exception"):
            ob.fail(slog, c, "level / *args / exception are not passed on to the logger unchanged")
        fmt = dl.inline(c.args[1]) if len(c.args) > 1 else None
        dd = dl.of(c.args[1]) if len(c.args) > 1 else frozenset()
        if not ("attr:self._logger_prefix" in dd and f"param:{lp[2]}" in dd):
            ob.fail(slog, c, "the emitted text does not contain both the scope prefix and the message")
        elif isinstance(fmt, ast.JoinedStr):
            order = []
            for v in fmt.values:
                if isinstance(v, ast.FormattedValue):
                    dv = dl.of(v.value)
                    order.append("prefix" if "attr:self._logger_prefix" in dv else ("message" if f"param:{lp[2]}" in dv else ""))
            order = [o for o in order if o]
            if order[:1] != ["prefix"] or "message" not in order:
                ob.fail(slog, c, "the message is not prefixed by the scope tag")

    # ------------------------------------------------------------------ C19.6 formatting characters in the tag
    ob = an.ob("C19.6", "taint K5+K10", "scope name / trace id (untrusted text) never reach the %-format string of Logger.log unescaped when format arguments are passed (API_FACT 9)", [f"{SM}.log"])
    gl_ = an.cfg(slog)
    argsname = slog.node.args.vararg.arg

    def base_args(x: ast.AST):
        if is_name(x, argsname):
            return ["arg"]
        return NOVALUE

    sc_args = Scenario(gl_, dl, base_args)
    for c in emits:
        ob.inst(slog, c)
        if len(c.args) > 1 and _tainted(dl, c.args[1], argsname, sc_args):
            ob.fail(slog, c, "a `%` in the scope name or trace id corrupts %-formatting when the message has arguments: the line is lost (e.g. scope '100%s done', ctx.log_info('x %s', 'y'))")


def _tainted(d: Deps, e: ast.AST, args_name: str, sc, depth: int = 6) -> bool:
    """Can the raw prefix reach this (format-position) expression when *args is non-empty?
    `sc` is the Scenario 'args is non-empty' of ScopeMetrics.log (selects the reachable definitions of locals)."""
    e = unwrap(e)
    if depth < 0 or e is None:
        return True
    if isinstance(e, ast.Attribute) and dotted(e) == "self._logger_prefix":
        return True
    if isinstance(e, ast.Call) and isinstance(e.func, ast.Attribute) and e.func.attr == "replace" and len(e.args) == 2:
        a, b = e.args
        if isinstance(a, ast.Constant) and a.value == "%" and isinstance(b, ast.Constant) and b.value == "%%":
            return False
    if isinstance(e, ast.IfExp):
        t = eval_expr(e.test, sc.env)
        if t is NOVALUE:
            return _tainted(d, e.body, args_name, sc, depth - 1) or _tainted(d, e.orelse, args_name, sc, depth - 1)
        return _tainted(d, e.body if t else e.orelse, args_name, sc, depth - 1)
    if isinstance(e, ast.Name):
        vals = sc.values_of(e.id)
        if not vals:
            sv = d.single_value(e.id)
            vals = [sv] if sv is not None else []
        return any(_tainted(d, v, args_name, sc, depth - 1) for v in vals)
    if isinstance(e, (ast.JoinedStr, ast.BinOp, ast.FormattedValue, ast.Call, ast.BoolOp)):
        return any(_tainted(d, ch, args_name, sc, depth - 1) for ch in ast.iter_child_nodes(e) if isinstance(ch, ast.expr))
    return False
