"""C05 - State construction accepts exactly conforming values and stores them faithfully (structural clauses)."""

from __future__ import annotations

import ast

from .. import AnalysisError
from ..astutil import Deps, is_name, unwrap
from ..cfg import CFG
from ..cfg import exc_is_sub as exc_is_sub_
from ..domains import CompShape
from ..engine import Analysis
from ..kinds import NOVALUE, calls_to, classify_handler, normal_only, scenario
from ..kinds import both as both_
from ..loader import FunctionInfo, dotted, parent, stmt_text, within
from .c04 import CONTAINER_VALIDATORS, is_kwarg_lookup, container_validators, conversion, factory_closures, multi_validator_names

ASSUMPTIONS = [
    "NARROW CLAIM: 'construction succeeds exactly when every value conforms to its annotation' is an equivalence over an infinite value space and is NOT decided",
    "API_FACT 6: iterating a mapping yields keys; a 2-target unpack of that splits 2-element keys and raises otherwise",
    "typing.get_args(x) of an origin (list, collections.abc.Sequence, ...) is (); arguments live on the alias",
]

ST = "state.structure.State"
_CLS = type("_SomeClass", (), {"__bool__": lambda self: True})()
VAL = "state.validation"
RES = "state.attributes._resolve_attribute_annotation"


def capture_of(f: FunctionInfo, name: str) -> tuple[str, ast.pattern] | None:
    """Kind of the match capture that binds `name`: ('star', MatchStar) / ('rest', MatchMapping)."""
    for n in f.own_nodes():
        if isinstance(n, ast.MatchStar) and n.name == name:
            return "star", n
        if isinstance(n, ast.MatchMapping) and n.rest == name:
            return "rest", n
    return None


def _merge_components(e: ast.AST | None) -> list[ast.AST]:
    """Operands of a mapping merge in winning order ({**a, **b}, a | b, dict(a, **b)); [e] otherwise."""
    e = unwrap(e)
    if isinstance(e, ast.Dict) and e.keys and any(k is None for k in e.keys):
        out: list[ast.AST] = []
        for k, v in zip(e.keys, e.values):
            out.extend(_merge_components(v) if k is None else [v])
        return out
    if isinstance(e, ast.BinOp) and isinstance(e.op, ast.BitOr):
        return _merge_components(e.left) + _merge_components(e.right)
    if isinstance(e, ast.Call) and is_name(e.func, "dict") and len(e.args) == 1 and any(k.arg is None for k in e.keywords):
        out = _merge_components(e.args[0])
        for k in e.keywords:
            out.extend(_merge_components(k.value) if k.arg is None else [k.value])
        return out
    return [e] if e is not None else []


def _builder_alias_loses(an: Analysis, rf: FunctionInfo, drf: Deps, call: ast.Call, bfn: FunctionInfo) -> list[ast.AST]:
    """For a helper that assembles the type parameters of an alias value from the enclosing ones and the alias' own arguments:
    the statements through which an alias binding would lose against an enclosing binding of the same name.  The helper's
    parameters are classified by what the call passes (get_args(...) of the alias / the enclosing mapping); the returned
    mapping must start from the enclosing bindings and take the alias' ones by overriding stores, or be a display / merge
    whose last component is the alias' (judged by _merge_components)."""
    a = bfn.node.args
    pos = [p.arg for p in a.posonlyargs + a.args]
    given: dict[str, ast.AST] = dict(zip(pos, call.args))
    for k in call.keywords:
        if k.arg is None:
            raise AnalysisError(f"C05.13: cannot follow ** arguments into {bfn.short}")
        given[k.arg] = k.value
    alias_params = {p for p, v in given.items() if "call:typing.get_args" in drf.of(v) or any(isinstance(x, ast.Attribute) and x.attr == "__type_params__" for x in ast.walk(v))}
    enclosing = {p for p, v in given.items() if p not in alias_params and "param:type_parameters" in drf.of(v)}
    db = Deps(an.prog, bfn)
    out: list[ast.AST] = []
    rets = [r for r in bfn.own_nodes() if isinstance(r, ast.Return) and r.value is not None]
    if not rets:
        raise AnalysisError(f"C05.13: {bfn.short} returns nothing")

    def from_alias(e: ast.AST) -> bool:
        return any(f"param:{p}" in db.of(e) for p in alias_params)

    def from_enclosing_only(e: ast.AST) -> bool:
        return any(f"param:{p}" in db.of(e) for p in enclosing) and not from_alias(e)

    for r in rets:
        v = unwrap(r.value)
        if not isinstance(v, ast.Name):
            parts = _merge_components(db.inline(v))
            if len(parts) > 1 and not from_alias(parts[-1]):
                out.append(r)
            continue
        defs = [d_ for k_, d_ in db.defs(bfn, v.id) if k_ == "value"]
        if len(defs) != 1:
            raise AnalysisError(f"C05.13: the mapping returned by {bfn.short} has {len(defs)} definitions")
        base = unwrap(defs[0])
        parts = _merge_components(base)
        if isinstance(base, ast.Call) and (is_name(base.func, "dict") or (isinstance(base.func, ast.Attribute) and base.func.attr == "copy")) and len(parts) == 1:
            src = base.args[0] if base.args else (base.func.value if isinstance(base.func, ast.Attribute) else None)
            starts_enclosing = src is not None and from_enclosing_only(src)
            starts_alias = src is not None and from_alias(src)
        elif isinstance(base, ast.Dict) and not base.keys:
            starts_enclosing = starts_alias = False
        else:
            starts_enclosing = all(from_enclosing_only(p_) for p_ in parts)
            starts_alias = any(from_alias(p_) for p_ in parts)
            if len(parts) > 1 and starts_alias and not from_alias(parts[-1]):
                out.append(defs[0])
        # later writes
        for n in bfn.own_nodes():
            if isinstance(n, ast.Call) and isinstance(n.func, ast.Attribute) and is_name(n.func.value, v.id):
                argv = [*n.args, *[k.value for k in n.keywords]]
                if n.func.attr == "setdefault" and any(from_alias(x) for x in argv) and starts_enclosing:
                    out.append(n)  # an enclosing binding of that name stays
                elif n.func.attr == "update" and argv and all(from_enclosing_only(x) for x in argv) and starts_alias:
                    out.append(n)  # the enclosing bindings overwrite the alias' ones
            elif isinstance(n, ast.Assign) and any(isinstance(t, ast.Subscript) and is_name(t.value, v.id) for t in n.targets):
                if from_enclosing_only(n.value) and starts_alias and not from_alias(n.targets[0].slice):  # type: ignore[union-attr]
                    out.append(n)
    return out


def check(an: Analysis) -> None:
    global _PROG
    prog = an.prog
    _PROG = prog
    _DEPS_CACHE.clear()
    init = prog.fn(f"{ST}.__init__")

    # ------------------------------------------------------------------ C05.1 validate before assign
    ob = an.ob("C05.1", "K1+K5", "every value State.__init__ stores is attribute.validated(kwargs.get(name, MISSING)); validated returns self.validator(default if value is MISSING else value); __init__ has no handler that could swallow a validation error", [f"{ST}.__init__", "state.structure.StateAttribute.validated"])
    sets = [c for c in init.own_nodes() if isinstance(c, ast.Call) and dotted(c.func) == "object.__setattr__"]
    if not sets:
        ob.fail(init, None, "State.__init__ stores nothing")
    VQ = prog.fn("state.structure.StateAttribute.validated").qualname
    for c in sets:
        ob.inst(init, c)
        loop = next((p for p in _anc(c) if isinstance(p, ast.For)), None)
        names = [t.id for t in loop.target.elts] if loop is not None and isinstance(loop.target, ast.Tuple) and all(isinstance(t, ast.Name) for t in loop.target.elts) else []
        v = unwrap(Deps(prog, init).inline(c.args[2])) if len(c.args) == 3 else None
        ok = len(names) == 2 and is_name(c.args[0], "self") and is_name(c.args[1], names[0]) and isinstance(v, ast.Call) and isinstance(v.func, ast.Attribute) and v.func.attr == "validated" and is_name(v.func.value, names[1])
        if ok:
            kwn_ = init.node.args.kwarg.arg if init.node.args.kwarg else ""
            raw = unwrap(c.args[2])
            inner = unwrap(raw.args[0]) if isinstance(raw, ast.Call) and len(raw.args) == 1 else (unwrap(v.args[0]) if len(v.args) == 1 else None)
            ok = is_kwarg_lookup(init, Deps(prog, init), inner, kwn_, names[0]) or is_kwarg_lookup(init, Deps(prog, init), unwrap(v.args[0]) if len(v.args) == 1 else None, kwn_, names[0])
        if not ok and len(names) == 2 and len(c.args) == 3:
            # `validated` written out in place: value = kwargs.get(name, MISSING); if value is MISSING: value = attribute.default;
            # store attribute.validator(value)
            raw = unwrap(c.args[2])
            if isinstance(raw, ast.Call) and isinstance(raw.func, ast.Attribute) and raw.func.attr == "validator" and is_name(raw.func.value, names[1]) and len(raw.args) == 1 and not raw.keywords and isinstance(unwrap(raw.args[0]), ast.Name) and loop is not None:
                vn = unwrap(raw.args[0]).id
                kwn_ = init.node.args.kwarg.arg if init.node.args.kwarg else ""
                dinit_ = Deps(prog, init)
                body_ = [x for x in loop.body if not (isinstance(x, ast.Expr) and isinstance(x.value, ast.Constant))]
                binds = [x for x in ast.walk(loop) if isinstance(x, ast.Name) and x.id == vn and isinstance(x.ctx, ast.Store)]
                first = body_[0] if body_ else None
                second = body_[1] if len(body_) > 1 else None
                t1 = first.targets[0] if isinstance(first, ast.Assign) and len(first.targets) == 1 else (first.target if isinstance(first, ast.AnnAssign) and first.value is not None else None)
                looked_up = is_name(t1, vn) and is_kwarg_lookup(init, dinit_, unwrap(first.value), kwn_, names[0])  # type: ignore[union-attr]
                tst = second.test if isinstance(second, ast.If) else None
                guarded = (
                    isinstance(second, ast.If)
                    and not second.orelse
                    and isinstance(tst, ast.Compare)
                    and len(tst.ops) == 1
                    and isinstance(tst.ops[0], ast.Is)
                    and is_name(tst.left, vn)
                    and "MISSING" in (dotted(tst.comparators[0]) or "")
                    and len(second.body) == 1
                    and isinstance(second.body[0], (ast.Assign, ast.AnnAssign))
                    and is_name(second.body[0].targets[0] if isinstance(second.body[0], ast.Assign) else second.body[0].target, vn)
                    and dotted(unwrap(second.body[0].value)) == f"{names[1]}.default"
                )
                ok = bool(looked_up and guarded and len(binds) == 2 and any(c is x for x in ast.walk(body_[2])) if len(body_) == 3 else False)
        if not ok:
            ob.fail(init, c, "an attribute is stored without going through attribute.validated(<the value supplied under its own name>)")
    for n in [n for n in init.own_nodes() if isinstance(n, (ast.Try, ast.With))]:
        # a try that only guards the kwargs item lookup cannot swallow a validation error
        lookup_only = isinstance(n, ast.Try) and len(n.body) == 1 and isinstance(n.body[0], (ast.Assign, ast.AnnAssign)) and not any(isinstance(x, ast.Call) for x in ast.walk(n.body[0])) and not n.finalbody
        if not lookup_only:
            ob.fail(init, n, "State.__init__ can swallow a validation error: an instance with unvalidated / missing attributes would be yielded")
    vf = prog.fn("state.structure.StateAttribute.validated")
    vp = vf.param_names()[1]
    gv = an.cfg(vf)
    dvf = Deps(prog, vf)
    from ..kinds import Scenario, eval_expr

    for missing, default_missing in ((True, False), (True, True), (False, None)):

        def env(e: ast.AST, missing=missing, default_missing=default_missing):
            if isinstance(e, ast.Compare) and len(e.ops) == 1 and isinstance(e.ops[0], (ast.Is, ast.IsNot)):
                ops = [e.left, e.comparators[0]]
                if default_missing is not None and any(dotted(x) == "self.default" for x in ops) and any("MISSING" in (dotted(x) or "") and dotted(x) != "self.default" for x in ops):
                    return default_missing if isinstance(e.ops[0], ast.Is) else (not default_missing)
                if any(is_name(x, vp) for x in ops) and any("MISSING" in (dotted(x) or "") for x in ops):
                    return missing if isinstance(e.ops[0], ast.Is) else (not missing)
            if isinstance(e, ast.Call) and (dotted(e.func) or "").endswith(("is_missing", "not_missing")) and e.args and is_name(e.args[0], vp):
                return missing if (dotted(e.func) or "").endswith("is_missing") else (not missing)
            return NOVALUE

        sc = Scenario(gv, dvf, env)
        live = [n for n in gv.nodes if n.kind == "return" and n.id in sc.reach]
        ob.inst(vf, None, f"value {'is' if missing else 'is not'} MISSING{'' if default_missing is None else (', no default' if default_missing else ', a default exists')}: {len(live)} return(s)")
        if not live:
            ob.fail(vf, None, f"validated() has no return when the value {'is' if missing else 'is not'} MISSING")
        for r in live:
            v = unwrap(r.ast.value)  # type: ignore[union-attr]
            ok = isinstance(v, ast.Call) and dotted(v.func) == "self.validator" and len(v.args) == 1 and not v.keywords
            arg = None
            if ok:
                arg = unwrap(v.args[0])
                while isinstance(arg, ast.IfExp):
                    t = eval_expr(arg.test, env)
                    if t is NOVALUE:
                        break
                    arg = unwrap(arg.body if t else arg.orelse)
                if isinstance(arg, ast.Name) and arg.id != vp:
                    vals = sc.values_of(arg.id)
                    if len(vals) == 1:
                        arg = unwrap(vals[0])
                elif isinstance(arg, ast.Name):
                    # the parameter re-bound on this path (`if value is MISSING: value = self.default`)
                    rebinds_ = [n for n in gv.nodes if n.kind == "stmt" and n.id in sc.reach and isinstance(n.ast, (ast.Assign, ast.AnnAssign)) and getattr(n.ast, "value", None) is not None and is_name(n.ast.targets[0] if isinstance(n.ast, ast.Assign) else n.ast.target, vp)]
                    if rebinds_:
                        unbound_ = gv.search([gv.entry], lambda x, r=r: x is r, skip_node=lambda x: x in rebinds_, skip_edge=sc.skip, include_start=True) is not None
                        reach_ = [dn for dn in rebinds_ if gv.search([t_ for t_, lab_ in dn.succ if lab_ not in ("exc", "reraise")], lambda x, r=r: x is r, skip_node=lambda x, dn=dn: x in rebinds_ and x is not dn, skip_edge=sc.skip, include_start=True) is not None]
                        if not unbound_ and len(reach_) == 1:
                            arg = unwrap(reach_[0].ast.value)  # type: ignore[union-attr]
                ok = (dotted(arg) == "self.default" or (default_missing is True and is_name(arg, vp))) if missing else is_name(arg, vp)
            if not ok:
                ob.fail(vf, r.ast, "validated() does not return self.validator(default if value is MISSING else value): " + ("a default would bypass validation" if missing else "a supplied value would be replaced or stored unvalidated"))

    # ------------------------------------------------------------------ C05.2 / C05.3 / C05.4 faithful element mapping
    ob2 = an.ob("C05.2", "K9", "sequence / variadic tuple / set validators: the comprehension iterates the matched container once, without filter, element = element_validator(<loop variable>)", CONTAINER_VALIDATORS)
    ob3 = an.ob("C05.3", "K9+K10", "mapping validator iterates <capture>.items() with two targets; key -> key_validator(key), value -> value_validator(value) (not crossed)", [f"{VAL}._prepare_validator_of_mapping.validator"])
    ob4 = an.ob("C05.4", "K2+K9", "fixed tuple validator: a raising `len(elements) != count` guard dominates the return; element i goes through validator i", [f"{VAL}._prepare_validator_of_tuple.validator#2"])
    cvs = container_validators(an)
    for kind, is_fixed, f in cvs:
        vparam = f.param_names()[0]
        assert f.outer is not None
        multi = multi_validator_names(f.outer)
        singles = _single_validator_names(f.outer)
        counts = {t.id for n in f.outer.own_nodes() if isinstance(n, (ast.Assign, ast.AnnAssign)) and getattr(n, "value", None) is not None and isinstance(n.value, ast.Call) and is_name(n.value.func, "len") and n.value.args and isinstance(n.value.args[0], ast.Name) and n.value.args[0].id in multi for t in (n.targets if isinstance(n, ast.Assign) else [n.target]) if isinstance(t, ast.Name)}

        def is_multi(e: ast.AST, multi=multi) -> bool:
            return isinstance(e, ast.Name) and e.id in multi

        def is_count(e: ast.AST, multi=multi, counts=counts) -> bool:
            return (isinstance(e, ast.Name) and e.id in counts) or (isinstance(e, ast.Call) and is_name(e.func, "len") and len(e.args) == 1 and is_multi(e.args[0]))

        def applies_single(call: ast.AST | None, index: int, arg: str, singles=singles) -> bool:
            return isinstance(call, ast.Call) and isinstance(call.func, ast.Name) and singles.get(call.func.id) == index and len(call.args) == 1 and not call.keywords and is_name(call.args[0], arg)

        g = an.cfg(f)
        for r in [r for r in f.own_nodes() if isinstance(r, ast.Return)]:
            ctor, sh, problem = conversion(an, f, r)
            if sh is None or not sh.ok:
                continue  # reported by C04.3
            it = unwrap(sh.iter)
            names = sh.target_names()
            if kind == "mapping":
                ob3.inst(f, r)
                cap = it.func.value if isinstance(it, ast.Call) and isinstance(it.func, ast.Attribute) and it.func.attr == "items" and not it.args else None
                if cap is None:
                    ob3.fail(f, r, f"the mapping comprehension iterates `{stmt_text(it, 40)}` - iterating a mapping yields its keys (API_FACT 6): conforming mappings are rejected or 2-character keys split into key/value")
                    src = it
                else:
                    src = cap
                if not _is_subject(f, src, vparam, want="rest"):
                    ob3.fail(f, r, "the comprehension does not run over the matched mapping")
                if sh.filtered:
                    ob3.fail(f, r, "entries are dropped by a filter")
                kv = unwrap(sh.key)
                vv = unwrap(sh.value)
                ok = len(names) == 2 and applies_single(kv, 0, names[0]) and applies_single(vv, 1, names[1])
                if not ok:
                    ob3.fail(f, r, "keys / values do not go through their own validators (crossed, dropped or re-keyed)")
                continue
            tgt = ob4 if is_fixed else ob2
            tgt.inst(f, r)
            if sh.filtered:
                tgt.fail(f, r, "elements are dropped by a filter in the comprehension")
            if is_fixed:
                el = unwrap(sh.elt)
                ok = False
                if isinstance(it, ast.Call) and is_name(it.func, "enumerate") and len(it.args) == 1 and _is_subject(f, it.args[0], vparam, want="star") and len(names) == 2:
                    ok = isinstance(el, ast.Call) and isinstance(el.func, ast.Subscript) and is_multi(el.func.value) and is_name(el.func.slice, names[0]) and len(el.args) == 1 and is_name(el.args[0], names[1])
                elif isinstance(it, ast.Call) and is_name(it.func, "zip") and len(it.args) == 2 and len(names) == 2:
                    a0, a1 = it.args
                    if is_multi(a0) and _is_subject(f, a1, vparam, want="star"):
                        ok = isinstance(el, ast.Call) and is_name(el.func, names[0]) and len(el.args) == 1 and is_name(el.args[0], names[1])
                    elif is_multi(a1) and _is_subject(f, a0, vparam, want="star"):
                        ok = isinstance(el, ast.Call) and is_name(el.func, names[1]) and len(el.args) == 1 and is_name(el.args[0], names[0])
                if not ok:
                    tgt.fail(f, r, "element i of a fixed tuple does not go through validator i over all matched elements")
                # arity guard
                rn = [n for n in g.nodes if n.kind == "return" and n.ast is r]
                guards = [n for n in g.nodes if n.kind == "test" and isinstance(n.ast, ast.Compare) and any(isinstance(x, ast.Call) and is_name(x.func, "len") and not is_count(x) for x in ast.walk(n.ast)) and any(is_count(x) for x in ast.walk(n.ast))]
                if not guards:
                    tgt.fail(f, r, "no arity guard: tuples of the wrong length are accepted (IndexError or silently truncated)")
                else:

                    def env(n_el: int):
                        def e(x: ast.AST):
                            if is_count(x):
                                return 2
                            if isinstance(x, ast.Call) and is_name(x.func, "len"):
                                return n_el
                            return NOVALUE

                        return e

                    for n_el in (1, 3):
                        w = g.search([g.entry], lambda n: n in rn, skip_edge=scenario(g, env(n_el)))
                        if w is not None:
                            tgt.fail(f, guards[0].ast, f"a tuple with {n_el} elements is accepted where 2 are declared", CFG.show_path(w))
                    w = g.search([g.entry], lambda n: n in rn, skip_edge=scenario(g, env(2)))
                    if w is None:
                        tgt.fail(f, guards[0].ast, "a tuple of the declared length is rejected")
            else:
                if not _is_subject(f, it, vparam, want="star"):
                    tgt.fail(f, r, "the comprehension does not run over the matched container")
                el = unwrap(sh.elt)
                if not (len(names) == 1 and applies_single(el, 0, names[0])):
                    tgt.fail(f, r, "elements do not go through element_validator(<element>) one to one")

    # ------------------------------------------------------------------ C05.5 union
    fcs = factory_closures(an)
    if "union" not in fcs or "type" not in fcs:
        raise AnalysisError("C05.5: the VALIDATORS table has no union / type entry")
    if len(fcs["union"][1]) != 1:
        raise AnalysisError("C05.5: expected one validator closure in the union factory")
    uf = fcs["union"][1][0]
    gu = an.cfg(uf)
    ob = an.ob("C05.5", "K2", "union validator returns the first alternative that does not raise and raises when none matched (no value is yielded from the handler, no fall-through)", [uf.short])
    # alternatives are tried in the order they are written in the annotation (the first one that accepts wins: `Sequence[T] | Any`
    # converts a list, `Any | Sequence[T]` would hand it back mutable) - and element i of a fixed tuple meets validator i
    from ..domains import comp_of as _comp_of

    for kind_o in ("union", "tuple"):
        if kind_o not in fcs:
            continue
        fac_o = fcs[kind_o][0]
        dfo = Deps(prog, fac_o)
        ap_o = fac_o.param_names()[0]
        for name_o in sorted(multi_validator_names(fac_o)):
            sh_o = _comp_of(dfo, ast.Name(id=name_o, ctx=ast.Load()))
            if sh_o is None or not sh_o.ok:
                continue
            ob.inst(fac_o, sh_o.comp, f"{kind_o}: validators in annotation order")
            it_o = unwrap(sh_o.iter)
            while isinstance(it_o, ast.Call) and isinstance(it_o.func, ast.Name) and it_o.func.id in ("tuple", "list", "iter") and len(it_o.args) == 1:
                it_o = unwrap(it_o.args[0])
            if isinstance(it_o, ast.Name) and (sv_o := dfo.single_value(it_o.id)) is not None:
                it_o = unwrap(sv_o)
            if sh_o.filtered or dotted(it_o) != f"{ap_o}.arguments":
                ob.fail(fac_o, sh_o.comp, f"the validators of the {kind_o} are not prepared for `{ap_o}.arguments` one by one in the written order (sorted / filtered / re-ordered): a different alternative wins, or element i meets another element's validator")
    rets = [n for n in gu.nodes if n.kind == "return"]
    for r in rets:
        ob.inst(uf, r.ast)
        v = unwrap(Deps(prog, uf).inline(r.ast.value))  # type: ignore[union-attr]
        loop = next((p for p in _anc(r.ast) if isinstance(p, ast.For)), None)
        ok = loop is not None and isinstance(loop.iter, ast.Name) and loop.iter.id in multi_validator_names(fcs["union"][0]) and isinstance(loop.target, ast.Name) and isinstance(v, ast.Call) and is_name(v.func, loop.target.id) and len(v.args) == 1 and is_name(v.args[0], uf.param_names()[0])
        if not ok or r.meta.get("handler") is not None:
            ob.fail(uf, r.ast, "the union validator yields something else than the result of an alternative's validator applied to the value")
    if not rets:
        ob.fail(uf, None, "the union validator never accepts")
    w = gu.search([gu.entry], lambda n: n.kind == "exit-return", skip_node=lambda n: n.kind == "return", skip_edge=normal_only)
    if w is not None:
        ob.fail(uf, None, "when no alternative matches the union validator returns None instead of raising", CFG.show_path(w))
    for h in [h for h in uf.own_nodes() if isinstance(h, ast.ExceptHandler)]:
        ob.inst(uf, h)
        if gu.handler_classes(h) != ["Exception"]:
            # a wider handler is the same thing when everything outside Exception is re-raised untouched
            from ..kinds import classify_handler_for

            passes_on = all(kind in ("reraise", "reraise-same") for cls_ in ("KeyboardInterrupt", "CancelledError", "GeneratorExit") for kind, _n, _p in classify_handler_for(gu, h, cls_))
            keeps = any(kind in ("continue", "swallow") for kind, _n, _p in classify_handler_for(gu, h, "TypeError"))
            covers = all(any(exc_is_sub_(c, hc) for hc in gu.handler_classes(h)) for c in ("TypeError", "ValueError", "ExceptionGroup"))
            if not (passes_on and keeps and covers):
                ob.fail(uf, h, f"alternatives are skipped on {gu.handler_classes(h)} instead of Exception")

    # ------------------------------------------------------------------ C05.6 annotation arguments
    rf = prog.fn(RES)
    ob = an.ob("C05.6", "K5", "_resolve_attribute_annotation applies get_args only to an annotation object (the function's annotation parameter or a capture of it), never to a capture bound from get_origin(...)", [RES])
    ann_param = rf.param_names()[0]
    n_sites = 0
    for c in [c for c in rf.own_nodes() if isinstance(c, ast.Call) and an.callee(rf, c) == "typing.get_args"]:
        n_sites += 1
        ob.inst(rf, c)
        a = c.args[0] if c.args else None
        origin = _bound_from_origin(rf, a, ann_param)
        if origin:
            ob.fail(rf, c, f"get_args is applied to `{stmt_text(a)}`, a capture of get_origin(...): origins carry no arguments, so the parameters of typing aliases are silently dropped (typing.Sequence[int] -> IndexError at class creation)")
    if n_sites < 6:
        raise AnalysisError(f"C05.6: only {n_sites} get_args call sites found (confirmed: 9)")

    # ------------------------------------------------------------------ C05.13 a parametrised type alias binds its parameters to the arguments it was given
    ob = an.ob("C05.13", "K5", "when the origin of a generic alias is a TypeAliasType (frozenlist[int], Pairs[T]) the alias value is resolved with type parameters that include the alias' own arguments (get_args of the alias); with the enclosing class' parameters alone every alias parameter falls back to its bound / Any and the elements are not validated", [RES])
    drf = Deps(prog, rf)
    n_alias = 0
    for c in [c for c in rf.own_nodes() if isinstance(c, ast.Call) and an.callee(rf, c) == rf.qualname and c.args]:
        a0 = unwrap(drf.inline(c.args[0]))
        if not (isinstance(a0, ast.Attribute) and a0.attr == "__value__"):
            continue
        # is the alias object a capture of `match get_origin(<generic alias>)` ?
        if not _bound_from_origin(rf, a0.value, ann_param, where=c):
            continue
        n_alias += 1
        ob.inst(rf, c)
        tp = next((k.value for k in c.keywords if k.arg == "type_parameters"), None)
        if tp is None or "call:typing.get_args" not in drf.of(tp):
            ob.fail(rf, c, "the value of a parametrised type alias is resolved without the arguments the alias was given: its parameters resolve to their bound / Any, so e.g. `items: frozenlist[int]` accepts ('a', 'b')")
        else:
            # in a mapping merge later components win: the alias' own bindings must come last, or an
            # enclosing parameter of the same name (class Box[T]; type Many[T] = Sequence[T]; Many[int]) shadows them
            parts = _merge_components(drf.inline(tp))
            if len(parts) > 1 and "call:typing.get_args" not in drf.of(parts[-1]):
                ob.fail(rf, c, "the bindings of the alias' own parameters do not win the merge with the enclosing type parameters: an enclosing parameter of the same name shadows the argument the alias was given (class Box[T] with `items: Many[int]` validates against Box's T)")
            builder = unwrap(drf.inline(tp))
            bfn = prog.functions.get(an.callee(rf, builder) or "") if isinstance(builder, ast.Call) else None
            if bfn is not None and bfn.module is rf.module:
                # the merge written step by step in a helper: `merged = dict(<enclosing>)`, then one store per alias parameter
                for why in _builder_alias_loses(an, rf, drf, builder, bfn):
                    ob.fail(bfn, why, "the bindings of the alias' own parameters do not win the merge with the enclosing type parameters (they are added with setdefault / underneath the enclosing ones): an enclosing parameter of the same name shadows the argument the alias was given (class Box[T] with `items: Many[int]` validates against Box's T)")
    if n_alias == 0:
        ob.missing(rf, None, "the resolution of parametrised type aliases (origin is a TypeAliasType) was not found")

    # ------------------------------------------------------------------ C05.14 specialisation of generic State classes
    ob = an.ob("C05.14", "K5+K2", "State.__class_getitem__ hands the type arguments to the class it builds (type_parameters = {parameter name: argument} over cls.__type_params__ x the arguments, passed to StateMeta.__new__, which passes them on to attribute_annotations); a cached specialisation is returned only for the same (class, arguments); every path returns a class", [f"{ST}.__class_getitem__", "state.structure.StateMeta.__new__"])
    cgi = prog.fn(f"{ST}.__class_getitem__")
    dcg = Deps(prog, cgi)
    gcg = an.cfg(cgi)
    metaq = prog.fn("state.structure.StateMeta.__new__").qualname
    news = [c for c in cgi.own_nodes() if isinstance(c, ast.Call) and (an.callee(cgi, c) == metaq or (dotted(c.func) or "").endswith("StateMeta.__new__"))]
    if len(news) != 1:
        ob.missing(cgi, None, f"the specialised class is built by {len(news)} StateMeta.__new__ calls (expected one)")
    arg_p = cgi.param_names()[1] if len(cgi.param_names()) > 1 else ""
    for c in news:
        ob.inst(cgi, c)
        tp = next((k.value for k in c.keywords if k.arg == "type_parameters"), None)
        deps_tp = dcg.of(tp) if tp is not None else frozenset()
        if tp is None or f"param:{arg_p}" not in deps_tp or not any("__type_params__" in x for x in deps_tp):
            ob.fail(cgi, c, "the specialised class is built without the mapping {type parameter name: argument}: every attribute typed by a parameter validates as its bound / Any")
        bs = next((k.value for k in c.keywords if k.arg == "bases"), None)
        if bs is None or "param:cls" not in dcg.of(bs):
            ob.fail(cgi, c, "the specialised class does not derive from the generic class")
    for r in [n for n in gcg.nodes if n.kind == "return"]:
        ob.inst(cgi, r.ast)
        v = r.ast.value  # type: ignore[union-attr]
        if v is None or (isinstance(v, ast.Constant) and v.value is None):
            ob.fail(cgi, r.ast, "a path of State.__class_getitem__ returns no class")
    # the cache: looked up and stored under (cls, arguments); a hit is returned, a miss builds (scenarios)
    lookups = [n for n in gcg.nodes if n.kind == "call" and isinstance(n.ast.func, ast.Attribute) and n.ast.func.attr == "get" and isinstance(n.ast.func.value, ast.Name) and n.ast.func.value.id in cgi.module.assigns]  # type: ignore[union-attr]
    for lk in lookups:
        ob.inst(cgi, lk.ast, "specialisation cache lookup")
        kd = dcg.of(lk.ast.args[0]) if lk.ast.args else frozenset()  # type: ignore[union-attr]
        if not ({"param:cls", f"param:{arg_p}"} <= kd):
            ob.fail(cgi, lk.ast, "the cache of specialised classes is consulted with a key that lacks the class or the type arguments")
        from ..kinds import Scenario as _ScnG

        for hit in (True, False):

            def env_c(e: ast.AST, hit=hit, lk=lk):
                if e is lk.ast:
                    return _CLS if hit else None
                if isinstance(e, ast.Call) and is_name(e.func, "any"):
                    return False  # no unresolved TypeVar among the arguments
                return NOVALUE

            scg = _ScnG(gcg, dcg, env_c)
            live = [n for n in gcg.nodes if n.kind == "return" and n.id in scg.reach]
            built = [n for n in gcg.nodes if n.kind == "call" and n.ast in news and n.id in scg.reach]
            if hit and built:
                ob.fail(cgi, lk.ast, "a cached specialisation is ignored: every subscription builds a new class (Box[int] is not Box[int]; isinstance checks between equal specialisations fail)")
            if hit and any("call:" + (an.callee(cgi, lk.ast) or "") not in dcg.origins(r.ast.value) and not any(o.endswith(".get") for o in dcg.origins(r.ast.value)) for r in live):  # type: ignore[union-attr]
                ob.fail(cgi, lk.ast, "with a cached specialisation present something else is returned")
            if not hit and not built:
                ob.fail(cgi, lk.ast, "without a cached specialisation no class is built")
            if not hit and built:
                # ... and what was built is remembered under the same key: Box[int] must be one class object however often it is
                # written (isinstance / equality between instances of equal specialisations rely on it)
                cache_name = lk.ast.func.value.id  # type: ignore[union-attr]
                cstores = [n for n in gcg.nodes if n.kind == "stmt" and isinstance(n.ast, ast.Assign) and any(isinstance(t, ast.Subscript) and is_name(t.value, cache_name) for t in n.ast.targets)]
                live_rets = [n for n in gcg.nodes if n.kind == "return" and n.id in scg.reach]
                if not cstores:
                    ob.fail(cgi, lk.ast, "a freshly built specialisation is never stored in the cache: every `Box[int]` is a different class (instances of equal specialisations are unrelated: isinstance and == between them fail)")
                else:
                    w_ = gcg.must_pass(lambda n: n in cstores, starts=built, exits=("exit-return",), skip_edge=both_(scg.skip, normal_only))
                    if w_ is not None:
                        ob.fail(cgi, cstores[0].ast, "a path returns a freshly built specialisation without storing it in the cache", CFG.show_path(w_))
                    for st_ in cstores:
                        key_ = st_.ast.targets[0].slice  # type: ignore[union-attr]
                        if not ({"param:cls", f"param:{arg_p}"} <= dcg.of(key_)):
                            ob.fail(cgi, st_.ast, "the specialisation is stored under a key that lacks the class or the type arguments")
    smn = prog.fn("state.structure.StateMeta.__new__")
    dsm = Deps(prog, smn)
    aa = [c for c in smn.own_nodes() if isinstance(c, ast.Call) and an.callee(smn, c) == prog.fn("state.attributes.attribute_annotations").qualname]
    if not aa:
        ob.missing(smn, None, "StateMeta.__new__ does not resolve the attribute annotations")
    for c in aa:
        ob.inst(smn, c)
        tp = next((k.value for k in c.keywords if k.arg == "type_parameters"), None) or (c.args[1] if len(c.args) > 1 else None)
        if tp is None or "param:type_parameters" not in dsm.of(tp):
            ob.fail(smn, c, "the type parameters of a specialised State are not passed to attribute_annotations: Box[int].value validates as Any")

    # ------------------------------------------------------------------ C05.16 defaults are looked up on the class (through the MRO)
    ob = an.ob("C05.16", "K5", "the default handed to every StateAttribute is getattr(<the class type.__new__ created>, <attribute name>, MISSING): an attribute lookup through the MRO - the class body's namespace lacks the defaults inherited from base states and is almost empty for specialisations (Box[int])", ["state.structure.StateMeta.__new__"])
    saq = prog.cls("state.structure.StateAttribute").qualname
    sa_calls = [c for c in smn.own_nodes() if isinstance(c, ast.Call) and an.callee(smn, c) in (saq, saq + ".__init__")]
    if not sa_calls:
        ob.missing(smn, None, "StateMeta.__new__ builds no StateAttribute")
    for c in sa_calls:
        ob.inst(smn, c)
        dflt = next((k.value for k in c.keywords if k.arg == "default"), None) or (c.args[1] if len(c.args) > 1 else None)
        cands: list[ast.AST] = []
        if isinstance(unwrap(dflt), ast.Name):
            cands = [unwrap(v) for kind, v in dsm.defs(smn, unwrap(dflt).id) if kind == "value"]  # type: ignore[union-attr]
        if not cands and dflt is not None:
            cands = [unwrap(dflt)]
        store = parent(c)
        keyname = None
        if isinstance(store, ast.Assign) and len(store.targets) == 1 and isinstance(store.targets[0], ast.Subscript) and isinstance(store.targets[0].slice, ast.Name):
            keyname = store.targets[0].slice.id
        looked_up = False
        bad = dflt is None
        for v in cands:
            if "MISSING" in (dotted(v) or ""):
                continue
            ok = isinstance(v, ast.Call) and an.callee(smn, v) in ("builtins.getattr", "inspect.getattr_static") and len(v.args) >= 2 and any(o.endswith(".__new__") for o in dsm.origins(v.args[0]))
            if ok and keyname is not None:
                ok = is_name(v.args[1], keyname)
            if ok and len(v.args) == 3 and "MISSING" not in (dotted(unwrap(v.args[2])) or ""):
                ok = False
            looked_up = looked_up or ok
            bad = bad or not ok
        if bad or not looked_up:
            ob.fail(smn, c, "the default of an attribute is not looked up on the created class under the attribute's own name with MISSING as the fallback: inherited defaults (subclasses, every specialised generic state) are lost and construction without the argument raises / stores MISSING")

    # ------------------------------------------------------------------ C05.7 __class_getitem__ arity
    ob = an.ob("C05.7", "K5 arity", "every explicit .__class_getitem__(...) call passes exactly one positional argument (State.__class_getitem__ and typing.Generic take a single parameter; several generic arguments travel as one tuple)")
    n_sites = 0
    for fi in prog.scan_functions():
        for c in fi.own_nodes():
            if isinstance(c, ast.Call) and isinstance(c.func, ast.Attribute) and c.func.attr == "__class_getitem__":
                n_sites += 1
                ob.inst(fi, c)
                if len(c.args) != 1 or isinstance(c.args[0], ast.Starred) or c.keywords:
                    ob.fail(fi, c, "generic arguments are star-spread into __class_getitem__: every nested generic State with more than one parameter fails with TypeError")
    if n_sites == 0:
        raise AnalysisError("C05.7: no explicit __class_getitem__ call found (confirmed: 1)")
    cg = prog.fn(f"{ST}.__class_getitem__")
    if len(cg.node.args.posonlyargs + cg.node.args.args) != 2 or cg.node.args.vararg:
        ob.fail(cg, None, "State.__class_getitem__ no longer takes exactly one argument")

    # ------------------------------------------------------------------ C05.8 resolver origins <-> VALIDATORS
    ob = an.ob("C05.8", "table", "constant origins the resolver emits (NoneType, Any, UnionType, Literal) are keys of VALIDATORS; the validator factories referenced exist", [RES, f"{VAL}.VALIDATORS"])
    vm = prog.module(VAL)
    table = vm.assigns.get("VALIDATORS")
    if not isinstance(table, ast.Dict):
        raise AnalysisError("C05.8: VALIDATORS table not found")
    keys = {prog.resolve_dotted(vm, k) or dotted(k) for k in table.keys if k is not None}
    emitted = set()
    for c in [c for c in rf.own_nodes() if isinstance(c, ast.Call) and an.callee(rf, c) == prog.cls("state.attributes.AttributeAnnotation").qualname]:
        o = next((k.value for k in c.keywords if k.arg == "origin"), None)
        r = prog.resolve_dotted(rf, o) if o is not None else None
        if r is not None and not (isinstance(o, ast.Name) and prog.is_local(rf, o.id)):
            emitted.add(r)
            ob.inst(rf, c, r)
    emitted.discard("typing.TypeAliasType")  # placeholder origin, overwritten by the resolved alias before use
    for o in sorted(emitted):
        norm = {"types.NoneType": "types.NoneType", "typing.Callable": "collections.abc.Callable"}.get(o, o)
        if o not in keys and norm not in keys:
            ob.fail(rf, None, f"the resolver emits origin {o} for which VALIDATORS has no entry: every such annotation is rejected as unsupported")
    for k, v in zip(table.keys, table.values):
        r = prog.resolve_dotted(vm, v)
        if r not in prog.functions:
            ob.fail(None, v, f"VALIDATORS[{stmt_text(k)}] is not a validator factory of this module", mod=vm, at=vm.name)
    if len(table.keys) < 20:
        raise AnalysisError(f"C05.8: VALIDATORS has only {len(table.keys)} entries (confirmed: 28)")

    # ------------------------------------------------------------------ C05.9 identity validators: accept -> the value itself, otherwise raise
    obf = an.ob("C05.15", "K5", "every validator factory of the VALIDATORS table returns, on every path, a validator: one of its own one-parameter closures (or what another factory returns)", [f"{VAL}.VALIDATORS"])
    for kind_, (fac, closures) in factory_closures(an).items():
        dfac_ = Deps(prog, fac)
        names_ = {c.name for c in closures}
        rets_ = [r for r in fac.own_nodes() if isinstance(r, ast.Return)]
        obf.inst(fac, None, f"{kind_}: {len(rets_)} return(s)")
        if not rets_:
            obf.fail(fac, None, "the validator factory returns nothing")
        for r in rets_:
            v = unwrap(r.value) if r.value is not None else None
            for _hop in range(3):
                if isinstance(v, ast.Name) and v.id not in names_ and (sv := dfac_.single_value(v.id)) is not None:
                    v = unwrap(sv)
            ok = (isinstance(v, ast.Name) and v.id in names_) or (isinstance(v, ast.Call) and (an.callee(fac, v) or "").startswith(fac.module.name + "._prepare_validator"))
            if not ok:
                obf.fail(fac, r, f"the {kind_} validator factory returns `{stmt_text(v) if v is not None else 'None'}` instead of its validator: every State with such an attribute fails to validate")
    ob = an.ob("C05.9", "K8", "leaf validators (any / none / missing / literal / type / callable) return the value itself and every non-accepting path raises (no fall-through returning None)")
    for q, f in [(k, c) for k in ("any", "none", "missing", "literal", "type", "callable") if k in fcs for c in fcs[k][1]]:
        g = an.cfg(f)
        p = f.param_names()[0]
        ob.inst(f, None)
        dleaf = Deps(prog, f)
        for r in [r for r in f.own_nodes() if isinstance(r, ast.Return)]:
            rv = unwrap(r.value)
            if not (is_name(rv, p) or (isinstance(rv, ast.Name) and dleaf.origins(rv) == {f"param:{p}"})):
                # `return None` / `return MISSING` is the value itself where the path established `value is None` / `is MISSING`:
                # in the situation "the value is some other object" the return must be unreachable
                same = False
                if isinstance(rv, ast.Constant) or (isinstance(rv, (ast.Name, ast.Attribute)) and "MISSING" in (dotted(rv) or "")):
                    from ..kinds import Scenario as _ScnL

                    def other_env(e: ast.AST, rv=rv, p=p):
                        if isinstance(e, ast.Compare) and len(e.ops) == 1 and isinstance(e.ops[0], (ast.Is, ast.IsNot)):
                            ops = [unwrap(e.left), unwrap(e.comparators[0])]
                            if any(is_name(x, p) for x in ops) and any(ast.dump(x) == ast.dump(rv) for x in ops if not is_name(x, p)):
                                return isinstance(e.ops[0], ast.IsNot)
                        return NOVALUE

                    scl = _ScnL(g, dleaf, other_env)
                    rn = next((n for n in g.nodes if n.kind == "return" and n.ast is r), None)
                    same = rn is not None and rn.id not in scl.reach
                if not same:
                    ob.fail(f, r, "a leaf validator returns something else than the validated value: the stored attribute would differ from what was supplied")
        w = g.search([g.entry], lambda n: n.kind == "exit-return", skip_node=lambda n: n.kind == "return", skip_edge=normal_only)
        if w is not None:
            ob.fail(f, None, "a non-conforming value falls through and is accepted as None", CFG.show_path(w))
        if q != "any" and not [n for n in g.nodes if n.kind == "raise"]:
            ob.fail(f, None, "validator never rejects")
        if q == "literal":
            # a Literal admits every value *equal* to one of its members (a string read from a file, an int above the small-int
            # cache): membership / == over the annotation's arguments - identity would reject conforming values
            cmps = [c for c in f.own_nodes() if isinstance(c, ast.Compare) and any(is_name(x, p) or (isinstance(x, ast.Name) and dleaf.origins(x) == {f"param:{p}"}) for x in [c.left, *c.comparators])]
            if not cmps:
                ob.fail(f, None, "the literal validator never compares the value with the literal's members")
            for c in cmps:
                ob.inst(f, c)
                if not all(isinstance(o, (ast.In, ast.NotIn, ast.Eq, ast.NotEq)) for o in c.ops):
                    ob.fail(f, c, "the literal validator does not accept by equality with a member (`value in <members>`): identity / other comparisons reject conforming values that are equal but not the very constant object")
    tfac, tvs = fcs["type"]
    dfac = Deps(prog, tfac)
    ann_p = tfac.param_names()[0]

    def is_annotated_type(e: ast.AST) -> bool:
        e = unwrap(e)
        if isinstance(e, ast.Name) and (sv := dfac.single_value(e.id)) is not None:
            e = unwrap(sv)
        return isinstance(e, ast.Attribute) and e.attr == "origin" and is_name(e.value, ann_p)

    for tv in tvs:
        tests = [n for n in tv.own_nodes() if isinstance(n, ast.Call) and is_name(n.func, "isinstance")] + [n for n in tv.own_nodes() if isinstance(n, ast.MatchClass)]
        ok = bool(tests)
        for t in tests:
            if isinstance(t, ast.Call):
                ok = ok and len(t.args) == 2 and is_name(t.args[0], tv.param_names()[0]) and is_annotated_type(t.args[1])
            else:
                m = next((p_ for p_ in _anc(t) if isinstance(p_, ast.Match)), None)
                ok = ok and m is not None and is_name(m.subject, tv.param_names()[0]) and is_annotated_type(t.cls)
        if not ok:
            ob.fail(tv, tests[0] if tests else None, "the type validator does not test isinstance(value, <annotated type>)")
    for f in [c for _, _, c in cvs] + [uf]:
        g = an.cfg(f)
        w = g.search([g.entry], lambda n: n.kind == "exit-return", skip_node=lambda n: n.kind == "return", skip_edge=normal_only)
        if w is not None:
            ob.fail(f, None, "a non-matching value falls through and is accepted as None", CFG.show_path(w))
    # ------------------------------------------------------------------ C05.11 acceptance domain of the container validators
    from ..kinds import Scenario, abs_builtin

    ob = an.ob("C05.11", "K2 typed scenarios", "container validators accept the builtin containers conforming to the annotation kind and reject the others: Sequence/tuple never take str / bytes / sets / mappings / scalars, Set takes only sets, Mapping only mappings (evaluated with isinstance / sequence-pattern / mapping-pattern semantics over abstract instances)", CONTAINER_VALIDATORS)
    domain = {
        "sequence": (("list", "tuple"), ("str", "bytes", "bytearray", "set", "frozenset", "dict", "int", None)),
        "tuple": (("tuple",), ("str", "bytes", "bytearray", "set", "frozenset", "dict", "int", None)),
        "set": (("set", "frozenset"), ("list", "tuple", "str", "bytes", "dict", "int", None)),
        "mapping": (("dict",), ("list", "tuple", "str", "bytes", "set", "frozenset", "int", None)),
    }
    for kind, _fx, f in cvs:
        q = f.short
        accept, reject = domain[kind]
        g = an.cfg(f)
        dv = Deps(prog, f)
        vp = f.param_names()[0]
        rets = [n for n in g.nodes if n.kind == "return"]
        for cls_name in accept + reject:
            val = None if cls_name is None else abs_builtin(cls_name)

            def base(e: ast.AST, val=val):
                if is_name(e, vp) and isinstance(getattr(e, "ctx", None), ast.Load):
                    return val
                return NOVALUE

            sc = Scenario(g, dv, base)
            und = set(sc.undecided())
            ob.inst(f, None, f"{kind} validator: value of class {cls_name}")
            shown = "None" if cls_name is None else f"a {cls_name}"
            if cls_name in accept:
                if not any(r.id in sc.reach for r in rets):
                    ob.fail(f, None, f"{shown} is rejected where the annotation kind accepts it")
                continue
            # a test on the *length* of a sized value is satisfiable (there is a bytes / str / set of the required length):
            # it does not stand between such a value and the accepting return
            sized = cls_name in ("str", "bytes", "bytearray", "set", "frozenset", "dict", "list", "tuple")
            und = {n for n in und if not (sized and n.ast is not None and any(isinstance(x, ast.Call) and is_name(x.func, "len") for x in ast.walk(n.ast)))}
            w = g.search([g.entry], lambda n: n in rets, skip_edge=both_(sc.skip, normal_only), skip_node=lambda n: n in und)
            if w is not None:
                ob.fail(f, w[-1].ast, f"{shown} is accepted by the {kind} validator (and converted element-wise) although it does not conform to the annotation", CFG.show_path(w))
            elif any(r.id in sc.reach for r in rets):
                raise AnalysisError(f"C05.11: cannot decide whether {q} accepts {shown}: the accepting return is guarded by a test this analysis cannot evaluate ({stmt_text(next(iter(und)).ast, 60) if und else '?'})")

    # ------------------------------------------------------------------ C05.12 a supplied type argument is used as supplied
    ob = an.ob("C05.12", "K5", "the type argument bound to a TypeVar is looked up with an absent-only fallback (`.get(name, <bound or Any>)`, `in`, KeyError): the lookup result never goes through a truthiness / `is None` test, because None is a legal (falsy) type argument", [RES])
    for fi in [f for f in prog.scan_functions() if f.module.name == "haiway.state.attributes"]:
        dd = Deps(prog, fi)

        def is_lookup(e: ast.AST, dd=dd) -> bool:
            e = unwrap(e)
            if isinstance(e, ast.NamedExpr):
                return is_lookup(e.value)
            if isinstance(e, ast.Call) and isinstance(e.func, ast.Attribute) and e.func.attr == "get" and "param:type_parameters" in dd.origins(e.func.value):
                dflt = e.args[1] if len(e.args) > 1 else next((k.value for k in e.keywords if k.arg == "default"), None)
                return dflt is None or (isinstance(dflt, ast.Constant) and dflt.value is None)
            if isinstance(e, ast.Name) and isinstance(e.ctx, ast.Load):
                sv = dd.single_value(e.id)
                return sv is not None and sv is not e and is_lookup(sv)
            return False

        for n in fi.own_nodes():
            if isinstance(n, ast.Call) and isinstance(n.func, ast.Attribute) and n.func.attr == "get" and "param:type_parameters" in dd.origins(n.func.value):
                ob.inst(fi, n)
            tested: list[ast.AST] = []
            if isinstance(n, ast.BoolOp):
                tested += n.values[:-1] if isinstance(n.op, ast.Or) else n.values[:-1]
            elif isinstance(n, (ast.If, ast.IfExp, ast.While)):
                tested.append(n.test)
            elif isinstance(n, ast.UnaryOp) and isinstance(n.op, ast.Not):
                tested.append(n.operand)
            elif isinstance(n, ast.Compare) and len(n.ops) == 1 and isinstance(n.ops[0], (ast.Is, ast.IsNot, ast.Eq, ast.NotEq)) and isinstance(n.comparators[0], ast.Constant) and n.comparators[0].value is None:
                tested.append(n.left)
            for t in tested:
                if is_lookup(t):
                    ob.fail(fi, n, "a supplied type argument that is falsy (None, as in Box[None]) is treated as not supplied: the attribute resolves to the bound / Any, so non-conforming values are accepted and conforming nested generics rejected")

    ob = an.ob("C05.10", "K10", "validators are resolved from the annotation object itself: no module-level cache keyed by a rendered (str/repr/name/hash) annotation, whose rendering is not injective")
    ob.inst(None, None, f"{len([f for f in prog.scan_functions() if f.module.name.startswith('haiway.state')])} functions of haiway.state scanned")
    for fi, n in lossy_cache_uses(an):
        ob.inst(fi, n)
        ob.fail(fi, n, "a validator / annotation cache is keyed by a rendering of the annotation: different annotations that print alike (Literal[1] vs Literal['1'], two classes named alike) share a validator - conforming values are rejected and non-conforming ones accepted, depending on definition order")
    for fi, n, missing in underkeyed_memo_stores(an):
        ob.inst(fi, n)
        ob.fail(fi, n, f"a module-level memo is keyed by less than what the stored value depends on (not in the key: {', '.join(missing)}): a later resolution that differs only in those (another class's type arguments, another `Self`) is answered with the first result - conforming values are rejected and non-conforming ones accepted depending on definition order")
    av = prog.fn(f"{VAL}.attribute_validator")
    ga = an.cfg(av)
    ap = av.param_names()[0]
    for r in [r for r in av.own_nodes() if isinstance(r, ast.Return)]:
        v = unwrap(r.value)
        if not (isinstance(v, ast.Call) and len(v.args) == 1 and is_name(v.args[0], ap)):
            ob.fail(av, r, "attribute_validator returns something that is not a validator factory applied to this very annotation")
        else:
            ob.inst(av, r)
    w = ga.search([ga.entry], lambda n: n.kind == "exit-return", skip_node=lambda n: n.kind == "return", skip_edge=normal_only)
    if w is not None:
        ob.fail(av, None, "attribute_validator can return None for an unsupported annotation instead of raising", CFG.show_path(w))
    from ..engine import borrow
    from . import c20

    # C20.1: `Missing()` (which is what copy / deepcopy / pickle of the marker call) hands out the one instance - the defaults and the
    # Missing validator compare by identity, so a second instance is a non-conforming value and never triggers a default
    borrow(an, c20.check, {"C20.1": "C05.17"})


def lossy_cache_uses(an: Analysis, module_prefix: str = "haiway.state"):
    """Lookups / stores in a module-level container keyed by a *rendered* annotation (str()/repr()/f-string):
    AttributeAnnotation.__str__ is not injective (Literal[1] vs Literal["1"], same-named classes)."""
    out = []
    for fi in an.prog.scan_functions():
        if not fi.module.name.startswith(module_prefix):
            continue
        for n in fi.own_nodes():
            key = None
            base = None
            if isinstance(n, ast.Subscript):
                base, key = n.value, n.slice
            elif isinstance(n, ast.Call) and isinstance(n.func, ast.Attribute) and n.func.attr in ("get", "setdefault", "pop") and n.args:
                base, key = n.func.value, n.args[0]
            elif isinstance(n, ast.Compare) and len(n.ops) == 1 and isinstance(n.ops[0], (ast.In, ast.NotIn)):
                base, key = n.comparators[0], n.left
            if base is None or not isinstance(base, ast.Name) or an.prog.is_local(fi, base.id):
                continue
            if base.id not in fi.module.assigns:
                continue
            d = Deps(an.prog, fi)
            k = d.inline(key)
            rendered = any(
                (isinstance(x, ast.Call) and isinstance(x.func, ast.Name) and x.func.id in ("str", "repr", "format", "hash", "id"))
                or isinstance(x, ast.JoinedStr)
                or (isinstance(x, ast.Attribute) and x.attr in ("__name__", "__qualname__"))
                for x in ast.walk(k)
            )
            if rendered:
                out.append((fi, n))
    return out


def underkeyed_memo_stores(an: Analysis, module_prefix: str = "haiway.state"):
    """Stores `<module-level container>[key] = value` inside a function where `value` depends on parameters of the
    function that `key` does not depend on: the memo answers later calls that differ in those parameters with the first result."""
    out = []
    for fi in an.prog.scan_functions():
        if not fi.module.name.startswith(module_prefix):
            continue
        d = None
        for n in fi.own_nodes():
            if not (isinstance(n, ast.Assign) and len(n.targets) == 1 and isinstance(n.targets[0], ast.Subscript)):
                continue
            base = n.targets[0].value
            if not isinstance(base, ast.Name) or an.prog.is_local(fi, base.id) or base.id not in fi.module.assigns:
                continue
            d = d or Deps(an.prog, fi)
            vp = {x[6:] for x in d.of(n.value) if x.startswith("param:")}
            kp = {x[6:] for x in d.of(n.targets[0].slice) if x.startswith("param:")}
            missing = sorted(vp - kp)
            if missing:
                out.append((fi, n, missing))
    return out


def _applies(call: ast.AST | None, fname: str, arg: str) -> bool:
    return isinstance(call, ast.Call) and is_name(call.func, fname) and len(call.args) == 1 and not call.keywords and is_name(call.args[0], arg)


def _is_subject(f: FunctionInfo, e: ast.AST, vparam: str, want: str, _depth: int = 4) -> bool:
    """e is the star / rest capture of a match on the validated value - or, for sequences, the validated value itself
    reaching `e` through plain assignments (`elements = <value accepted by an isinstance guard>`, the result variable
    of an inlined acceptance helper)."""
    e = unwrap(e)
    if not isinstance(e, ast.Name):
        return False
    if want == "star" and e.id == vparam:
        return True
    if want == "star" and _depth > 0 and capture_of(f, e.id) is None:
        defs_ = _DEPS_CACHE.setdefault(id(f), Deps(_PROG, f)).defs(f, e.id) if _PROG is not None else []
        vals_ = [v for k, v in defs_ if k == "value" and not (isinstance(unwrap(v), ast.Constant) and unwrap(v).value is None and getattr(parent(v), "_inline_init", False))]
        vals_ = [v for v in vals_ if not (isinstance(unwrap(v), ast.Constant) and unwrap(v).value is None)]
        if defs_ and len([1 for k, _ in defs_ if k != "value"]) == 0 and vals_ and all(_is_subject(f, v, vparam, want, _depth - 1) for v in vals_):
            return True
    cap = capture_of(f, e.id)
    if cap is None or cap[0] != want:
        return False
    m = next((p for p in _anc(cap[1]) if isinstance(p, ast.Match)), None)
    if m is None or not is_name(m.subject, vparam):
        return False
    # the whole container must be captured: [*elements] / {**elements}
    case = next(p for p in _anc(cap[1]) if isinstance(p, ast.match_case))
    pat = case.pattern
    if want == "star":
        return isinstance(pat, ast.MatchSequence) and len(pat.patterns) == 1 and pat.patterns[0] is cap[1]
    return isinstance(pat, ast.MatchMapping) and not pat.keys and pat is cap[1]


_DEPS_CACHE: dict[int, Deps] = {}
_PROG = None


def _bound_from_origin(f: FunctionInfo, a: ast.AST | None, ann_param: str, where: ast.AST | None = None) -> bool:
    """Is `a` a name captured by a `case <name>` arm of `match get_origin(...)` (or `get_origin(x) or x`)?"""
    if not isinstance(a, ast.Name) or a.id == ann_param:
        return False
    for m in [m for m in f.own_nodes() if isinstance(m, ast.Match)]:
        subj_is_origin = any(isinstance(x, ast.Call) and (dotted(x.func) or "").endswith("get_origin") for x in ast.walk(m.subject))
        for case in m.cases:
            for pn in ast.walk(case.pattern):
                if isinstance(pn, ast.MatchAs) and pn.name == a.id and within(where if where is not None else a, case):
                    if subj_is_origin:
                        return True
    # plain assignment from get_origin
    for n in f.own_nodes():
        if isinstance(n, (ast.Assign, ast.AnnAssign, ast.NamedExpr)):
            t = n.targets[0] if isinstance(n, ast.Assign) else n.target
            if is_name(t, a.id) and n.value is not None and any(isinstance(x, ast.Call) and (dotted(x.func) or "").endswith("get_origin") for x in ast.walk(n.value)):
                return True
    return False


def _anc(n: ast.AST):
    from ..loader import ancestors

    return ancestors(n)


def liveness(fixtures: str) -> list[dict]:
    import os

    an = Analysis(os.path.join(fixtures, "c05_lossy_cache"), floors=False)
    hits = lossy_cache_uses(an)
    if len(hits) < 2:
        raise AnalysisError(f"rule C05.10 fires {len(hits)} times on its fixture, expected >= 2")
    return [{"rule": "C05.10", "fixture": "fixtures/c05_lossy_cache", "matches": len(hits)}]


def _single_validator_names(fac: FunctionInfo) -> dict[str, int]:
    """Locals of a factory holding the validator of annotation argument K: name -> K  (x = attribute_validator(annotation.arguments[K]))."""
    out: dict[str, int] = {}
    for n in fac.own_nodes():
        if isinstance(n, (ast.Assign, ast.AnnAssign)) and getattr(n, "value", None) is not None:
            v = unwrap(n.value)
            if isinstance(v, ast.Call) and is_name(v.func, "attribute_validator") and len(v.args) == 1:
                a = unwrap(v.args[0])
                if isinstance(a, ast.Subscript) and isinstance(a.value, ast.Attribute) and a.value.attr == "arguments" and isinstance(a.slice, ast.Constant) and isinstance(a.slice.value, int):
                    for t in n.targets if isinstance(n, ast.Assign) else [n.target]:
                        if isinstance(t, ast.Name):
                            out[t.id] = a.slice.value
    return out
