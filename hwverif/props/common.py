"""Well-formedness obligations shared by all properties (rule id `<prop>.W`).

A mechanism that is present but cannot execute is as good as absent: a cleanup call that lacks a
required argument, a local that is read before it was assigned on some path, an attribute that
`__init__` never sets - each turns the path it sits on into a TypeError / UnboundLocalError /
AttributeError exactly when the property needs that path (failure, cancellation, roll-back), which is
where the unit tests never go.  These are decided on the anchored functions of each property:

  W1 call arity   - every call whose callee resolves to a function/class of the package supplies all
                    required parameters and no unknown keyword (K5 arity, as for C05.7)
  W2 definite assignment - no path from ENTRY reaches a read of a local without passing an assignment
                    of it (E4 reachability with the definition nodes removed)
  W3 attribute initialisation - every `self.<private attr>` read in a method of an analysed class is
                    assigned somewhere in that class (normally __init__) or declared at class level
"""

from __future__ import annotations

import ast

from ..astutil import is_name
from ..cfg import CFG
from ..engine import Analysis, Obligation
from ..loader import ClassInfo, FunctionInfo, dotted, parent


def check_arity(an: Analysis, fi: FunctionInfo) -> list[tuple[ast.Call, str]]:
    out = []
    prog = an.prog
    for c in fi.own_nodes():
        if not isinstance(c, ast.Call):
            continue
        if any(isinstance(a, ast.Starred) for a in c.args) or any(k.arg is None for k in c.keywords):
            continue
        q = an.callee(fi, c)
        target = prog.functions.get(q or "")
        bound_self = False
        if target is None and q in prog.classes:
            ci = prog.classes[q]
            init = None
            for k in prog.mro(ci):
                init = k.method("__init__")
                if init is not None:
                    break
            if init is None:
                continue
            if any(dotted(b) and (dotted(b) or "").endswith(("NamedTuple", "State", "Protocol")) for b in ci.node.bases):
                continue
            target, bound_self = init, True
        if target is None or "@overload" in target.qualname:
            continue
        decos = set(target.decorator_names())
        if decos - {"staticmethod", "classmethod", "property"}:
            continue
        a = target.node.args
        pos = [p.arg for p in a.posonlyargs + a.args]
        n_posonly = len(a.posonlyargs)
        if target.is_method and "staticmethod" not in decos:
            # bound call: receiver fills the first parameter
            if bound_self or isinstance(c.func, ast.Attribute) or "classmethod" in decos:
                if isinstance(c.func, ast.Attribute) and not bound_self and "classmethod" not in decos:
                    t = prog.expr_type(fi, c.func.value)
                    if t is not None and t.is_class:
                        pass  # Class.method(instance, ...) - unbound call, receiver passed explicitly
                    else:
                        pos = pos[1:]
                        n_posonly = max(0, n_posonly - 1)
                else:
                    pos = pos[1:]
                    n_posonly = max(0, n_posonly - 1)
        defaults = len(a.defaults)
        required_pos = pos[: len(pos) - defaults] if defaults <= len(pos) else []
        kwonly_required = [p.arg for p, d in zip(a.kwonlyargs, a.kw_defaults) if d is None]
        kwnames = {k.arg for k in c.keywords}
        allowed_kw = set(pos[n_posonly:]) | {p.arg for p in a.kwonlyargs}
        if len(c.args) > len(pos) and not a.vararg:
            out.append((c, f"passes {len(c.args)} positional arguments, `{target.short}` takes {len(pos)}"))
            continue
        missing = [p for i, p in enumerate(required_pos) if i >= len(c.args) and p not in kwnames]
        missing += [p for p in kwonly_required if p not in kwnames]
        unknown = [k for k in kwnames if k not in allowed_kw and not a.kwarg]
        if missing:
            out.append((c, f"does not pass required parameter(s) {missing} of `{target.short}` (TypeError when this call is reached)"))
        elif unknown:
            out.append((c, f"passes unknown keyword(s) {unknown} to `{target.short}` (TypeError when this call is reached)"))
    return out


def unbound_reads(an: Analysis, fi: FunctionInfo) -> list[tuple[ast.Name, str]]:
    """Reads of a local that some path from ENTRY reaches without passing an assignment of it."""
    prog = an.prog
    g = an.cfg(fi)
    params = set(fi.param_names())
    locals_ = prog.local_names(fi) - params
    if not locals_:
        return []
    out = []
    # nodes by the names they assign / read
    def assigns(n) -> set[str]:
        a = n.ast
        names: set[str] = set()
        if n.kind == "stmt" and isinstance(a, (ast.Assign, ast.AnnAssign, ast.AugAssign)):
            if isinstance(a, ast.AnnAssign) and a.value is None:
                return names
            for t in a.targets if isinstance(a, ast.Assign) else [a.target]:
                names |= {x.id for x in ast.walk(t) if isinstance(x, ast.Name) and isinstance(x.ctx, ast.Store)}
        elif n.kind == "for-iter":
            names |= {x.id for x in ast.walk(a.target) if isinstance(x, ast.Name)}
        elif n.kind == "handler" and a.name:
            names.add(a.name)
        elif n.kind == "with-enter" and a.optional_vars is not None:
            names |= {x.id for x in ast.walk(a.optional_vars) if isinstance(x, ast.Name)}
        elif n.kind == "match-case":
            for p in ast.walk(a.pattern):
                if isinstance(p, (ast.MatchAs, ast.MatchStar)) and p.name:
                    names.add(p.name)
                elif isinstance(p, ast.MatchMapping) and p.rest:
                    names.add(p.rest)
        elif n.kind == "def":
            names.add(a.name)
        elif n.kind in ("stmt",) and isinstance(a, (ast.Import, ast.ImportFrom)):
            names |= {(al.asname or al.name).split(".")[0] for al in a.names}
        # walrus anywhere inside the node's expression
        if a is not None and n.kind in ("test", "call", "stmt", "return", "await", "comp"):
            for x in ast.walk(a):
                if isinstance(x, ast.NamedExpr):
                    names.add(x.target.id)
        return names

    assign_map = {n.id: assigns(n) for n in g.nodes}

    def reads(n) -> list[ast.Name]:
        a = n.ast
        if a is None or n.kind in ("def", "handler", "finally", "entry", "exit-return", "exit-raise", "reraise", "loop-head"):
            return []
        roots: list[ast.AST]
        if n.kind == "for-iter":
            roots = []
        elif n.kind == "with-enter" or n.kind == "with-exit":
            roots = []
        elif n.kind == "match-case":
            roots = []
        elif n.kind == "match-subject":
            roots = [a.subject]
        elif n.kind == "stmt" and isinstance(a, (ast.Assign, ast.AnnAssign, ast.AugAssign)):
            roots = [a.value] if getattr(a, "value", None) is not None else []
            if isinstance(a, ast.AugAssign):
                roots.append(a.target)
        elif n.kind in ("return", "raise"):
            roots = [x for x in (getattr(a, "value", None), getattr(a, "exc", None)) if x is not None]
        else:
            roots = [a]
        out_: list[ast.Name] = []
        for r in roots:
            stack = [r]
            while stack:
                x = stack.pop()
                if isinstance(x, (ast.Lambda, ast.FunctionDef, ast.AsyncFunctionDef, ast.ListComp, ast.SetComp, ast.DictComp, ast.GeneratorExp)):
                    if isinstance(x, (ast.ListComp, ast.SetComp, ast.DictComp, ast.GeneratorExp)):
                        stack.append(x.generators[0].iter)
                    continue
                if isinstance(x, ast.Name) and isinstance(x.ctx, ast.Load):
                    out_.append(x)
                stack.extend(ast.iter_child_nodes(x))
        return out_

    for name in sorted(locals_):
        if name.startswith("__ret_h"):
            continue
        defs = {nid for nid, names in assign_map.items() if name in names}
        users = [(n, x) for n in g.nodes for x in reads(n) if x.id == name]
        if not users:
            continue
        # reachable from ENTRY without passing a definition node
        free = g.reachable([g.entry], skip_node=lambda n, defs=defs: n.id in defs)
        for n, x in users:
            if n.id in free and n.id not in defs:
                # a node that both reads and (walrus) assigns is fine; so is a read inside the defining node
                w = g.search([g.entry], lambda m, n=n: m is n, skip_node=lambda m, defs=defs: m.id in defs)
                out.append((x, CFG.show_path(w)))
                break
    return out


def uninitialised_attrs(an: Analysis, ci: ClassInfo) -> list[tuple[FunctionInfo, ast.Attribute]]:
    prog = an.prog
    assigned: set[str] = set(ci.class_assign) | {k for k in ci.attr_ann if k in ci.class_assign}
    for c in prog.mro(ci):
        assigned |= set(c.class_assign)
        assigned |= set(c.attr_val)
        assigned |= set(c.methods)
        for s in c.node.body:
            if isinstance(s, ast.AnnAssign) and isinstance(s.target, ast.Name):
                assigned.add(s.target.id)
    # a private base class that only its subclasses in the package instantiate (shared plumbing reading what every one of them
    # sets): an attribute assigned along the MRO of *every* subclass is initialised whenever a method of the base runs
    subs = [c for c in prog.classes.values() if c is not ci and any(b is ci for b in prog.mro(c)[1:])]
    if subs and ci.name.startswith("_"):
        common: set[str] | None = None
        for sc_ in subs:
            have: set[str] = set()
            for c in prog.mro(sc_):
                have |= set(c.class_assign) | set(c.attr_val) | set(c.methods)
            common = have if common is None else (common & have)
        assigned |= common or set()
    out = []
    for name, ms in ci.methods.items():
        for m in ms:
            sn = prog.self_name(m)
            if sn is None or sn[1]:
                continue
            funcs = [m, *m.nested]
            for f in funcs:
                for n in f.own_nodes():
                    if isinstance(n, ast.Attribute) and isinstance(n.ctx, ast.Load) and is_name(n.value, sn[0]) and n.attr.startswith("_") and not n.attr.startswith("__"):
                        if n.attr not in assigned:
                            out.append((f, n))
    return out


def wellformed(an: Analysis, prop: str, functions: list[str], classes: list[str] | None = None) -> Obligation:
    ob = an.ob(
        f"{prop}.W",
        "K5 arity + E4",
        "the anchored functions can execute: every call of a package function/class supplies its required parameters; no local is read on a path "
        "that bypasses its assignment; every private attribute read is initialised by its class",
        functions,
    )
    prog = an.prog
    fis: list[FunctionInfo] = []
    for q in functions:
        f = prog.fn_opt(q)
        if f is not None:
            fis.append(f)
            fis.extend(f.nested)
    seen = set()
    for f in fis:
        if f.qualname in seen:
            continue
        seen.add(f.qualname)
        ob.inst(f, None, "arity / definite assignment")
        for c, msg in check_arity(an, f):
            ob.fail(f, c, f"call {msg}")
        for x, path in unbound_reads(an, f):
            ob.fail(f, parent_stmt(x), f"`{x.id}` can be read before it is assigned (UnboundLocalError on that path)", path)
    for cq in classes or []:
        ci = prog.classes.get(cq if cq.startswith("haiway.") else "haiway." + cq)
        if ci is None:
            continue
        ob.inst(None, ci.node, f"attribute initialisation of {ci.name}")
        for f, n in uninitialised_attrs(an, ci):
            ob.fail(f, parent_stmt(n), f"`self.{n.attr}` is read but never assigned in {ci.name} (AttributeError when this path runs)")
    return ob


def parent_stmt(n: ast.AST) -> ast.AST:
    cur = n
    while cur is not None and not isinstance(cur, ast.stmt):
        cur = parent(cur)
    return cur if cur is not None else n


PROPERTY_MODULES: dict[str, list[str]] = {
    "C01": ["context.state", "context.access", "context.disposables"],
    "C02": ["context.access", "context.state", "context.metrics", "context.tasks", "context.disposables"],
    "C03": ["context.tasks", "context.state", "context.access"],
    "C04": ["state.structure", "state.validation", "types.missing"],
    "C05": ["state.validation", "state.attributes", "state.structure"],
    "C06": ["context.tasks", "context.access"],
    "C07": ["context.tasks", "context.access"],
    "C08": ["context.disposables", "context.access"],
    "C09": ["context.metrics", "context.access"],
    "C10": ["context.metrics", "context.access"],
    "C11": ["context.access"],
    "C12": ["helpers.caching"],
    "C13": ["helpers.caching"],
    "C14": ["helpers.retries"],
    "C15": ["helpers.throttling"],
    "C16": ["helpers.timeouted"],
    "C17": ["utils.queue"],
    "C18": ["helpers.asynchrony", "helpers.tracing", "utils.mimic"],
    "C19": ["context.metrics", "context.access"],
    "C20": ["types.missing", "state.structure", "state.validation"],
}


def wellformed_for(an: Analysis, prop: str) -> Obligation:
    mods = ["haiway." + m for m in PROPERTY_MODULES[prop]]
    fns = [f.qualname for f in an.prog.scan_functions() if f.module.name in mods and f.outer is None and "@overload" not in f.qualname]
    classes = [c.qualname for c in an.prog.classes.values() if c.module.name in mods]
    return wellformed(an, prop, fns, classes)
