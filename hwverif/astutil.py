"""Small AST helpers shared by the rules: structural matching, normal forms, E5 dependency closure."""

from __future__ import annotations

import ast
from typing import Callable, Iterable, Iterator

from .loader import FunctionInfo, Program, dotted, parent, within


def clone(node):
    """Deep copy of an AST fragment by its fields only (does not follow _parent links)."""
    if isinstance(node, list):
        return [clone(x) for x in node]
    if not isinstance(node, ast.AST):
        return node
    new = type(node)()
    for f in node._fields:
        if hasattr(node, f):
            setattr(new, f, clone(getattr(node, f)))
    for a in ("lineno", "col_offset", "end_lineno", "end_col_offset", "_inline", "_inline_call", "_inline_return", "_inline_init"):
        if hasattr(node, a):
            setattr(new, a, getattr(node, a))  # (the _inline* marks of the normaliser give inlined blocks their control flow)
    return new


def unwrap(e: ast.AST | None) -> ast.AST | None:
    """Strip value-transparent wrappers: cast(T, x), await x, (x := v) -> v is *not* stripped."""
    while True:
        if isinstance(e, ast.Call) and isinstance(e.func, ast.Name) and e.func.id == "cast" and len(e.args) == 2:
            e = e.args[1]
            continue
        return e


def plain_body(body: list[ast.stmt]) -> list[ast.stmt]:
    """A statement list with the `if True:` frames the inliner leaves around an inlined helper body dissolved
    (only frames without early returns, i.e. without an orelse / jump marks)."""
    out: list[ast.stmt] = []
    for s in body:
        if isinstance(s, ast.If) and isinstance(s.test, ast.Constant) and s.test.value is True and not s.orelse and getattr(s, "_inline", False):
            out.extend(plain_body(s.body))
        else:
            out.append(s)
    return out


def is_name(e: ast.AST | None, name: str) -> bool:
    return isinstance(e, ast.Name) and e.id == name


def is_attr_of(e: ast.AST | None, base: str, attr: str | None = None) -> bool:
    """`base.attr` (attr=None: any attribute of base)."""
    return (
        isinstance(e, ast.Attribute)
        and isinstance(e.value, ast.Name)
        and e.value.id == base
        and (attr is None or e.attr == attr)
    )


def names_loaded(e: ast.AST) -> set[str]:
    return {n.id for n in ast.walk(e) if isinstance(n, ast.Name) and isinstance(n.ctx, ast.Load)}


def same(a: ast.AST | None, b: ast.AST | None) -> bool:
    if a is None or b is None:
        return a is b
    return ast.dump(a) == ast.dump(b)


def call_name(c: ast.AST) -> str | None:
    return dotted(c.func) if isinstance(c, ast.Call) else None


def kw(c: ast.Call, name: str) -> ast.expr | None:
    for k in c.keywords:
        if k.arg == name:
            return k.value
    return None


def arg_or_kw(c: ast.Call, index: int, name: str) -> ast.expr | None:
    if index < len(c.args) and not any(isinstance(a, ast.Starred) for a in c.args[: index + 1]):
        return c.args[index]
    return kw(c, name)


def const_value(e: ast.AST | None):
    return e.value if isinstance(e, ast.Constant) else _NOCONST


_NOCONST = object()


def is_const(e: ast.AST | None, value) -> bool:
    return isinstance(e, ast.Constant) and e.value is value or (isinstance(e, ast.Constant) and type(e.value) is type(value) and e.value == value)


def walk_own(fi: FunctionInfo) -> Iterator[ast.AST]:
    return fi.own_nodes()


def handlers_of(fi: FunctionInfo) -> list[ast.ExceptHandler]:
    return [n for n in fi.own_nodes() if isinstance(n, ast.ExceptHandler)]


def enclosing(node: ast.AST, kinds: tuple[type, ...], stop: ast.AST | None = None) -> ast.AST | None:
    cur = parent(node)
    while cur is not None and cur is not stop:
        if isinstance(cur, kinds):
            return cur
        cur = parent(cur)
    return None


def in_body_of(node: ast.AST, stmt: ast.AST, field: str) -> bool:
    """Is node lexically inside stmt.<field> (a list of statements / handlers)?"""
    for s in getattr(stmt, field, []) or []:
        if within(node, s):
            return True
    return False


# ---------------------------------------------------------------------- conditions normal form
def norm_cond(e: ast.expr) -> tuple:
    """Small semantic normal form of an *atomic* condition (no and/or/not at the top: the CFG
    already split those).  Returns a tuple (kind, *operands as dumps*, positive: bool).

    kinds: 'is_none' (X is None / X is not None), 'in' (X in Y), 'truthy' (bare expression),
    'cmp' (A op B with op normalised so that swapped sides compare equal), 'isinstance'.
    """
    pos = True
    while isinstance(e, ast.UnaryOp) and isinstance(e.op, ast.Not):
        pos = not pos
        e = e.operand
    if isinstance(e, ast.Compare) and len(e.ops) == 1:
        op, l, r = e.ops[0], e.left, e.comparators[0]
        if isinstance(op, (ast.Is, ast.IsNot)):
            if isinstance(r, ast.Constant) and r.value is None:
                return ("is_none", ast.dump(l), pos == isinstance(op, ast.Is))
            if isinstance(l, ast.Constant) and l.value is None:
                return ("is_none", ast.dump(r), pos == isinstance(op, ast.Is))
            return ("is", *sorted([ast.dump(l), ast.dump(r)]), pos == isinstance(op, ast.Is))
        if isinstance(op, (ast.In, ast.NotIn)):
            return ("in", ast.dump(l), ast.dump(r), pos == isinstance(op, ast.In))
        table = {ast.Lt: "<", ast.LtE: "<=", ast.Gt: ">", ast.GtE: ">=", ast.Eq: "==", ast.NotEq: "!="}
        sym = table.get(type(op))
        if sym:
            neg = {"<": ">=", "<=": ">", ">": "<=", ">=": "<", "==": "!=", "!=": "=="}
            if not pos:
                sym = neg[sym]
            flip = {"<": ">", "<=": ">=", ">": "<", ">=": "<=", "==": "==", "!=": "!="}
            a, b = ast.dump(l), ast.dump(r)
            if sym in (">", ">="):  # orient as < / <=
                a, b, sym = b, a, flip[sym]
            return ("cmp", sym, a, b, True)
    if isinstance(e, ast.NamedExpr):
        return ("truthy", ast.dump(e.value), pos, e.target.id)
    return ("truthy", ast.dump(e), pos)


def cond_mentions(e: ast.expr, pred: Callable[[ast.AST], bool]) -> bool:
    return any(pred(n) for n in ast.walk(e))


# ---------------------------------------------------------------------- E5: dependency closure
class Deps:
    """Flow-insensitive dependency closure of expressions in one function (closures included).

    Leaves:  param:<name>   attr:<dotted>   call:<resolved callee or ?text>   const   global:<dotted>
             exc:<handler name>  iter:<...> (loop/comprehension targets carry the deps of the iterable)
    """

    def __init__(self, prog: Program, fi: FunctionInfo) -> None:
        self.prog = prog
        self.fi = fi
        self._defs: dict[tuple[str, str], list[tuple[str, ast.AST]]] = {}
        self._memo: dict[tuple[str, str], frozenset[str]] = {}

    # definitions of a local name: list of (kind, node)
    def defs(self, fi: FunctionInfo, name: str) -> list[tuple[str, ast.AST]]:
        key = (fi.qualname, name)
        if key in self._defs:
            return self._defs[key]
        out: list[tuple[str, ast.AST]] = []
        for p in fi.params():
            if p.arg == name:
                out.append(("param", p))
        for n in fi.own_nodes():
            if isinstance(n, ast.Assign):
                for t in n.targets:
                    self._target_defs(t, n.value, name, out)
            elif isinstance(n, ast.AnnAssign) and n.value is not None:
                self._target_defs(n.target, n.value, name, out)
            elif isinstance(n, ast.AugAssign):
                if is_name(n.target, name):
                    out.append(("value", n.value))
            elif isinstance(n, ast.NamedExpr) and n.target.id == name:
                out.append(("value", n.value))
            elif isinstance(n, (ast.For, ast.AsyncFor)):
                if any(is_name(x, name) for x in ast.walk(n.target)):
                    out.append(("iter", n.iter))
            elif isinstance(n, (ast.With, ast.AsyncWith)):
                for item in n.items:
                    if item.optional_vars is not None and any(is_name(x, name) for x in ast.walk(item.optional_vars)):
                        out.append(("value", item.context_expr))
            elif isinstance(n, ast.ExceptHandler) and n.name == name:
                out.append(("exc", n))
            elif isinstance(n, ast.Match):
                for case in n.cases:
                    for pn in ast.walk(case.pattern):
                        if isinstance(pn, (ast.MatchAs, ast.MatchStar)) and pn.name == name:
                            out.append(("value", n.subject))
                        elif isinstance(pn, ast.MatchMapping) and pn.rest == name:
                            out.append(("value", n.subject))
            elif isinstance(n, (ast.FunctionDef, ast.AsyncFunctionDef, ast.ClassDef)) and n.name == name:
                out.append(("def", n))
        self._defs[key] = out
        return out

    def contributions(self, fi: FunctionInfo, name: str) -> list[ast.AST]:
        """Values put *into* the container a local names (item stores, append / add / extend / update / insert / setdefault):
        what the container holds depends on them although they are not definitions of the name."""
        key = (fi.qualname, name)
        memo = self.__dict__.setdefault("_contrib", {})
        if key in memo:
            return memo[key]
        out: list[ast.AST] = []
        for n in fi.own_nodes():
            if isinstance(n, (ast.Assign, ast.AugAssign)):
                for t in n.targets if isinstance(n, ast.Assign) else [n.target]:
                    if isinstance(t, ast.Subscript) and is_name(t.value, name):
                        out += [n.value, t.slice]
            elif isinstance(n, ast.Call) and isinstance(n.func, ast.Attribute) and is_name(n.func.value, name) and n.func.attr in ("append", "appendleft", "add", "extend", "update", "insert", "setdefault"):
                out += [*n.args, *[k.value for k in n.keywords]]
        memo[key] = out
        return out

    @staticmethod
    def _target_defs(target: ast.AST, value: ast.AST, name: str, out: list) -> None:
        if is_name(target, name):
            out.append(("value", value))
        elif isinstance(target, (ast.Tuple, ast.List)):
            if any(is_name(x, name) for x in ast.walk(target)):
                # element-wise when both sides are displays of the same length, otherwise "some part of value"
                if isinstance(value, (ast.Tuple, ast.List)) and len(value.elts) == len(target.elts) and not any(isinstance(x, ast.Starred) for x in [*target.elts, *value.elts]):
                    for t, v in zip(target.elts, value.elts):
                        Deps._target_defs(t, v, name, out)
                else:
                    out.append(("unpack", value))

    def owner(self, name: str) -> FunctionInfo | None:
        cur: FunctionInfo | None = self.fi
        while cur is not None:
            if name in self.prog.local_names(cur):
                return cur
            cur = cur.outer
        return None

    def of(self, e: ast.AST | None, _stack: frozenset = frozenset()) -> frozenset[str]:
        if e is None:
            return frozenset()
        out: set[str] = set()
        self._collect(e, out, _stack)
        return frozenset(out)

    def _collect(self, e: ast.AST, out: set[str], stack: frozenset) -> None:
        if isinstance(e, ast.Constant):
            out.add("const")
            return
        if isinstance(e, ast.Name):
            owner = self.owner(e.id)
            if owner is None:
                r = self.prog.resolve_global(self.fi.module, e.id)
                out.add(f"global:{r or e.id}")
                return
            key = (owner.qualname, e.id)
            if key in stack:
                return
            if key in self._memo:
                out.update(self._memo[key])
                return
            sub: set[str] = set()
            for kind, node in self.defs(owner, e.id):
                if kind == "param":
                    sub.add(f"param:{e.id}")
                elif kind == "exc":
                    sub.add(f"exc:{e.id}")
                elif kind == "def":
                    sub.add(f"def:{e.id}")
                else:
                    self._collect(node, sub, stack | {key})
            for node in self.contributions(owner, e.id):
                self._collect(node, sub, stack | {key})
            if not stack:
                self._memo[key] = frozenset(sub)
            out.update(sub)
            return
        if isinstance(e, ast.Attribute):
            d = dotted(e)
            if d is not None:
                head = d.split(".")[0]
                if self.owner(head) is not None:
                    out.add(f"attr:{d}")
                    # the attribute also depends on its base object
                    self._collect(e.value, out, stack)
                    return
                r = self.prog.resolve_dotted(self.fi, e)
                out.add(f"global:{r or d}")
                return
            out.add(f"attr:?.{e.attr}")
            self._collect(e.value, out, stack)
            return
        if isinstance(e, ast.Call):
            callee = self.prog.resolve_callee(self.fi, e)
            out.add(f"call:{callee or '?' + (dotted(e.func) or ast.unparse(e.func)[:40])}")
            if isinstance(e.func, ast.Attribute):
                self._collect(e.func.value, out, stack)
            elif isinstance(e.func, ast.Name) and self.owner(e.func.id) is not None:
                self._collect(e.func, out, stack)
            for a in e.args:
                self._collect(a, out, stack)
            for k in e.keywords:
                self._collect(k.value, out, stack)
            return
        if isinstance(e, ast.Lambda):
            return
        for child in ast.iter_child_nodes(e):
            if isinstance(child, (ast.expr, ast.keyword, ast.comprehension, ast.FormattedValue)):
                self._collect(child, out, stack)

    # -------------------------------------------------------------- origins: what a value *is* (not what it was computed from)
    def origins(self, e: ast.AST | None, _stack: frozenset = frozenset()) -> frozenset[str]:
        """Heads of the value: `call:<callee>` for call results, `param:<p>`, `attr:<dotted>`, `exc:<h>`,
        `const`, `global:<x>`; follows local assignments, walrus, await, cast, `a or b`, `x if c else y`
        but never descends into call arguments."""
        out: set[str] = set()
        self._origins(e, out, _stack)
        return frozenset(out)

    def _origins(self, e: ast.AST | None, out: set[str], stack: frozenset) -> None:
        e = unwrap(e)
        if e is None:
            return
        if isinstance(e, ast.Constant):
            out.add("const")
        elif isinstance(e, ast.Name):
            owner = self.owner(e.id)
            if owner is None:
                r = self.prog.resolve_global(self.fi.module, e.id)
                out.add(f"global:{r or e.id}")
                return
            key = (owner.qualname, e.id)
            if key in stack:
                return
            for kind, node in self.defs(owner, e.id):
                if kind == "param":
                    out.add(f"param:{e.id}")
                elif kind == "exc":
                    out.add(f"exc:{e.id}")
                elif kind == "def":
                    out.add(f"def:{e.id}")
                elif kind == "iter":
                    out.add("iter:" + ",".join(sorted(self.origins(node, stack | {key}))))
                else:
                    self._origins(node, out, stack | {key})
        elif isinstance(e, ast.Attribute):
            d = dotted(e)
            if d is not None and self.owner(d.split(".")[0]) is not None:
                out.add(f"attr:{d}")
                # values stored into that attribute by this very function
                key = (self.fi.qualname, "." + d)
                if key not in stack:
                    for n in self.fi.own_nodes():
                        if isinstance(n, (ast.Assign, ast.AnnAssign)) and n.value is not None:
                            tgts = n.targets if isinstance(n, ast.Assign) else [n.target]
                            if any(dotted(t) == d for t in tgts) and not (isinstance(n.value, ast.Constant) and n.value.value is None):
                                self._origins(n.value, out, stack | {key})
            elif d is not None:
                out.add(f"global:{self.prog.resolve_dotted(self.fi, e) or d}")
            else:
                out.add(f"attr:?.{e.attr}")
        elif isinstance(e, ast.Call):
            callee = self.prog.resolve_callee(self.fi, e)
            out.add(f"call:{callee or '?' + (dotted(e.func) or ast.unparse(e.func)[:40])}")
        elif isinstance(e, (ast.Await, ast.NamedExpr, ast.Starred)):
            self._origins(e.value, out, stack)
        elif isinstance(e, ast.BoolOp):
            for v in e.values:
                self._origins(v, out, stack)
        elif isinstance(e, ast.IfExp):
            self._origins(e.body, out, stack)
            self._origins(e.orelse, out, stack)
        elif isinstance(e, ast.Subscript):
            out.add("item:" + ",".join(sorted(self.origins(e.value, stack))))
        else:
            out.add("expr")

    def root_origins(self, e: ast.AST | None) -> frozenset[str]:
        """origins of the object at the root of an attribute chain: `parent._completed` -> origins(parent);
        chains rooted at self keep their first attribute: `self._parent._completed` -> {attr:self._parent}."""
        cur = e
        chain = []
        while isinstance(cur, ast.Attribute):
            chain.append(cur)
            cur = cur.value
        if isinstance(cur, ast.Name) and chain:
            sn = self.prog.self_name(self.fi)
            if sn and cur.id == sn[0]:
                return frozenset({f"attr:{cur.id}.{chain[-1].attr}"})
        return self.origins(cur)

    # -------------------------------------------------------------- inlining of single-definition locals
    def single_value(self, name: str) -> ast.AST | None:
        owner = self.owner(name)
        if owner is None:
            return None
        ds = [(k, n) for k, n in self.defs(owner, name) if not getattr(parent(n), "_inline_init", False)]
        vals = [n for k, n in ds if k == "value"]
        if len(ds) == 1 and len(vals) == 1:
            return vals[0]
        return None

    def inline(self, e: ast.AST, depth: int = 4) -> ast.AST:
        """Copy of e with single-definition local names replaced by their defining expression
        (makes shape rules robust against `ExtractLocal` refactorings)."""
        deps = self

        class T(ast.NodeTransformer):
            def visit_Name(self, n: ast.Name):  # noqa: N802
                if isinstance(n.ctx, ast.Load) and depth > 0:
                    v = deps.single_value(n.id)
                    if v is not None and not isinstance(v, (ast.Await, ast.Yield)):
                        owner = deps.owner(n.id)
                        # do not inline pattern captures / loop variables (their 'value' is the subject)
                        for kind, node in deps.defs(owner, n.id):
                            p = parent(node)
                            if isinstance(p, (ast.Match, ast.For, ast.AsyncFor, ast.withitem)):
                                return n
                        return deps.inline(v, depth - 1)
                return n

            def visit_NamedExpr(self, n: ast.NamedExpr):  # noqa: N802
                return self.visit(n.value)

        return T().visit(clone(e))
