"""E5 abstract domains: merge order (K7/A6), linear forms (K11/A7), faithful comprehensions (K9)."""

from __future__ import annotations

import ast
from fractions import Fraction

from . import AnalysisError
from .astutil import Deps, is_name, unwrap
from .loader import dotted

TOP = None  # unknown order


def merge_order(deps: Deps, e: ast.AST, depth: int = 6, _stack: frozenset = frozenset()) -> list[str] | None:
    """Ordered provenance tags of an expression that builds a sequence/mapping from several sources.
    Later sources win for mappings.  Returns None (TOP) for unrecognised shapes."""
    e = unwrap(e)
    if e is None or depth < 0:
        return TOP
    if isinstance(e, (ast.List, ast.Tuple, ast.Set)):
        out: list[str] = []
        for el in e.elts:
            if isinstance(el, ast.Starred):
                sub = merge_order(deps, el.value, depth - 1, _stack)
                if sub is TOP:
                    return TOP
                out.extend(sub)
            else:
                out.append("elt:" + ",".join(sorted(deps.origins(el))))
        return out
    if isinstance(e, ast.Dict):
        out = []
        for k, v in zip(e.keys, e.values):
            if k is None:
                sub = merge_order(deps, v, depth - 1, _stack)
                if sub is TOP:
                    return TOP
                out.extend(sub)
            else:
                out.append("item:" + ",".join(sorted(deps.origins(v))))
        return out
    if isinstance(e, ast.BinOp) and isinstance(e.op, (ast.BitOr, ast.Add)):
        a, b = merge_order(deps, e.left, depth - 1, _stack), merge_order(deps, e.right, depth - 1, _stack)
        return TOP if a is TOP or b is TOP else a + b
    if isinstance(e, ast.Await):
        return ["await:" + ",".join(sorted(deps.origins(e.value)))]
    if isinstance(e, ast.Call):
        callee = deps.prog.resolve_callee(deps.fi, e)
        f = e.func
        if isinstance(f, ast.Attribute) and f.attr in ("values", "items", "keys", "copy") and not e.args:
            return merge_order(deps, f.value, depth - 1)
        if callee in ("itertools.chain",):
            out = []
            for a in e.args:
                sub = merge_order(deps, a.value if isinstance(a, ast.Starred) else a, depth - 1)
                if sub is TOP:
                    return TOP
                out.extend(sub)
            return out
        if callee in ("builtins.list", "builtins.tuple", "builtins.dict", "builtins.frozenset", "builtins.set", "builtins.iter", "builtins.sorted") and len(e.args) <= 1:
            if callee == "builtins.sorted":
                return TOP
            out = merge_order(deps, e.args[0], depth - 1) if e.args else []
            if out is TOP:
                return TOP
            out = list(out)
            for k in e.keywords:
                if k.arg is None:
                    sub = merge_order(deps, k.value, depth - 1)
                    if sub is TOP:
                        return TOP
                    out.extend(sub)
                else:
                    out.append("item:" + ",".join(sorted(deps.origins(k.value))))
            return out
        if callee in ("builtins.reversed",):
            sub = merge_order(deps, e.args[0], depth - 1) if e.args else TOP
            return TOP if sub is TOP else list(reversed(sub))
        return ["call:" + (callee or "?")]
    if isinstance(e, (ast.ListComp, ast.GeneratorExp, ast.SetComp, ast.DictComp)):
        if len(e.generators) != 1:
            return TOP
        sub = merge_order(deps, e.generators[0].iter, depth - 1)
        if sub is not TOP and e.generators[0].ifs:
            return [t + "?filtered" for t in sub]  # not every element of the source takes part
        return sub
    if isinstance(e, ast.Name):
        owner = deps.owner(e.id)
        v = deps.single_value(e.id)
        if v is not None:
            base = merge_order(deps, v, depth - 1)
            if base is TOP or owner is None:
                return base
            extra: list[str] = []
            for n in owner.own_nodes():
                add = None
                if isinstance(n, ast.Call) and isinstance(n.func, ast.Attribute) and is_name(n.func.value, e.id) and n.func.attr in ("update", "extend") and len(n.args) == 1:
                    add = n.args[0]
                elif isinstance(n, ast.AugAssign) and is_name(n.target, e.id) and isinstance(n.op, (ast.BitOr, ast.Add)):
                    add = n.value
                if add is not None:
                    sub = merge_order(deps, add, depth - 1)
                    if sub is TOP:
                        return TOP
                    extra += sub
            return list(base) + extra
        if owner is not None:
            vc = loop_as_comp(owner, e.id)
            if vc is not None:
                return merge_order(deps, vc.iter, depth - 1, _stack)
            from .loader import parent as _parent

            defs = [n for k, n in deps.defs(owner, e.id) if k == "value" and not getattr(_parent(n), "_inline_init", False) and id(n) not in _stack]
            kinds = {k for k, _ in deps.defs(owner, e.id)}
            if defs and kinds == {"value"}:
                orders = [merge_order(deps, n, depth - 1, _stack | {id(n)}) for n in defs]
                if all(o is not TOP for o in orders) and all(o == orders[0] for o in orders):
                    return orders[0]
                return TOP
        oo = deps.origins(e)
        if len(oo) == 1:
            return [next(iter(oo))]
        return TOP
    if isinstance(e, ast.Attribute):
        d = dotted(e)
        return [f"attr:{d}"] if d else TOP
    return TOP


# ---------------------------------------------------------------------- linear forms
def linear_form(deps: Deps, e: ast.AST, atom_of=None, depth: int = 5) -> dict[str, Fraction] | None:
    """Flatten an expression over + - and atoms to {atom: coefficient, '1': constant}.
    atom_of(expr) may map a sub-expression to an atom name (e.g. a monotonic() reading)."""
    e = unwrap(e)
    if depth < 0 or e is None:
        return None
    if atom_of is not None:
        a = atom_of(e)
        if a is not None:
            return {a: Fraction(1)}
    if isinstance(e, ast.Constant) and isinstance(e.value, (int, float)) and not isinstance(e.value, bool):
        return {"1": Fraction(e.value)} if e.value else {}
    if isinstance(e, ast.UnaryOp) and isinstance(e.op, (ast.USub, ast.UAdd)):
        sub = linear_form(deps, e.operand, atom_of, depth)
        if sub is None:
            return None
        return {k: -v for k, v in sub.items()} if isinstance(e.op, ast.USub) else sub
    if isinstance(e, ast.BinOp) and isinstance(e.op, (ast.Add, ast.Sub)):
        a, b = linear_form(deps, e.left, atom_of, depth), linear_form(deps, e.right, atom_of, depth)
        if a is None or b is None:
            return None
        out = dict(a)
        sign = 1 if isinstance(e.op, ast.Add) else -1
        for k, v in b.items():
            out[k] = out.get(k, Fraction(0)) + sign * v
        return {k: v for k, v in out.items() if v != 0}
    if isinstance(e, ast.Name):
        v = deps.single_value(e.id)
        if v is not None and not isinstance(v, (ast.Await,)):
            sub = linear_form(deps, v, atom_of, depth - 1)
            if sub is not None:
                return sub
        return {f"name:{e.id}": Fraction(1)}
    if isinstance(e, ast.Attribute):
        d = dotted(e)
        return {f"attr:{d}": Fraction(1)} if d else None
    if isinstance(e, ast.Subscript):
        d = dotted(e.value)
        idx = e.slice
        if d and isinstance(idx, ast.Constant):
            return {f"item:{d}[{idx.value}]": Fraction(1)}
        if d and isinstance(idx, ast.UnaryOp) and isinstance(idx.op, ast.USub) and isinstance(idx.operand, ast.Constant):
            return {f"item:{d}[-{idx.operand.value}]": Fraction(1)}
        return None
    if isinstance(e, ast.Call):
        callee = deps.prog.resolve_callee(deps.fi, e)
        if callee and not e.args and not e.keywords:
            return {f"call:{callee}": Fraction(1)}
        if callee in ("builtins.max", "builtins.min") :
            return None
        return None
    return None


def fmt_linear(lf: dict[str, Fraction] | None) -> str:
    if lf is None:
        return "<not linear>"
    if not lf:
        return "0"
    return " ".join(f"{'+' if v > 0 else '-'}{'' if abs(v) == 1 else abs(v)}{k}" for k, v in sorted(lf.items()))


# ---------------------------------------------------------------------- K9 faithful comprehension
class CompShape:
    """Facts about a single-generator comprehension: what it iterates, filters, how elements are mapped."""

    def __init__(self, comp: ast.AST) -> None:
        self.comp = comp
        self.flatten = False
        self.filter_expr = None
        self.ok = isinstance(comp, (ast.ListComp, ast.GeneratorExp, ast.SetComp, ast.DictComp)) and len(comp.generators) == 1
        if not self.ok and isinstance(comp, (ast.ListComp, ast.GeneratorExp, ast.SetComp)) and len(comp.generators) == 2:
            # [x for xs in outer if keep(xs) for x in xs]: the flattening of the (filtered) outer iterable - presented as the
            # one-generator shape over `outer` whose element is the inner iterable, with flatten=True (like an extend loop)
            g0, g1 = comp.generators
            if isinstance(g0.target, ast.Name) and isinstance(g1.target, ast.Name) and is_name(g1.iter, g0.target.id) and not g1.ifs and is_name(comp.elt, g1.target.id) and not g0.is_async and not g1.is_async:
                self.ok = True
                self.flatten = True
                self.iter, self.target, self.filtered = g0.iter, g0.target, bool(g0.ifs)
                self.is_async, self.is_dict = False, False
                self.elt, self.key, self.value = ast.copy_location(ast.Name(id=g0.target.id, ctx=ast.Load()), comp.elt), None, None
                self._ifs = list(g0.ifs)
                return
        if not self.ok:
            return
        g = comp.generators[0]
        self._ifs = list(g.ifs)
        self.iter = g.iter
        self.target = g.target
        self.filtered = bool(g.ifs)
        self.is_async = bool(g.is_async)
        self.is_dict = isinstance(comp, ast.DictComp)
        self.elt = None if self.is_dict else comp.elt
        self.key = comp.key if self.is_dict else None
        self.value = comp.value if self.is_dict else None

    def target_names(self) -> list[str]:
        if isinstance(self.target, ast.Name):
            return [self.target.id]
        if isinstance(self.target, (ast.Tuple, ast.List)):
            return [t.id for t in self.target.elts if isinstance(t, ast.Name)]
        return []


def applies_to(call: ast.AST | None, func_pred, arg_name: str) -> bool:
    """call is `<f>(<arg_name>)` with func_pred(f) true."""
    call = unwrap(call)
    return (
        isinstance(call, ast.Call)
        and len(call.args) == 1
        and not call.keywords
        and is_name(call.args[0], arg_name)
        and func_pred(call.func)
    )


class VirtualComp(CompShape):
    """An accumulation loop presented as the comprehension it is equivalent to:
        acc = [] / {} / set()          (or dict() / list())
        for <target> in <iter>:        (optionally `if <cond>:` around the single store)
            acc.append(<elt>) | acc.add(<elt>) | acc[<key>] = <value> | acc.extend(<elt>)   (extend -> flatten=True)
    """

    def __init__(self, loop: ast.For, init: ast.AST, store: ast.AST, filtered: bool, filter_expr: ast.AST | None = None) -> None:
        self.filter_expr = filter_expr
        self.comp = loop
        self.ok = True
        self.iter = loop.iter
        self.target = loop.target
        self.filtered = filtered
        self.is_async = isinstance(loop, ast.AsyncFor)
        self.flatten = False
        self.is_dict = False
        self.elt = self.key = self.value = None
        if isinstance(store, ast.Assign):
            self.is_dict = True
            self.key = store.targets[0].slice
            self.value = store.value
        else:
            call = store.value
            self.elt = call.args[0]
            self.flatten = call.func.attr in ("extend", "update")
        self.init = init


def loop_as_comp(fi, name: str) -> VirtualComp | None:
    inits, loops, others = [], [], 0
    for n in fi.own_nodes():
        if isinstance(n, (ast.Assign, ast.AnnAssign)) and getattr(n, "value", None) is not None:
            t = n.targets[0] if isinstance(n, ast.Assign) else n.target
            if isinstance(t, ast.Name) and t.id == name:
                inits.append(n)
        if isinstance(n, (ast.For, ast.AsyncFor)) and not n.orelse:
            body = n.body
            filtered = False
            fexpr = None
            if len(body) == 1 and isinstance(body[0], ast.If) and not body[0].orelse and len(body[0].body) == 1:
                filtered = True
                fexpr = body[0].test
                body = body[0].body
            elif len(body) == 2 and isinstance(body[0], ast.If) and not body[0].orelse and len(body[0].body) == 1 and isinstance(body[0].body[0], ast.Continue):
                filtered = True
                fexpr = ast.UnaryOp(op=ast.Not(), operand=body[0].test)
                body = body[1:]
            # a partition loop: `if t: a.append(x) else: b.append(y)` - the store into `name` with its path condition
            if len(body) == 1 and isinstance(body[0], ast.If) and body[0].orelse and not filtered:
                hit = _find_store(body[0], name, [])
                if hit is not None:
                    st_, conds = hit
                    fexpr_ = conds[0] if len(conds) == 1 else ast.BoolOp(op=ast.And(), values=conds)
                    loops.append((n, st_, True, fexpr_, st_))
                    continue
            # leading per-iteration temporaries (`validated_key = key_validator(key)`) are substituted into the store
            temps: dict[str, ast.AST] = {}
            while len(body) > 1 and isinstance(body[0], (ast.Assign, ast.AnnAssign)) and getattr(body[0], "value", None) is not None:
                t0 = body[0].targets[0] if isinstance(body[0], ast.Assign) and len(body[0].targets) == 1 else getattr(body[0], "target", None)
                if not isinstance(t0, ast.Name) or t0.id == name or t0.id in temps:
                    break
                temps[t0.id] = _subst(body[0].value, temps)
                body = body[1:]
            if len(body) == 1:
                st = body[0]
                shown = _subst(st, temps) if temps else st
                if isinstance(st, ast.Assign) and len(st.targets) == 1 and isinstance(st.targets[0], ast.Subscript) and is_name(st.targets[0].value, name):
                    loops.append((n, st, filtered, fexpr, shown))
                elif isinstance(st, ast.Expr) and isinstance(st.value, ast.Call) and isinstance(st.value.func, ast.Attribute) and is_name(st.value.func.value, name) and st.value.func.attr in ("append", "add", "extend") and len(st.value.args) == 1:
                    loops.append((n, st, filtered, fexpr, shown))
    if len(inits) != 1 or len(loops) != 1:
        return None
    v = unwrap(inits[0].value)
    empty = (isinstance(v, (ast.List, ast.Dict, ast.Set)) and not getattr(v, "elts", getattr(v, "keys", []))) or (isinstance(v, ast.Call) and isinstance(v.func, ast.Name) and v.func.id in ("list", "dict", "set") and not v.args and not v.keywords)
    if not empty:
        return None
    # no other writes to the accumulator
    for n in fi.own_nodes():
        if isinstance(n, ast.Call) and isinstance(n.func, ast.Attribute) and is_name(n.func.value, name) and n.func.attr in ("append", "add", "extend", "update", "pop", "clear", "insert", "remove", "setdefault"):
            if n is not getattr(loops[0][1], "value", None):  # (identity against the original store statement)
                return None
        if isinstance(n, (ast.Assign, ast.AugAssign, ast.Delete)) and n is not loops[0][1] and n is not inits[0]:
            tg = n.targets if isinstance(n, (ast.Assign, ast.Delete)) else [n.target]
            if any((isinstance(t, ast.Subscript) and is_name(t.value, name)) or is_name(t, name) for t in tg):
                return None
    return VirtualComp(loops[0][0], inits[0], loops[0][4], loops[0][2], loops[0][3])


def _is_store_into(st: ast.stmt, name: str) -> bool:
    if isinstance(st, ast.Assign) and len(st.targets) == 1 and isinstance(st.targets[0], ast.Subscript) and is_name(st.targets[0].value, name):
        return True
    return isinstance(st, ast.Expr) and isinstance(st.value, ast.Call) and isinstance(st.value.func, ast.Attribute) and is_name(st.value.func.value, name) and st.value.func.attr in ("append", "add", "extend") and len(st.value.args) == 1


def _find_store(node: ast.If, name: str, conds: list[ast.AST]) -> tuple[ast.stmt, list[ast.AST]] | None:
    """The single store into `name` inside nested if/else of simple statements, with the conditions leading to it."""
    found: list[tuple[ast.stmt, list[ast.AST]]] = []

    def walk(stmts: list[ast.stmt], cs: list[ast.AST]) -> bool:
        for st in stmts:
            if isinstance(st, ast.If):
                if not walk(st.body, cs + [st.test]) or not walk(st.orelse, cs + [ast.UnaryOp(op=ast.Not(), operand=st.test)]):
                    return False
            elif _is_store_into(st, name):
                found.append((st, cs))
            elif isinstance(st, (ast.Expr, ast.Assign, ast.AnnAssign, ast.Pass)):
                continue  # stores into the other partitions / temporaries
            else:
                return False  # break / continue / return / loops: not a plain partition
        return True

    if not walk([node], conds) or len(found) != 1:
        return None
    return found[0]


def _subst(node: ast.AST, temps: dict[str, ast.AST]) -> ast.AST:
    from .astutil import clone

    class T(ast.NodeTransformer):
        def visit_Name(self, n: ast.Name):  # noqa: N802
            if isinstance(n.ctx, ast.Load) and n.id in temps:
                return clone(temps[n.id])
            return n

    return T().visit(clone(node))


def comp_of(deps: Deps, e: ast.AST | None) -> CompShape | None:
    """The comprehension (real, or an equivalent accumulation loop) that produces `e`."""
    e = unwrap(e)
    if e is None:
        return None
    if isinstance(e, (ast.ListComp, ast.SetComp, ast.DictComp, ast.GeneratorExp)):
        sh = CompShape(e)
        return sh if sh.ok else None
    if isinstance(e, ast.Name):
        owner = deps.owner(e.id)
        if owner is None:
            return None
        sv = deps.single_value(e.id)
        if sv is not None and isinstance(unwrap(sv), (ast.ListComp, ast.SetComp, ast.DictComp, ast.GeneratorExp)):
            return comp_of(deps, sv)
        return loop_as_comp(owner, e.id)
    return None
