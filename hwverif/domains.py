"""E5 abstract domains: merge order (K7/A6), linear forms (K11/A7), faithful comprehensions (K9)."""

from __future__ import annotations

import ast
from fractions import Fraction

from . import AnalysisError
from .astutil import Deps, is_name, unwrap
from .loader import dotted

TOP = None  # unknown order


def merge_order(deps: Deps, e: ast.AST, depth: int = 6) -> list[str] | None:
    """Ordered provenance tags of an expression that builds a sequence/mapping from several sources.
    Later sources win for mappings.  Returns None (TOP) for unrecognised shapes."""
    e = unwrap(e)
    if e is None or depth < 0:
        return TOP
    if isinstance(e, (ast.List, ast.Tuple, ast.Set)):
        out: list[str] = []
        for el in e.elts:
            if isinstance(el, ast.Starred):
                sub = merge_order(deps, el.value, depth - 1)
                if sub is TOP:
                    return TOP
                out.extend(sub)
            else:
                out.append("elt:" + ",".join(sorted(deps.origins(el))))
        return out
    if isinstance(e, ast.Dict):
        out = []
        for k, v in zip(e.keys, e.values):
            if k is None:
                sub = merge_order(deps, v, depth - 1)
                if sub is TOP:
                    return TOP
                out.extend(sub)
            else:
                out.append("item:" + ",".join(sorted(deps.origins(v))))
        return out
    if isinstance(e, ast.BinOp) and isinstance(e.op, (ast.BitOr, ast.Add)):
        a, b = merge_order(deps, e.left, depth - 1), merge_order(deps, e.right, depth - 1)
        return TOP if a is TOP or b is TOP else a + b
    if isinstance(e, ast.Await):
        return ["await:" + ",".join(sorted(deps.origins(e.value)))]
    if isinstance(e, ast.Call):
        callee = deps.prog.resolve_callee(deps.fi, e)
        f = e.func
        if isinstance(f, ast.Attribute) and f.attr in ("values", "items", "keys", "copy") and not e.args:
            return merge_order(deps, f.value, depth - 1)
        if callee in ("itertools.chain",):
            out = []
            for a in e.args:
                sub = merge_order(deps, a.value if isinstance(a, ast.Starred) else a, depth - 1)
                if sub is TOP:
                    return TOP
                out.extend(sub)
            return out
        if callee in ("builtins.list", "builtins.tuple", "builtins.dict", "builtins.frozenset", "builtins.set", "builtins.iter", "builtins.sorted") and len(e.args) <= 1:
            if callee == "builtins.sorted":
                return TOP
            out = merge_order(deps, e.args[0], depth - 1) if e.args else []
            if out is TOP:
                return TOP
            out = list(out)
            for k in e.keywords:
                if k.arg is None:
                    sub = merge_order(deps, k.value, depth - 1)
                    if sub is TOP:
                        return TOP
                    out.extend(sub)
                else:
                    out.append("item:" + ",".join(sorted(deps.origins(k.value))))
            return out
        if callee in ("builtins.reversed",):
            sub = merge_order(deps, e.args[0], depth - 1) if e.args else TOP
            return TOP if sub is TOP else list(reversed(sub))
        return ["call:" + (callee or "?")]
    if isinstance(e, (ast.ListComp, ast.GeneratorExp, ast.SetComp, ast.DictComp)):
        if len(e.generators) != 1:
            return TOP
        return merge_order(deps, e.generators[0].iter, depth - 1)
    if isinstance(e, ast.Name):
        v = deps.single_value(e.id)
        if v is not None:
            return merge_order(deps, v, depth - 1)
        oo = deps.origins(e)
        if len(oo) == 1:
            return [next(iter(oo))]
        return TOP
    if isinstance(e, ast.Attribute):
        d = dotted(e)
        return [f"attr:{d}"] if d else TOP
    return TOP


# ---------------------------------------------------------------------- linear forms
def linear_form(deps: Deps, e: ast.AST, atom_of=None, depth: int = 5) -> dict[str, Fraction] | None:
    """Flatten an expression over + - and atoms to {atom: coefficient, '1': constant}.
    atom_of(expr) may map a sub-expression to an atom name (e.g. a monotonic() reading)."""
    e = unwrap(e)
    if depth < 0 or e is None:
        return None
    if atom_of is not None:
        a = atom_of(e)
        if a is not None:
            return {a: Fraction(1)}
    if isinstance(e, ast.Constant) and isinstance(e.value, (int, float)) and not isinstance(e.value, bool):
        return {"1": Fraction(e.value)} if e.value else {}
    if isinstance(e, ast.UnaryOp) and isinstance(e.op, (ast.USub, ast.UAdd)):
        sub = linear_form(deps, e.operand, atom_of, depth)
        if sub is None:
            return None
        return {k: -v for k, v in sub.items()} if isinstance(e.op, ast.USub) else sub
    if isinstance(e, ast.BinOp) and isinstance(e.op, (ast.Add, ast.Sub)):
        a, b = linear_form(deps, e.left, atom_of, depth), linear_form(deps, e.right, atom_of, depth)
        if a is None or b is None:
            return None
        out = dict(a)
        sign = 1 if isinstance(e.op, ast.Add) else -1
        for k, v in b.items():
            out[k] = out.get(k, Fraction(0)) + sign * v
        return {k: v for k, v in out.items() if v != 0}
    if isinstance(e, ast.Name):
        v = deps.single_value(e.id)
        if v is not None and not isinstance(v, (ast.Await,)):
            sub = linear_form(deps, v, atom_of, depth - 1)
            if sub is not None:
                return sub
        return {f"name:{e.id}": Fraction(1)}
    if isinstance(e, ast.Attribute):
        d = dotted(e)
        return {f"attr:{d}": Fraction(1)} if d else None
    if isinstance(e, ast.Subscript):
        d = dotted(e.value)
        idx = e.slice
        if d and isinstance(idx, ast.Constant):
            return {f"item:{d}[{idx.value}]": Fraction(1)}
        if d and isinstance(idx, ast.UnaryOp) and isinstance(idx.op, ast.USub) and isinstance(idx.operand, ast.Constant):
            return {f"item:{d}[-{idx.operand.value}]": Fraction(1)}
        return None
    if isinstance(e, ast.Call):
        callee = deps.prog.resolve_callee(deps.fi, e)
        if callee and not e.args and not e.keywords:
            return {f"call:{callee}": Fraction(1)}
        if callee in ("builtins.max", "builtins.min") :
            return None
        return None
    return None


def fmt_linear(lf: dict[str, Fraction] | None) -> str:
    if lf is None:
        return "<not linear>"
    if not lf:
        return "0"
    return " ".join(f"{'+' if v > 0 else '-'}{'' if abs(v) == 1 else abs(v)}{k}" for k, v in sorted(lf.items()))


# ---------------------------------------------------------------------- K9 faithful comprehension
class CompShape:
    """Facts about a single-generator comprehension: what it iterates, filters, how elements are mapped."""

    def __init__(self, comp: ast.AST) -> None:
        self.comp = comp
        self.ok = isinstance(comp, (ast.ListComp, ast.GeneratorExp, ast.SetComp, ast.DictComp)) and len(comp.generators) == 1
        if not self.ok:
            return
        g = comp.generators[0]
        self.iter = g.iter
        self.target = g.target
        self.filtered = bool(g.ifs)
        self.is_async = bool(g.is_async)
        self.is_dict = isinstance(comp, ast.DictComp)
        self.elt = None if self.is_dict else comp.elt
        self.key = comp.key if self.is_dict else None
        self.value = comp.value if self.is_dict else None

    def target_names(self) -> list[str]:
        if isinstance(self.target, ast.Name):
            return [self.target.id]
        if isinstance(self.target, (ast.Tuple, ast.List)):
            return [t.id for t in self.target.elts if isinstance(t, ast.Name)]
        return []


def applies_to(call: ast.AST | None, func_pred, arg_name: str) -> bool:
    """call is `<f>(<arg_name>)` with func_pred(f) true."""
    call = unwrap(call)
    return (
        isinstance(call, ast.Call)
        and len(call.args) == 1
        and not call.keywords
        and is_name(call.args[0], arg_name)
        and func_pred(call.func)
    )
