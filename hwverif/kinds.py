"""Rule-kind helpers (K1..K12 of DESIGN.md section 3) shared by the property modules."""

from __future__ import annotations

import ast
from typing import Callable, Iterable

from . import AnalysisError
from .astutil import Deps, is_attr_of, is_name, kw, norm_cond, unwrap
from .cfg import ANY, CFG, Node
from .engine import Analysis, Obligation
from .loader import FunctionInfo, dotted, parent, stmt_text, within


# ---------------------------------------------------------------------- call site lookup
def calls_to(an: Analysis, fi: FunctionInfo, callee: str | Callable[[str | None], bool]) -> list[ast.Call]:
    pred = (lambda c: c == callee) if isinstance(callee, str) else callee
    return [n for n in fi.own_nodes() if isinstance(n, ast.Call) and pred(an.callee(fi, n))]


def call_nodes(an: Analysis, g: CFG, callee: str | Callable[[str | None], bool]) -> list[Node]:
    pred = (lambda c: c == callee) if isinstance(callee, str) else callee
    return [n for n in g.nodes if n.kind == "call" and pred(an.callee(g.fi, n.ast))]  # type: ignore[arg-type]


def is_call_to(an: Analysis, fi: FunctionInfo, callee: str | Iterable[str]) -> Callable[[Node], bool]:
    names = {callee} if isinstance(callee, str) else set(callee)
    return lambda n: n.kind == "call" and an.callee(fi, n.ast) in names  # type: ignore[arg-type]


def q(name: str) -> str:
    return name if name.startswith("haiway.") else "haiway." + name


# ---------------------------------------------------------------------- raising models
def strict(n: Node) -> bool:
    """Every node that has an exceptional edge raises (calls, awaits, asserts, subscripts)."""
    return bool(n.raises)


def strict_but(exempt: Callable[[Node], bool]) -> Callable[[Node], bool]:
    return lambda n: bool(n.raises) and not exempt(n)


def anything(n: Node) -> bool:
    """Nodes that may raise an arbitrary exception: awaits, user code, unresolved calls, iteration.
    Nodes that can only fail a protocol assertion (or a precise library error) are exempt."""
    return n.suspends or ANY in n.raises


def token_assert(n: Node) -> bool:
    a = n.meta.get("assert")
    return a is not None and any(isinstance(x, ast.Attribute) and x.attr == "_token" for x in ast.walk(a.test))


def token_assert_for(prog, fi: FunctionInfo) -> Callable[[Node], bool]:
    """token_assert that also recognises asserts on a local alias of self._token."""
    d = Deps(prog, fi)

    def pred(n: Node) -> bool:
        a = n.meta.get("assert")
        if a is None:
            return False
        for x in ast.walk(a.test):
            if isinstance(x, ast.Attribute) and x.attr == "_token":
                return True
            if isinstance(x, ast.Name) and d.origins(x) == {"attr:self._token"}:
                return True
        return False

    return pred


def any_assert(n: Node) -> bool:
    return n.meta.get("assert") is not None


# ---------------------------------------------------------------------- forwarding (K5)
def param_positions(fi: FunctionInfo, skip_self: bool = True) -> list[str]:
    names = [a.arg for a in fi.node.args.posonlyargs + fi.node.args.args]
    if skip_self and fi.is_method and "staticmethod" not in fi.decorator_names() and names:
        names = names[1:]
    return names


def arg_for(call: ast.Call, index: int, name: str | None) -> ast.expr | None:
    """Expression passed for the callee parameter at positional `index` / keyword `name`."""
    pos = 0
    for a in call.args:
        if isinstance(a, ast.Starred):
            return None
        if pos == index:
            return a
        pos += 1
    if name is not None:
        return kw(call, name)
    return None


def forwards_varargs(call: ast.Call, args_name: str | None, kwargs_name: str | None, lead: list[Callable[[ast.expr], bool]] | None = None) -> bool:
    """call(<lead...>, *args_name, **kwargs_name) exactly."""
    lead = lead or []
    pos = list(call.args)
    if len(pos) != len(lead) + (1 if args_name else 0):
        return False
    for pred, a in zip(lead, pos):
        if isinstance(a, ast.Starred) or not pred(a):
            return False
    if args_name:
        last = pos[-1]
        if not (isinstance(last, ast.Starred) and is_name(last.value, args_name)):
            return False
    kws = list(call.keywords)
    if kwargs_name:
        if len(kws) != 1 or kws[0].arg is not None or not is_name(kws[0].value, kwargs_name):
            return False
    elif kws:
        return False
    return True


def vararg_names(fi: FunctionInfo) -> tuple[str | None, str | None]:
    a = fi.node.args
    return (a.vararg.arg if a.vararg else None, a.kwarg.arg if a.kwarg else None)


# ---------------------------------------------------------------------- handlers (K4 / A9)
def handler_effective_classes(g: CFG, h: ast.ExceptHandler) -> list[str]:
    return g.handler_classes(h)


def catches_cancellation(g: CFG, h: ast.ExceptHandler) -> bool:
    """Effective caught set (own classes minus what earlier handlers of the same try took)
    includes asyncio.CancelledError."""
    from .cfg import exc_is_sub

    tr = parent(h)
    if not isinstance(tr, ast.Try):
        return False
    own = g.handler_classes(h)
    if not any(exc_is_sub("CancelledError", c) for c in own):
        return False
    for earlier in tr.handlers:
        if earlier is h:
            break
        if any(exc_is_sub("CancelledError", c) for c in g.handler_classes(earlier)):
            return False
    return True


def classify_handler(g: CFG, h: ast.ExceptHandler, skip_edge=None) -> list[tuple[str, Node, list[Node]]]:
    """All ways control can leave the handler body: list of (kind, last node, path).

    kinds: reraise-same, raise-other, raise-from-cleanup (an exception raised by a call made
    inside the handler), swallow (normal completion), return, continue, break.
    """
    entry = next((n for n in g.nodes if n.kind == "handler" and n.ast is h), None)
    if entry is None:
        return []
    out: list[tuple[str, Node, list[Node]]] = []
    seen: set[int] = {entry.id}
    stack: list[tuple[Node, list[Node]]] = [(entry, [entry])]

    def inside(n: Node) -> bool:
        if n.kind in ("exit-return", "exit-raise"):
            return False
        a = n.stmt if n.stmt is not None else n.ast
        return a is not None and within(a, h)

    while stack:
        n, path = stack.pop()
        for t, lab in n.succ:
            if skip_edge is not None and skip_edge(n, t, lab):
                continue
            if inside(t) and lab not in ("exc", "reraise"):
                if t.id not in seen:
                    seen.add(t.id)
                    stack.append((t, path + [t]))
                continue
            if lab == "reraise":
                out.append(("raise-from-cleanup", n, path))
                continue
            if lab == "exc":
                if n.kind == "raise":
                    r: ast.Raise = n.ast  # type: ignore[assignment]
                    if r.exc is None or (h.name and is_name(r.exc, h.name) and (r.cause is None or is_name(r.cause, h.name))):
                        kind = "reraise-same"
                    else:
                        kind = "raise-other"
                elif inside(t) :
                    # exception inside the handler caught by a nested try within the handler
                    if t.id not in seen:
                        seen.add(t.id)
                        stack.append((t, path + [t]))
                    continue
                else:
                    kind = "raise-from-cleanup"
                out.append((kind, n, path))
            else:
                if n.kind == "return":
                    kind = "return"
                elif n.kind in ("continue", "break"):
                    kind = n.kind
                else:
                    kind = "swallow"
                out.append((kind, n, path))
    # de-duplicate by (kind, node)
    uniq: dict[tuple[str, int], tuple[str, Node, list[Node]]] = {}
    for k, n, p in out:
        uniq.setdefault((k, n.id), (k, n, p))
    return list(uniq.values())


# ---------------------------------------------------------------------- returns (K8)
def return_values(fi: FunctionInfo) -> list[ast.Return]:
    return [n for n in fi.own_nodes() if isinstance(n, ast.Return)]


def all_paths_raise(g: CFG, exc_names: set[str]) -> tuple[bool, str]:
    """Every path ENTRY -> exit ends in `raise <one of exc_names>(...)`; no RETURN reachable."""
    p = g.search([g.entry], lambda n: n.kind == "exit-return")
    if p is not None:
        return False, "a path returns normally: " + CFG.show_path(p)
    raises = [n for n in g.nodes if n.kind == "raise"]
    if not raises:
        return False, "no raise statement"
    for r in raises:
        e = r.ast.exc  # type: ignore[union-attr]
        if isinstance(e, ast.Call):
            e = e.func
        name = (dotted(e) or "").rsplit(".", 1)[-1]
        if name not in exc_names:
            return False, f"raises {name or '?'}"
    return True, ""


# ---------------------------------------------------------------------- misc
def the(items: list, what: str, fi: FunctionInfo | None = None):
    if len(items) != 1:
        raise AnalysisError(f"expected exactly one {what}" + (f" in {fi.qualname}" if fi else "") + f", found {len(items)}")
    return items[0]


def self_attr(e: ast.AST | None, attr: str | None = None, base: str = "self") -> bool:
    return is_attr_of(e, base, attr)


# ---------------------------------------------------------------------- scenario evaluation (abstract branch pruning)
NOVALUE = object()


_SENTINELS: dict[tuple, "Abs"] = {}


def module_sentinel(mod, e: ast.AST | None) -> object:
    """A module-level `NAME = object()` is a private marker compared by identity: one abstract object per name
    (so that `found is not _ABSENT` evaluates when both sides are known)."""
    from .astutil import unwrap as _unwrap

    if isinstance(e, ast.Name) and e.id in mod.assigns:
        v = _unwrap(mod.assigns[e.id])
        if isinstance(v, ast.Call) and isinstance(v.func, ast.Name) and v.func.id == "object" and not v.args and not v.keywords:
            key = (mod.name, e.id)
            if key not in _SENTINELS:
                _SENTINELS[key] = Abs("object", tag=f"sentinel:{e.id}")
            return _SENTINELS[key]
    return NOVALUE


def eval_expr(e: ast.AST, env: Callable[[ast.AST], object]) -> object:
    """Tiny evaluator for guard expressions.  `env(sub)` returns a concrete value for a recognised
    sub-expression or NOVALUE.  Anything it cannot evaluate yields NOVALUE (both branches kept)."""
    v = env(e)
    if v is not NOVALUE:
        return v
    if isinstance(e, ast.Constant):
        return e.value
    if isinstance(e, ast.NamedExpr):
        return eval_expr(e.value, env)
    if isinstance(e, ast.Call) and isinstance(e.func, ast.Name) and e.func.id == "cast" and len(e.args) == 2 and not e.keywords:
        return eval_expr(e.args[1], env)  # typing.cast is the identity at run time
    if isinstance(e, ast.UnaryOp) and isinstance(e.op, ast.Not):
        v = eval_expr(e.operand, env)
        return NOVALUE if v is NOVALUE else (not v)
    if isinstance(e, ast.UnaryOp) and isinstance(e.op, ast.USub):
        v = eval_expr(e.operand, env)
        return NOVALUE if v is NOVALUE else -v  # type: ignore[operator]
    if isinstance(e, ast.BoolOp):
        is_or = isinstance(e.op, ast.Or)
        unknown = False
        last: object = NOVALUE
        for sub in e.values:
            v = eval_expr(sub, env)
            if v is NOVALUE:
                unknown = True
                continue
            last = v
            if bool(v) == is_or:  # short-circuit value
                return v if not unknown else is_or
        return NOVALUE if unknown else last
    if isinstance(e, ast.BinOp) and isinstance(e.op, (ast.Add, ast.Sub)):
        l, r = eval_expr(e.left, env), eval_expr(e.right, env)
        if l is NOVALUE or r is NOVALUE:
            return NOVALUE
        try:
            return l + r if isinstance(e.op, ast.Add) else l - r  # type: ignore[operator]
        except TypeError:
            return NOVALUE
    if isinstance(e, ast.Compare):
        left = eval_expr(e.left, env)
        result: object = True
        for op, comp in zip(e.ops, e.comparators):
            right = eval_expr(comp, env)
            if left is NOVALUE or right is NOVALUE:
                return NOVALUE
            try:
                if isinstance(op, ast.Eq):
                    ok = left == right
                elif isinstance(op, ast.NotEq):
                    ok = left != right
                elif isinstance(op, ast.Lt):
                    ok = left < right  # type: ignore[operator]
                elif isinstance(op, ast.LtE):
                    ok = left <= right  # type: ignore[operator]
                elif isinstance(op, ast.Gt):
                    ok = left > right  # type: ignore[operator]
                elif isinstance(op, ast.GtE):
                    ok = left >= right  # type: ignore[operator]
                elif isinstance(op, ast.Is):
                    ok = left is right
                elif isinstance(op, ast.IsNot):
                    ok = left is not right
                else:
                    return NOVALUE
            except TypeError:
                return NOVALUE
            if not ok:
                return False
            left = right
        return result
    return NOVALUE


def eval_pattern(case: ast.match_case, env: Callable[[ast.AST], object]) -> object:
    """Does the pattern of `case` match the (scenario) value of its match subject?"""
    m = parent(case)
    if not isinstance(m, ast.Match):
        return NOVALUE
    subj = eval_expr(m.subject, env)

    def go(p: ast.pattern) -> object:
        if isinstance(p, ast.MatchAs):
            return True if p.pattern is None else go(p.pattern)
        if subj is NOVALUE:
            v = env(p)
            return v
        if isinstance(p, ast.MatchSingleton):
            return subj is p.value
        if isinstance(p, ast.MatchValue) and isinstance(p.value, ast.Constant):
            return subj == p.value.value
        if isinstance(p, ast.MatchOr):
            vals = [go(x) for x in p.patterns]
            if any(v is True for v in vals):
                return True
            return NOVALUE if any(v is NOVALUE for v in vals) else False
        v = env(p)
        return v

    return go(case.pattern)


def with_locals(deps: "Deps", env: Callable[[ast.AST], object]) -> Callable[[ast.AST], object]:
    """Wrap a scenario so that single-definition locals evaluate to the value of their definition."""

    def wrapped(e: ast.AST) -> object:
        v = env(e)
        if v is not NOVALUE:
            return v
        if isinstance(e, ast.Name):
            sv = deps.single_value(e.id)
            if sv is not None and not isinstance(sv, (ast.Await, ast.Yield)):
                owner = deps.owner(e.id)
                for kind, node in deps.defs(owner, e.id):
                    if isinstance(parent(node), (ast.Match, ast.For, ast.AsyncFor, ast.withitem)) or kind != "value":
                        return NOVALUE
                return eval_expr(sv, wrapped)
        return NOVALUE

    return wrapped


def scenario(g: CFG, env: Callable[[ast.AST], object]) -> Callable[[Node, Node, str], bool]:
    """skip_edge predicate that removes the branch edges contradicting the scenario `env`."""
    cache: dict[int, object] = {}

    def skip(a: Node, b: Node, lab: str) -> bool:
        if a.kind not in ("test", "match-case") or lab not in ("T", "F"):
            return False
        if a.id not in cache:
            try:
                if a.kind == "match-case":
                    cache[a.id] = eval_pattern(a.ast, env)  # type: ignore[arg-type]
                else:
                    cache[a.id] = eval_expr(a.ast, env)  # type: ignore[arg-type]
            except UndecidedTruth:
                cache[a.id] = NOVALUE
            if isinstance(cache[a.id], NotNoneType):
                cache[a.id] = NOVALUE
        v = cache[a.id]
        if v is NOVALUE:
            return False
        return lab != ("T" if v else "F")

    return skip


def both(*preds: Callable[[Node, Node, str], bool]) -> Callable[[Node, Node, str], bool]:
    return lambda a, b, lab: any(p(a, b, lab) for p in preds)


def normal_only(a: Node, b: Node, lab: str) -> bool:
    return lab in ("exc", "reraise")


class UndecidedTruth(Exception):
    pass


class NotNoneType:
    """Abstract value 'some object that is not None' (e.g. the result of arithmetic): decides `is None` tests only."""

    def _undecided(self, *a):
        raise UndecidedTruth()

    __bool__ = __eq__ = __ne__ = __lt__ = __le__ = __gt__ = __ge__ = __add__ = __radd__ = __sub__ = __rsub__ = __neg__ = _undecided  # type: ignore[assignment]
    __hash__ = object.__hash__

    def __repr__(self) -> str:
        return "<not None>"


NOT_NONE = NotNoneType()


def never_none(e: ast.AST | None) -> bool:
    """Syntactically an expression whose value cannot be None."""
    if isinstance(e, ast.BinOp) and isinstance(e.op, (ast.Add, ast.Sub, ast.Mult, ast.Div, ast.FloorDiv, ast.Mod, ast.Pow)):
        return True
    if isinstance(e, (ast.JoinedStr, ast.List, ast.Tuple, ast.Dict, ast.Set, ast.ListComp, ast.SetComp, ast.DictComp, ast.Compare, ast.Lambda)):
        return True
    if isinstance(e, ast.Constant):
        return e.value is not None
    return False


# ====================================================================== v2 tools (refactoring-robust matching)
class Abs:
    """Abstract value for scenario evaluation: a python object of a known class (by mro names), truthy or not."""

    def __init__(self, *mro: str, truthy: bool = True, tag: str = "") -> None:
        self.mro = mro
        self.truthy = truthy
        self.tag = tag

    def __bool__(self) -> bool:
        return self.truthy

    def __repr__(self) -> str:
        return f"<Abs {self.mro[0]}{' ' + self.tag if self.tag else ''}>"


A_NONE = None
A_INT = Abs("int", "object")
A_BOOL = Abs("bool", "int", "object")
A_FLOAT = Abs("float", "object")
A_FUNC = Abs("function", "Callable", "object")
A_OBJ = Abs("object")

# builtin containers with the collections.abc classes they are registered with (API fact; names as imported in haiway)
_ABCS = {
    "list": ("MutableSequence", "Sequence", "Reversible", "Collection", "Sized", "Iterable", "Container"),
    "tuple": ("Sequence", "Reversible", "Collection", "Sized", "Iterable", "Container"),
    "str": ("Sequence", "Reversible", "Collection", "Sized", "Iterable", "Container"),
    "bytes": ("Sequence", "Reversible", "Collection", "Sized", "Iterable", "Container"),
    "bytearray": ("MutableSequence", "Sequence", "Reversible", "Collection", "Sized", "Iterable", "Container"),
    "set": ("MutableSet", "Set", "AbstractSet", "Collection", "Sized", "Iterable", "Container"),
    "frozenset": ("Set", "AbstractSet", "Collection", "Sized", "Iterable", "Container"),
    "dict": ("MutableMapping", "Mapping", "Collection", "Sized", "Iterable", "Container"),
    "int": (),
    "float": (),
    "function": ("Callable",),
}


def abs_builtin(name: str, truthy: bool = True) -> Abs:
    """A non-empty instance of a builtin class, with the ABCs isinstance() / match see for it."""
    return Abs(name, *_ABCS[name], "object", truthy=truthy, tag=name)


def _class_names(e: ast.AST) -> list[str] | None:
    """Names of the classes in an isinstance() second argument / class pattern: T, (A, B), A | B."""
    if isinstance(e, (ast.Name, ast.Attribute)):
        return [(dotted(e) or "").rsplit(".", 1)[-1]]
    if isinstance(e, ast.Tuple):
        out: list[str] = []
        for x in e.elts:
            sub = _class_names(x)
            if sub is None:
                return None
            out += sub
        return out
    if isinstance(e, ast.BinOp) and isinstance(e.op, ast.BitOr):
        a, b = _class_names(e.left), _class_names(e.right)
        return None if a is None or b is None else a + b
    if isinstance(e, ast.Call) and isinstance(e.func, ast.Name) and e.func.id == "tuple":
        return None
    return None


def abs_isinstance(value: object, classes: list[str]) -> object:
    if value is None:
        return "NoneType" in classes or "object" in classes
    if isinstance(value, Abs):
        return any(c in value.mro for c in classes)
    if isinstance(value, bool):
        return any(c in ("bool", "int", "object") for c in classes)
    if isinstance(value, int):
        return any(c in ("int", "object") for c in classes)
    if isinstance(value, float):
        return any(c in ("float", "object") for c in classes)
    return NOVALUE


_prev_eval_expr = eval_expr


def eval_expr(e: ast.AST, env: Callable[[ast.AST], object]) -> object:  # noqa: F811 - extends the basic evaluator
    v = env(e)
    if v is not NOVALUE:
        return v
    if isinstance(e, ast.Call) and isinstance(e.func, ast.Name) and e.func.id == "isinstance" and len(e.args) == 2:
        val = eval_expr(e.args[0], env)
        names = _class_names(e.args[1])
        if val is not NOVALUE and names is not None:
            return abs_isinstance(val, names)
        return NOVALUE
    if isinstance(e, ast.Call) and isinstance(e.func, ast.Name) and e.func.id == "callable" and len(e.args) == 1:
        val = eval_expr(e.args[0], env)
        if isinstance(val, Abs):
            return "Callable" in val.mro or "function" in val.mro
        if val is None or isinstance(val, (int, float)):
            return False
        return NOVALUE
    if isinstance(e, ast.Call) and isinstance(e.func, ast.Name) and e.func.id == "len" and len(e.args) == 1:
        val = eval_expr(e.args[0], env)
        if isinstance(val, (list, tuple, dict, str)):
            return len(val)
        return NOVALUE
    if isinstance(e, ast.Call) and isinstance(e.func, ast.Name) and e.func.id == "bool" and len(e.args) == 1 and not e.keywords:
        val = eval_expr(e.args[0], env)
        if val is NOVALUE:
            return NOVALUE
        try:
            return bool(val)
        except UndecidedTruth:
            return NOVALUE
    if isinstance(e, ast.IfExp):
        t = eval_expr(e.test, env)
        if t is NOVALUE:
            return NOVALUE
        return eval_expr(e.body if t else e.orelse, env)
    return _prev_eval_expr(e, env)


_prev_eval_pattern = eval_pattern


def eval_pattern(case: ast.match_case, env: Callable[[ast.AST], object]) -> object:  # noqa: F811
    m = parent(case)
    if isinstance(m, ast.Match):
        subj = eval_expr(m.subject, env)
        if subj is not NOVALUE:

            def go(p: ast.pattern) -> object:
                if isinstance(p, ast.MatchAs):
                    return True if p.pattern is None else go(p.pattern)
                if isinstance(p, ast.MatchSingleton):
                    return subj is p.value
                if isinstance(p, ast.MatchValue) and isinstance(p.value, ast.Constant):
                    return (subj == p.value.value) if not isinstance(subj, Abs) else False
                if isinstance(p, ast.MatchClass) and not p.patterns and not p.kwd_patterns:
                    names = _class_names(p.cls)
                    return abs_isinstance(subj, names) if names else NOVALUE
                if isinstance(p, ast.MatchClass) and len(p.patterns) == 1 and isinstance(p.patterns[0], ast.MatchAs) and p.patterns[0].pattern is None:
                    names = _class_names(p.cls)
                    return abs_isinstance(subj, names) if names else NOVALUE
                if isinstance(p, ast.MatchOr):
                    vals = [go(x) for x in p.patterns]
                    if any(v is True for v in vals):
                        return True
                    return NOVALUE if any(v is NOVALUE for v in vals) else False
                if isinstance(p, ast.MatchSequence):
                    if isinstance(subj, (list, tuple)):
                        star = any(isinstance(x, ast.MatchStar) for x in p.patterns)
                        return len(subj) >= len(p.patterns) - 1 if star else len(subj) == len(p.patterns)
                    if subj is None or isinstance(subj, (int, float)):
                        return False
                    if isinstance(subj, Abs):
                        # sequence patterns match collections.abc.Sequence instances except str / bytes / bytearray
                        seq = ("list" in subj.mro or "tuple" in subj.mro or "Sequence" in subj.mro) and subj.mro[0] not in ("str", "bytes", "bytearray")
                        if not seq:
                            return False
                        if len(p.patterns) == 1 and isinstance(p.patterns[0], ast.MatchStar):
                            return True
                        return NOVALUE
                if isinstance(p, ast.MatchMapping):
                    if subj is None or isinstance(subj, (int, float, list, tuple, str)):
                        return False
                    if isinstance(subj, Abs):
                        if "Mapping" not in subj.mro and "dict" not in subj.mro:
                            return False
                        return True if not p.keys else NOVALUE
                return NOVALUE

            return go(case.pattern)
    return _prev_eval_pattern(case, env)


class Scenario:
    """Scenario evaluation with constant propagation through locals (fixpoint, scenario-refined, not path
    sensitive): a local evaluates to the common value of those of its definitions that are reachable in
    the scenario.  Gives `skip` (an edge predicate) and `reach` (reachable node ids)."""

    def __init__(self, g: CFG, deps: "Deps", env: Callable[[ast.AST], object], rounds: int = 4, params: dict[str, object] | None = None, edge: Callable[[Node, Node, str], bool] | None = None, defer: bool = False) -> None:
        """params: scenario values of the function's parameters (a parameter that the body re-binds is then
        resolved by reaching definitions: the parameter value counts where no re-binding is passed);
        edge: additional scenario-specific edge filter (e.g. `this call raises LookupError`)."""
        self.g, self.deps, self.base_env = g, deps, env
        self.params = params or {}
        self.edge = edge
        self._busy: set[tuple[int, str]] = set()
        self.reach: set[int] = {n.id for n in g.nodes}
        self._defnodes: dict[str, list[Node]] = {}
        for n in g.nodes:
            if n.kind == "stmt" and isinstance(n.ast, (ast.Assign, ast.AnnAssign)) and getattr(n.ast, "value", None) is not None:
                tgts = n.ast.targets if isinstance(n.ast, ast.Assign) else [n.ast.target]
                for t in tgts:
                    if isinstance(t, ast.Name):
                        self._defnodes.setdefault(t.id, []).append(n)
        self._all_defs_known: dict[str, bool] = {}
        self._cache: dict[int, object] = {}
        self._rounds = rounds
        if not defer:
            self.solve()

    def solve(self) -> "Scenario":
        for _ in range(self._rounds):
            self._cache = {}
            new = self.g.reachable([self.g.entry], skip_edge=self.skip)
            if new == self.reach:
                break
            self.reach = new
        return self

    def _known_skip(self, a: Node, b: Node, lab: str) -> bool:
        """Edge filter from the branch outcomes decided so far (never triggers an evaluation)."""
        if self.edge is not None and self.edge(a, b, lab):
            return True
        if a.kind not in ("test", "match-case") or lab not in ("T", "F"):
            return False
        v = self._cache.get(a.id, NOVALUE)
        return False if v is NOVALUE else lab != ("T" if v else "F")

    def value_at(self, node: Node, e: ast.AST) -> object:
        """Scenario value of expression e as evaluated at CFG node `node`."""
        prev = getattr(self, "_at", None)
        self._at = node
        try:
            return eval_expr(e, self.env)
        finally:
            self._at = prev

    def reduced_at(self, node: Node, e: ast.AST | None) -> ast.AST | None:
        """`e` with the conditional expressions / `or`-defaults this scenario decides at `node` stripped."""
        prev = getattr(self, "_at", None)
        self._at = node
        try:
            return reduce_ifexp(e, self.env)
        finally:
            self._at = prev

    def _param(self, e: ast.Name) -> object:
        name = e.id
        at = getattr(self, "_at", None)
        alldefs = set(self._defnodes.get(name, []))
        if not alldefs:
            return self.params[name]
        if at is None:
            return NOVALUE
        key = (at.id, name)
        if key in self._busy:
            return NOVALUE
        self._busy.add(key)
        try:
            vals: list[object] = []
            if self.g.search([self.g.entry], lambda x: x is at, skip_node=lambda x: x in alldefs and x is not at, skip_edge=self._known_skip, include_start=True) is not None:
                vals.append(self.params[name])
            for dn in alldefs:
                if dn is at or dn.id not in self.reach:
                    continue  # (a re-binding reaches itself only around a loop: not modelled)
                starts = [t for t, lab in dn.succ if lab not in ("exc", "reraise") and not self._known_skip(dn, t, lab)]
                if self.g.search(starts, lambda x: x is at, skip_node=lambda x, dn=dn: x in alldefs and x is not dn and x is not at, skip_edge=self._known_skip, include_start=True) is None:
                    continue
                vals.append(self.value_at(dn, dn.ast.value))
            if not vals or any(v is NOVALUE for v in vals):
                return NOVALUE
            first = vals[0]
            return first if all(v is first or (type(v) is type(first) and not isinstance(v, Abs) and v == first) for v in vals) else NOVALUE
        finally:
            self._busy.discard(key)

    def env(self, e: ast.AST) -> object:
        if isinstance(e, ast.Name) and isinstance(e.ctx, ast.Load) and e.id in self.params:
            return self._param(e)
        v = self.base_env(e)
        if v is not NOVALUE:
            return v
        if isinstance(e, ast.Name) and isinstance(e.ctx, ast.Load):
            owner = self.deps.owner(e.id)
            if owner is None:
                return NOVALUE
            kinds = {k for k, _ in self.deps.defs(owner, e.id)}
            if kinds == {"def"}:
                # a nested function bound once by its `def`: one abstract function object per definition
                dn_ = [n for k, n in self.deps.defs(owner, e.id)]
                if len(dn_) == 1 and isinstance(dn_[0], (ast.FunctionDef, ast.AsyncFunctionDef)):
                    key = ("def", owner.qualname, e.id)
                    if key not in _SENTINELS:
                        _SENTINELS[key] = Abs("function", "Callable", "object", tag=f"def:{owner.qualname}.{e.id}")  # type: ignore[index]
                    return _SENTINELS[key]  # type: ignore[index]
                return NOVALUE
            if kinds - {"value"}:
                return self._captures_and_assignments(e.id) if owner is self.deps.fi else NOVALUE
            if owner is self.deps.fi and e.id not in self._defnodes:
                cap = self._whole_subject_capture(e.id)
                if cap is not NOVALUE:
                    return cap
            if owner is not self.deps.fi:
                sv = self.deps.single_value(e.id)
                return eval_expr(sv, self.env) if sv is not None and not isinstance(sv, (ast.Await, ast.Yield)) else NOVALUE
            nodes = [n for n in self._defnodes.get(e.id, []) if n.id in self.reach and not getattr(n.ast, "_inline_init", False)]
            at = getattr(self, "_at", None)
            if at is not None and len(nodes) > 1:
                # reaching definitions: a definition counts only if it can reach the node being evaluated
                # without being overwritten by another definition of the same name
                others = set(self._defnodes.get(e.id, []))
                reaching = [dn for dn in nodes if self.g.search([dn], lambda x: x is at, skip_node=lambda x, dn=dn: x in others and x is not dn and x is not at, skip_edge=self._known_skip) is not None]
                if reaching:
                    nodes = reaching
            n_defs = len([1 for k, _ in self.deps.defs(owner, e.id)])
            walrus = [x for x in self.deps.fi.own_nodes() if isinstance(x, ast.NamedExpr) and x.target.id == e.id]
            if n_defs > len(self._defnodes.get(e.id, [])) + len(walrus):
                # also bound in a way that is not followed (`+=`, loop target, with-as, unpacking): no single value - unless the
                # other bindings are whole-subject captures of a match
                return self._captures_and_assignments(e.id) if not walrus else NOVALUE
            if not nodes and not walrus:
                return NOVALUE
            guard = (-1, e.id)
            if guard in self._busy:
                return NOVALUE  # a definition in terms of itself (`root = root._parent` in a loop): no single value
            self._busy.add(guard)
            try:
                vals = []
                for n in nodes:
                    direct = self.base_env(n.ast.value)
                    if direct is not NOVALUE:
                        vals.append(direct)
                        continue
                    if isinstance(n.ast.value, (ast.Await, ast.Yield, ast.YieldFrom)):
                        return NOVALUE
                    try:
                        got_ = eval_expr(n.ast.value, self.env)
                    except UndecidedTruth:
                        got_ = NOVALUE
                    vals.append(NOT_NONE if got_ is NOVALUE and never_none(n.ast.value) else got_)
                for w in walrus:
                    vals.append(eval_expr(w.value, self.env))
            finally:
                self._busy.discard(guard)
            if any(v is NOVALUE for v in vals):
                return NOVALUE
            first = vals[0]
            if any(v is NOT_NONE for v in vals):
                return NOT_NONE if all(v is NOT_NONE or (v is not None and not isinstance(v, NotNoneType)) for v in vals) else NOVALUE
            if all((v is first) or (not isinstance(v, Abs) and not isinstance(first, Abs) and type(v) is type(first) and v == first) for v in vals):
                return first
            if all(bool(v) == bool(first) for v in vals) and all(v is None or isinstance(v, Abs) for v in vals):
                return first if all(v is None for v in vals) else NOVALUE
            return NOVALUE
        return NOVALUE

    def _captures_and_assignments(self, name: str) -> object:
        """A local bound in some arms by a whole-subject capture (`case timedelta() as delta:`) and in others by a plain
        assignment (`case seconds: delta = timedelta(seconds=seconds)`): the value of the bindings that are live in this
        scenario and reach the node being evaluated, when they agree."""
        arms = []
        for n in self.g.nodes:
            if n.kind == "match-case" and isinstance(n.ast, ast.match_case):
                binds = [pn for pn in ast.walk(n.ast.pattern) if isinstance(pn, (ast.MatchAs, ast.MatchStar)) and pn.name == name] + [pn for pn in ast.walk(n.ast.pattern) if isinstance(pn, ast.MatchMapping) and pn.rest == name]
                if not binds:
                    continue
                if not (len(binds) == 1 and binds[0] is n.ast.pattern and isinstance(binds[0], ast.MatchAs)):
                    return NOVALUE
                arms.append(n)
        plain = list(self._defnodes.get(name, []))
        if not arms or len([1 for k, _ in self.deps.defs(self.deps.fi, name)]) != len(arms) + len(plain):
            return NOVALUE
        at = getattr(self, "_at", None)
        guard = (-2, name)
        if guard in self._busy:
            return NOVALUE
        self._busy.add(guard)
        try:
            vals: list[object] = []
            alldefs = set(arms) | set(plain)
            for n in arms + plain:
                if n.id not in self.reach:
                    continue
                if n in arms:
                    starts = [t for t, lab in n.succ if lab == "T" and not self._known_skip(n, t, lab)]
                else:
                    starts = [t for t, lab in n.succ if lab not in ("exc", "reraise") and not self._known_skip(n, t, lab)]
                if not starts:
                    continue
                if at is not None and self.g.search(starts, lambda x: x is at, skip_node=lambda x, n=n: x in alldefs and x is not n and x is not at, skip_edge=self._known_skip, include_start=True) is None:
                    continue
                if n in arms:
                    m = parent(n.ast)
                    if not isinstance(m, ast.Match):
                        return NOVALUE
                    vals.append(eval_expr(m.subject, self.env))
                else:
                    direct = self.base_env(n.ast.value)
                    vals.append(direct if direct is not NOVALUE else eval_expr(n.ast.value, self.env))
            if not vals or any(v is NOVALUE for v in vals):
                return NOVALUE
            first = vals[0]
            return first if all(v is first for v in vals) else NOVALUE
        finally:
            self._busy.discard(guard)

    def _whole_subject_capture(self, name: str) -> object:
        """`case name:` / `case <pattern> as name:` bind the whole match subject: in the arms reachable in this scenario
        the name has the subject's value (all its bindings must be of this kind)."""
        arms = []
        for n in self.g.nodes:
            if n.kind == "match-case" and isinstance(n.ast, ast.match_case):
                binds = [pn for pn in ast.walk(n.ast.pattern) if isinstance(pn, (ast.MatchAs, ast.MatchStar)) and pn.name == name] + [pn for pn in ast.walk(n.ast.pattern) if isinstance(pn, ast.MatchMapping) and pn.rest == name]
                if not binds:
                    continue
                if not (len(binds) == 1 and binds[0] is n.ast.pattern and isinstance(binds[0], ast.MatchAs)):
                    return NOVALUE  # bound to a part of the subject
                arms.append(n)
        if not arms:
            return NOVALUE
        n_bind = len([1 for k, _ in self.deps.defs(self.deps.fi, name)])
        if n_bind != len(arms):
            return NOVALUE
        live = [n for n in arms if n.id in self.reach and any(lab == "T" and not self._known_skip(n, t, lab) for t, lab in n.succ)]
        vals = []
        for n in live:
            m = parent(n.ast)
            if not isinstance(m, ast.Match):
                return NOVALUE
            vals.append(eval_expr(m.subject, self.env))
        if not vals or any(v is NOVALUE for v in vals) or any(v is not vals[0] and v != vals[0] for v in vals):
            return NOVALUE
        return vals[0]

    def skip(self, a: Node, b: Node, lab: str) -> bool:
        if self.edge is not None and self.edge(a, b, lab):
            return True
        if a.kind not in ("test", "match-case") or lab not in ("T", "F"):
            return False
        if a.id not in self._cache:
            self._at = a
            try:
                self._cache[a.id] = eval_pattern(a.ast, self.env) if a.kind == "match-case" else eval_expr(a.ast, self.env)  # type: ignore[arg-type]
            except UndecidedTruth:
                self._cache[a.id] = NOVALUE
            finally:
                self._at = None
        v = self._cache[a.id]
        if v is NOVALUE or isinstance(v, NotNoneType):
            if isinstance(v, NotNoneType):
                self._cache[a.id] = NOVALUE
            return False
        return lab != ("T" if v else "F")

    def undecided(self) -> list[Node]:
        """Reachable branch points whose outcome the scenario does not determine (both edges were kept)."""
        return [n for n in self.g.nodes if n.id in self.reach and n.kind in ("test", "match-case") and self._cache.get(n.id, NOVALUE) is NOVALUE]

    def reaching_defs(self, node: Node, name: str) -> list[Node] | None:
        """Definition nodes (plain assignments) of local `name` that can reach `node` in this scenario."""
        owner = self.deps.owner(name)
        if owner is not self.deps.fi:
            return None
        kinds = {k for k, _ in self.deps.defs(owner, name)}
        if kinds - {"value"}:
            return None
        alldefs = set(self._defnodes.get(name, []))
        out = []
        for dn in alldefs:
            if dn.id not in self.reach or getattr(dn.ast, "_inline_init", False) or dn is node:
                continue
            starts = [t for t, lab in dn.succ if lab not in ("exc", "reraise") and not self._known_skip(dn, t, lab)]
            if self.g.search(starts, lambda x: x is node, skip_node=lambda x, dn=dn: x in alldefs and x is not dn and x is not node, skip_edge=self._known_skip, include_start=True) is not None:
                out.append(dn)
        return out

    def reaching_values(self, node: Node, name: str) -> list[ast.AST] | None:
        """Defining expressions of local `name` that can reach `node` in this scenario (None when the name has
        definitions that are not plain assignments)."""
        owner = self.deps.owner(name)
        if owner is not self.deps.fi:
            return None
        kinds = {k for k, _ in self.deps.defs(owner, name)}
        if kinds - {"value"}:
            return None
        alldefs = set(self._defnodes.get(name, []))
        out = []
        for dn in alldefs:
            if dn.id not in self.reach or getattr(dn.ast, "_inline_init", False) or dn is node:
                continue
            starts = [t for t, lab in dn.succ if lab not in ("exc", "reraise") and not self._known_skip(dn, t, lab)]
            if self.g.search(starts, lambda x: x is node, skip_node=lambda x, dn=dn: x in alldefs and x is not dn and x is not node, skip_edge=self._known_skip, include_start=True) is not None:
                out.append(dn.ast.value)
        return out

    def values_of(self, name: str) -> list[ast.AST]:
        """Defining expressions of a local that are reachable in this scenario."""
        return [n.ast.value for n in self._defnodes.get(name, []) if n.id in self.reach and not getattr(n.ast, "_inline_init", False)]


def classify_handler_for(g: CFG, h: ast.ExceptHandler, exc_class: str) -> list[tuple[str, Node, list[Node]]]:
    """classify_handler restricted to the paths an exception of class `exc_class` takes through the handler
    (guards like `if isinstance(exc, CancelledError): raise` inside a merged handler are evaluated)."""
    from .cfg import exc_is_sub

    def env(e: ast.AST) -> object:
        if h.name and isinstance(e, ast.Name) and e.id == h.name:
            mro = [exc_class]
            for base in ("CancelledError", "Exception", "BaseException"):
                if base != exc_class and exc_is_sub(exc_class, base):
                    mro.append(base)
            return Abs(*mro, "object")
        return NOVALUE

    return classify_handler(g, h, skip_edge=scenario(g, env))


def reduce_ifexp(e: ast.AST | None, env: Callable[[ast.AST], object]) -> ast.AST | None:
    """Strip conditional expressions whose test the scenario decides: `a if t else b` -> a / b."""
    from .astutil import unwrap

    e = unwrap(e) if e is not None else None
    while True:
        if isinstance(e, ast.IfExp):
            t = eval_expr(e.test, env)
            if t is NOVALUE:
                break
            e = unwrap(e.body if t else e.orelse)
        elif isinstance(e, ast.BoolOp) and len(e.values) == 2:
            # `given or <default>` / `given and <use>` with a decided first operand
            t = eval_expr(e.values[0], env)
            if t is NOVALUE:
                break
            try:
                truthy = bool(t)
            except UndecidedTruth:
                break
            e = unwrap(e.values[0] if truthy == isinstance(e.op, ast.Or) else e.values[1])
        else:
            break
    return e


def added_optional_params_env(fi: FunctionInfo, established: set[str]) -> Callable[[ast.AST], object]:
    """Situation "the caller uses the established interface": parameters of `fi` that are not among its `established`
    ones (the signature the property was stated for) and have a constant default evaluate to that default.  A new
    optional argument does not change what the property says about existing calls."""
    a = fi.node.args
    vals: dict[str, object] = {}
    pd = a.posonlyargs + a.args
    for prm, dv in zip(pd[len(pd) - len(a.defaults):], a.defaults):
        if prm.arg not in established and isinstance(dv, ast.Constant):
            vals[prm.arg] = dv.value
    for prm, dv in zip(a.kwonlyargs, a.kw_defaults):
        if dv is not None and prm.arg not in established and isinstance(dv, ast.Constant):
            vals[prm.arg] = dv.value
    rebound = {n.id for n in fi.own_nodes() if isinstance(n, ast.Name) and isinstance(n.ctx, ast.Store)}

    def env(e: ast.AST) -> object:
        if isinstance(e, ast.Name) and isinstance(e.ctx, ast.Load) and e.id in vals and e.id not in rebound:
            return vals[e.id]
        return NOVALUE

    return env


def unwrapped_returns(an, wrap_fi: FunctionInfo, wrappers: set[str]) -> list[ast.Return]:
    """Returns of a decorator's inner function that hand back something else than a freshly built wrapper
    (an instance of one of the `wrappers` classes / the result of one of the wrapper factories)."""
    from .astutil import Deps

    d = Deps(an.prog, wrap_fi)
    bad = []
    for r in [r for r in wrap_fi.own_nodes() if isinstance(r, ast.Return)]:
        oo = d.origins(r.value) if r.value is not None else frozenset()
        if not oo or not all(o.startswith("call:") and o[5:] in wrappers for o in oo):
            bad.append(r)
    return bad


def constructed_attr_values(an, cls_path: str, attr: str) -> list[tuple[ast.Call, list[ast.AST]]]:
    """What `__init__` of the class stores into self.<attr> at each constructor call site of the package: the
    parameters are bound to the constant arguments / defaults of the site, branches and conditional expressions
    they decide are resolved.  [(call site, [stored expressions reachable in that situation])]."""
    from .astutil import Deps, unwrap
    from .loader import dotted

    prog = an.prog
    ci = prog.cls(cls_path)
    init = ci.method("__init__")
    if init is None:
        return []
    g = an.cfg(init)
    d = Deps(prog, init)
    a = init.node.args
    pos = [x.arg for x in a.posonlyargs + a.args][1:]
    defaults: dict[str, ast.AST] = {}
    pd = a.posonlyargs + a.args
    for prm, dv in zip(pd[len(pd) - len(a.defaults):], a.defaults):
        defaults[prm.arg] = dv
    for prm, dv in zip(a.kwonlyargs, a.kw_defaults):
        if dv is not None:
            defaults[prm.arg] = dv
    stores = [n for n in g.nodes if n.kind == "stmt" and isinstance(n.ast, (ast.Assign, ast.AnnAssign)) and getattr(n.ast, "value", None) is not None and any(dotted(t) == f"self.{attr}" for t in (n.ast.targets if isinstance(n.ast, ast.Assign) else [n.ast.target]))]
    out: list[tuple[ast.Call, list[ast.AST]]] = []
    for fi in prog.scan_functions():
        for c in fi.own_nodes():
            if not (isinstance(c, ast.Call) and an.callee(fi, c) in (ci.qualname, ci.qualname + ".__init__")):
                continue
            bound: dict[str, ast.AST] = dict(defaults)
            opaque = False
            for i, arg in enumerate(c.args):
                if isinstance(arg, ast.Starred) or i >= len(pos):
                    opaque = True
                    break
                bound[pos[i]] = arg
            for k in c.keywords:
                if k.arg is None:
                    opaque = True
                else:
                    bound[k.arg] = k.value
            params = {} if opaque else {name: unwrap(v).value for name, v in bound.items() if isinstance(unwrap(v), ast.Constant)}
            unknown = set(init.param_names()) - set(params)

            def env(e: ast.AST, unknown=unknown):
                return NOVALUE

            sc = Scenario(g, d, env, params=params)
            vals = [sc.reduced_at(st, st.ast.value) for st in stores if st.id in sc.reach]  # type: ignore[union-attr]
            out.append((c, vals))
    return out


def holds_the_decorated_function(an, ob, class_short: str, attr: str = "_function") -> None:
    """The wrapper object keeps the very callable it was given: `self._function` has one definition, the constructor's
    function parameter itself (a cast aside) - not that callable passed through another wrapper (which decides anew whether it
    is a coroutine function, adds a thread hop, ...)."""
    from .astutil import is_name, unwrap

    prog = an.prog
    ci = prog.cls(class_short)
    init = prog.fn(f"{class_short}.__init__")
    params = init.param_names()
    fparam = params[1] if len(params) > 1 else None
    vals = ci.attr_val.get(attr, [])
    if fparam is None or not vals:
        ob.fail(init, None, f"{ci.name}.{attr} is never set from the constructor's function parameter")
        return
    for v in vals:
        ob.inst(init, v, attr)
        if not is_name(unwrap(v), fparam):
            ob.fail(init, v, f"{ci.name}.{attr} does not hold the decorated function itself (`{fparam}`) but something derived from it: what is called later is not the function the decorator was given")


def param_values_at(g, sc, node, pname: str) -> tuple[bool, list]:
    """What the parameter `pname` can hold at CFG node `node` in scenario `sc`: (its incoming value reaches the node,
    [values of the re-bindings `pname = <value>` that reach it])."""
    from .astutil import is_name

    rebinds = [n for n in g.nodes if n.kind == "stmt" and n.id in sc.reach and isinstance(n.ast, (ast.Assign, ast.AnnAssign)) and getattr(n.ast, "value", None) is not None and is_name(n.ast.targets[0] if isinstance(n.ast, ast.Assign) else n.ast.target, pname)]
    unbound = g.search([g.entry], lambda x: x is node, skip_node=lambda x: x in rebinds, skip_edge=sc.skip, include_start=True) is not None
    reach = [dn for dn in rebinds if g.search([t for t, lab in dn.succ if lab not in ("exc", "reraise")], lambda x: x is node, skip_node=lambda x, dn=dn: x in rebinds and x is not dn, skip_edge=sc.skip, include_start=True) is not None]
    return unbound, [dn.ast.value for dn in reach]
